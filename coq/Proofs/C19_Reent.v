(* C19, round 3 - lemmas about (i) histories in which the wrapped function acts while the wrapper is
   inside it (it raises, it calls the wrapper again, it lets time pass): Model/C19.v, section
   Reentrant; (ii) the size of the LRU cache under interleaving (section Quiesce). *)
From Coq Require Import List ZArith NArith Bool Lia Sorted.
From Orso Require Import Model.C19.
Import ListNotations.

Section Reent.
Variables A K R : Type.
Variable key : A -> K.
Variable keqb : K -> K -> bool.
Variable f : A -> N -> R.
Variable valid : option Z.

Notation xev := (@xev A).
Notation xevs := (@xevs A).
Notation xout := (@xout A R).
Notation sx_st := (@sx_st A R).
Notation lx_st := (@lx_st A K R).
Notation item := (K * (Z * R))%type.

Scheme xev_mut := Induction for C19.xev Sort Prop
  with xevs_mut := Induction for C19.xevs Sort Prop.
Combined Scheme xev_xevs_ind from xev_mut, xevs_mut.

Lemma inv_no_snoc (log : list (A * Z)) x : inv_no (log ++ [x]) = N.succ (inv_no log).
Proof. unfold inv_no. rewrite app_length. cbn. lia. Qed.

(* ------------------------------------------------------------------ *)
(* the flat histories are the forests without bodies and failures       *)
(* ------------------------------------------------------------------ *)
Definition conv (o : @outcome A R) : xout := mkXO (o_arg o) (o_now o) (o_hit o) (Some (o_res o)).

Definition srel (s : @sic_st A R) (x : sx_st) : Prop :=
  s_entry s = sx_entry x /\ s_now s = sx_now x /\ s_calls s = inv_no (sx_log x).

Lemma sicx_flat h : forall s x, srel s x ->
  srel (fst (sic_run key keqb f valid s h)) (fst (sicx_run key keqb f valid (embed h) x)) /\
  map conv (snd (sic_run key keqb f valid s h)) = snd (sicx_run key keqb f valid (embed h) x).
Proof.
  induction h as [|[a|d] h IH]; intros s x Hrel.
  - cbn. auto.
  - pose proof Hrel as (He & Hn & Hc).
    cbn [sic_run embed sicx_run sicx_ev]. unfold sic_call, sx_lookup. rewrite <- He, <- Hn.
    assert (Hmiss : srel (fst (sic_miss f s a)) (mkSX (Some (a, f a (inv_no (sx_log x)), s_now s)) (s_now s) (sx_log x ++ [(a, s_now s)])) /\
                    conv (snd (sic_miss f s a)) = mkXO a (s_now s) false (Some (f a (inv_no (sx_log x))))).
    { unfold sic_miss, srel, conv. cbn. rewrite inv_no_snoc, Hc. auto. }
    destruct (s_entry s) as [[[la lr] lt]|] eqn:Ee.
    + destruct (keqb (key la) (key a) && fresh valid (s_now s) lt) eqn:Ec.
      * specialize (IH s x Hrel).
        destruct (sic_run key keqb f valid s h) as [s2 os]. destruct (sicx_run key keqb f valid (embed h) x) as [x2 tr].
        cbn [fst snd map app] in *. destruct IH as [IH1 IH2]. split; auto. rewrite IH2. reflexivity.
      * destruct Hmiss as [Hm1 Hm2]. cbn [sicx_run]. destruct (sic_miss f s a) as [s1 o]. cbn [fst snd] in *.
        specialize (IH s1 _ Hm1).
        destruct (sic_run key keqb f valid s1 h) as [s2 os]. destruct (sicx_run key keqb f valid (embed h) _) as [x2 tr].
        cbn [fst snd map app] in *. destruct IH as [IH1 IH2]. split; auto. rewrite IH2, Hm2. reflexivity.
    + destruct Hmiss as [Hm1 Hm2]. cbn [sicx_run]. destruct (sic_miss f s a) as [s1 o]. cbn [fst snd] in *.
      specialize (IH s1 _ Hm1).
      destruct (sic_run key keqb f valid s1 h) as [s2 os]. destruct (sicx_run key keqb f valid (embed h) _) as [x2 tr].
      cbn [fst snd map app] in *. destruct IH as [IH1 IH2]. split; auto. rewrite IH2, Hm2. reflexivity.
  - cbn [sic_run embed sicx_run sicx_ev].
    assert (Ht : srel (sic_tick s d) (mkSX (sx_entry x) (sx_now x + Z.of_N d) (sx_log x))).
    { destruct Hrel as (He & Hn & Hc). unfold srel, sic_tick. cbn. rewrite Hn. auto. }
    specialize (IH _ _ Ht).
    destruct (sic_run key keqb f valid (sic_tick s d) h) as [s2 os]. destruct (sicx_run key keqb f valid (embed h) _) as [x2 tr].
    cbn [fst snd app] in *. exact IH.
Qed.

Theorem sicx_flat_init t0 h :
  map conv (snd (sic_run key keqb f valid (sic_init t0) h)) = snd (sicx_run key keqb f valid (embed h) (sx_init t0)).
Proof. apply sicx_flat. repeat split. Qed.

Definition lrel (mx : nat) (s : @lru_st K R) (x : lx_st) : Prop :=
  l_items s = lx_items x /\ l_now s = lx_now x /\ l_calls s = inv_no (lx_log x).

Lemma lrx_flat mx h : forall s x, lrel mx s x ->
  lrel mx (fst (lru_run key keqb f mx valid s h)) (fst (lrx_run key keqb f mx valid (embed h) x)) /\
  map (fun oi => (conv (fst oi), snd oi)) (snd (lru_run key keqb f mx valid s h)) = snd (lrx_run key keqb f mx valid (embed h) x).
Proof.
  induction h as [|[a|d] h IH]; intros s x Hrel.
  - cbn. auto.
  - destruct Hrel as (He & Hn & Hc).
    cbn [lru_run embed lrx_run lrx_ev]. unfold lru_call, lx_lookup. rewrite <- He, <- Hn, <- Hc.
    set (live := lru_live valid (l_now s) (l_items s)).
    set (smiss := mkL (lru_trim mx (lru_put keqb (key a) (l_now s, f a (l_calls s)) live)) (l_now s) (N.succ (l_calls s))).
    assert (Hmiss : lrel mx smiss (mkLX (lru_trim mx (lru_put keqb (key a) (l_now s, f a (l_calls s)) live)) (l_now s) (lx_log x ++ [(a, l_now s)]))).
    { unfold lrel, smiss. cbn. rewrite inv_no_snoc, Hc. auto. }
    assert (Hgo : forall s1 x1 o it, lrel mx s1 x1 ->
      lrel mx (fst (let '(s2, os) := lru_run key keqb f mx valid s1 h in (s2, (o, it) :: os)))
              (fst (let '(x2, t2) := lrx_run key keqb f mx valid (embed h) x1 in (x2, [(conv o, it)] ++ t2))) /\
      map (fun oi => (conv (fst oi), snd oi)) (snd (let '(s2, os) := lru_run key keqb f mx valid s1 h in (s2, (o, it) :: os))) =
      snd (let '(x2, t2) := lrx_run key keqb f mx valid (embed h) x1 in (x2, [(conv o, it)] ++ t2))).
    { intros s1 x1 o it H1. specialize (IH s1 x1 H1).
      destruct (lru_run key keqb f mx valid s1 h) as [s2 os]. destruct (lrx_run key keqb f mx valid (embed h) x1) as [x2 t2].
      cbn [fst snd map app] in *. destruct IH as [IH1 IH2]. split; auto. rewrite IH2. reflexivity. }
    destruct (lru_find keqb (key a) live) as [e|] eqn:Ef.
    + destruct (fresh valid (l_now s) (fst (snd e))) eqn:Efr.
      * apply (Hgo (mkL (lru_remove keqb (key a) live ++ [e]) (l_now s) (l_calls s)) (mkLX (lru_remove keqb (key a) live ++ [e]) (l_now s) (lx_log x))
                   (mkO a (l_now s) true (snd (snd e)))).
        unfold lrel. cbn. auto.
      * cbn [lrx_run app]. exact (Hgo smiss _ (mkO a (l_now s) false (f a (l_calls s))) _ Hmiss).
    + cbn [lrx_run app]. exact (Hgo smiss _ (mkO a (l_now s) false (f a (l_calls s))) _ Hmiss).
  - cbn [lru_run embed lrx_run lrx_ev].
    assert (Ht : lrel mx (lru_tick s d) (mkLX (lx_items x) (lx_now x + Z.of_N d) (lx_log x))).
    { destruct Hrel as (He & Hn & Hc). unfold lrel, lru_tick. cbn. rewrite Hn. auto. }
    specialize (IH _ _ Ht).
    destruct (lru_run key keqb f mx valid (lru_tick s d) h) as [s2 os]. destruct (lrx_run key keqb f mx valid (embed h) _) as [x2 tr].
    cbn [fst snd app] in *. exact IH.
Qed.

Theorem lrx_flat_init mx t0 h :
  map (fun oi => (conv (fst oi), snd oi)) (snd (lru_run key keqb f mx valid (lru_init t0) h)) =
  snd (lrx_run key keqb f mx valid (embed h) (lx_init t0)).
Proof. apply lrx_flat. repeat split. Qed.

(* ------------------------------------------------------------------ *)
(* every history in which the wrapped function acts                     *)
(* ------------------------------------------------------------------ *)
Hypothesis keqb_spec : forall x y, keqb x y = true <-> x = y.

(* r is the value of a logged invocation made for key k when the clock showed ts *)
Definition produced (log : list (A * Z)) (k : K) (r : R) (ts : Z) : Prop :=
  exists n a', nth_error log n = Some (a', ts) /\ r = f a' (N.of_nat n) /\ key a' = k.

(* what a call returned was produced for the caller's key; within the validity period of the clock
   value the caller read when served from the cache, otherwise by the caller's own invocation *)
Definition out_ok (log : list (A * Z)) (o : xout) : Prop :=
  forall r, xo_res o = Some r ->
  exists n a' tc, nth_error log n = Some (a', tc) /\ r = f a' (N.of_nat n) /\ key a' = key (xo_arg o) /\
    if xo_hit o then fresh valid (xo_now o) tc = true else a' = xo_arg o /\ tc = xo_now o.

Definition misses (tr : list xout) : nat := length (filter (fun o => negb (xo_hit o)) tr).

Lemma nth_app_mono {X} (l e : list X) n v : nth_error l n = Some v -> nth_error (l ++ e) n = Some v.
Proof. intros H. rewrite nth_error_app1; auto. apply nth_error_Some. congruence. Qed.

Lemma produced_mono log e k r ts : produced log k r ts -> produced (log ++ e) k r ts.
Proof. intros (n & a' & H1 & H2). exists n, a'. split; auto. apply nth_app_mono. exact H1. Qed.

Lemma out_ok_mono log e o : out_ok log o -> out_ok (log ++ e) o.
Proof.
  intros H r Hr. destruct (H r Hr) as (n & a' & tc & H1 & H2). exists n, a', tc. split; auto. apply nth_app_mono. exact H1.
Qed.

Lemma Forall_out_mono {X} (g : X -> xout) log e (tr : list X) :
  Forall (fun x => out_ok log (g x)) tr -> Forall (fun x => out_ok (log ++ e) (g x)) tr.
Proof. intros H. eapply Forall_impl; [|exact H]. intros x. apply out_ok_mono. Qed.

Lemma misses_app t1 t2 : misses (t1 ++ t2) = misses t1 + misses t2.
Proof. unfold misses. rewrite filter_app, app_length. reflexivity. Qed.

Lemma own_produced (log ext : list (A * Z)) a now :
  produced ((log ++ [(a, now)]) ++ ext) (key a) (f a (inv_no log)) now.
Proof.
  exists (length log), a. split; [|split; auto].
  rewrite <- app_assoc. rewrite nth_error_app2 by lia. rewrite Nat.sub_diag. reflexivity.
Qed.

Lemma own_out_ok (log ext : list (A * Z)) a now :
  out_ok ((log ++ [(a, now)]) ++ ext) (mkXO a now false (Some (f a (inv_no log)))).
Proof.
  intros r Hr. cbn in Hr. injection Hr as <-. destruct (own_produced log ext a now) as (n & a' & H1 & H2 & H3).
  exists (length log), a, now. cbn [xo_hit xo_arg xo_now]. split; [|auto].
  rewrite <- app_assoc. rewrite nth_error_app2 by lia. rewrite Nat.sub_diag. reflexivity.
Qed.


(* unfolding equations of the mutual fixpoints *)
Lemma sicx_ev_call a body raises s :
  sicx_ev key keqb f valid (XCall a body raises) s =
  match sx_lookup key keqb valid s a with
  | Some r => (s, [mkXO a (sx_now s) true (Some r)])
  | None =>
      let '(s2, tr) := sicx_run key keqb f valid body (mkSX (sx_entry s) (sx_now s) (sx_log s ++ [(a, sx_now s)])) in
      if raises then (s2, tr ++ [mkXO a (sx_now s) false None])
      else (mkSX (Some (a, f a (inv_no (sx_log s)), sx_now s)) (sx_now s2) (sx_log s2),
            tr ++ [mkXO a (sx_now s) false (Some (f a (inv_no (sx_log s))))])
  end.
Proof. reflexivity. Qed.
Lemma sicx_ev_tick d s :
  sicx_ev key keqb f valid (XTick d) s = (mkSX (sx_entry s) (sx_now s + Z.of_N d) (sx_log s), []).
Proof. reflexivity. Qed.
Lemma sicx_run_nil s : sicx_run key keqb f valid XNil s = (s, []).
Proof. reflexivity. Qed.
Lemma sicx_run_cons e r s :
  sicx_run key keqb f valid (XCons e r) s =
  let '(s1, t1) := sicx_ev key keqb f valid e s in
  let '(s2, t2) := sicx_run key keqb f valid r s1 in (s2, t1 ++ t2).
Proof. reflexivity. Qed.

(* ---- single_item_cache ---- *)
Definition sxinv (s : sx_st) : Prop :=
  match sx_entry s with
  | Some (la, lr, lt) => produced (sx_log s) (key la) lr lt
  | None => True
  end.

Definition sx_post (s : sx_st) (res : sx_st * list xout) : Prop :=
  sxinv (fst res) /\ (exists ext, sx_log (fst res) = sx_log s ++ ext) /\
  Forall (out_ok (sx_log (fst res))) (snd res) /\
  length (sx_log (fst res)) = length (sx_log s) + misses (snd res).

Lemma sicx_inv :
  (forall e : xev, forall s, sxinv s -> sx_post s (sicx_ev key keqb f valid e s)) /\
  (forall l : xevs, forall s, sxinv s -> sx_post s (sicx_run key keqb f valid l s)).
Proof.
  apply xev_xevs_ind.
  - (* call *)
    intros a body IHb raises s Hinv. rewrite sicx_ev_call.
    destruct (sx_lookup key keqb valid s a) as [r|] eqn:El.
    + unfold sx_post. cbn [fst snd]. split; [exact Hinv|]. split; [exists []; rewrite app_nil_r; reflexivity|].
      split; [|cbn; lia]. constructor; [|constructor].
      unfold sx_lookup in El. unfold sxinv in Hinv. destruct (sx_entry s) as [[[la lr] lt]|]; [|discriminate].
      destruct (keqb (key la) (key a) && fresh valid (sx_now s) lt) eqn:Ec; [|discriminate]. injection El as <-.
      apply andb_prop in Ec as [Ek Efr]. apply keqb_spec in Ek.
      intros r Hr. cbn in Hr. injection Hr as <-. destruct Hinv as (n & a' & H1 & H2 & H3).
      exists n, a', lt. cbn [xo_hit xo_arg xo_now]. rewrite <- Ek. auto.
    + set (s1 := mkSX (sx_entry s) (sx_now s) (sx_log s ++ [(a, sx_now s)])).
      assert (Hinv1 : sxinv s1).
      { unfold sxinv, s1 in *. cbn. destruct (sx_entry s) as [[[la lr] lt]|]; auto. apply produced_mono. exact Hinv. }
      specialize (IHb s1 Hinv1). destruct (sicx_run key keqb f valid body s1) as [s2 tr]. unfold sx_post in IHb. cbn [fst snd] in IHb.
      destruct IHb as (Hi2 & (ext & Hext) & Hok & Hlen). unfold s1 in Hext, Hlen. cbn [sx_log] in Hext, Hlen.
      destruct raises; unfold sx_post; cbn [fst snd sx_log].
      * split; [exact Hi2|]. split; [exists ([(a, sx_now s)] ++ ext); rewrite Hext, <- app_assoc; reflexivity|].
        split.
        -- apply Forall_app. split; [exact Hok|]. constructor; [|constructor]. intros r Hr. discriminate.
        -- rewrite misses_app, Hlen, app_length. cbn. lia.
      * split; [unfold sxinv; cbn; rewrite Hext; apply own_produced|].
        split; [exists ([(a, sx_now s)] ++ ext); rewrite Hext, <- app_assoc; reflexivity|].
        split.
        -- apply Forall_app. split; [exact Hok|]. constructor; [|constructor]. rewrite Hext. apply own_out_ok.
        -- rewrite misses_app, Hlen, app_length. cbn. lia.
  - (* tick *)
    intros d s Hinv. rewrite sicx_ev_tick. unfold sx_post. cbn [fst snd sx_log].
    split; [exact Hinv|]. split; [exists []; rewrite app_nil_r; reflexivity|]. split; [constructor|cbn; lia].
  - intros s Hinv. rewrite sicx_run_nil. unfold sx_post. cbn [fst snd].
    split; [exact Hinv|]. split; [exists []; rewrite app_nil_r; reflexivity|]. split; [constructor|cbn; lia].
  - intros e IHe r IHr s Hinv. rewrite sicx_run_cons.
    specialize (IHe s Hinv). destruct (sicx_ev key keqb f valid e s) as [s1 t1]. unfold sx_post in IHe. cbn [fst snd] in IHe.
    destruct IHe as (Hi1 & (e1 & He1) & Hok1 & Hl1).
    specialize (IHr s1 Hi1). destruct (sicx_run key keqb f valid r s1) as [s2 t2]. unfold sx_post in IHr. cbn [fst snd] in IHr.
    destruct IHr as (Hi2 & (e2 & He2) & Hok2 & Hl2).
    unfold sx_post. cbn [fst snd]. split; [exact Hi2|].
    split; [exists (e1 ++ e2); rewrite He2, He1, app_assoc; reflexivity|].
    split.
    + apply Forall_app. split; [|exact Hok2]. rewrite He2. eapply Forall_impl; [|exact Hok1]. intros o. apply out_ok_mono.
    + rewrite misses_app. lia.
Qed.

Theorem sicx_sound t0 (h : xevs) :
  let res := sicx_run key keqb f valid h (sx_init t0) in
  Forall (out_ok (sx_log (fst res))) (snd res) /\ length (sx_log (fst res)) = misses (snd res).
Proof.
  intros res. destruct (proj2 sicx_inv h (sx_init t0) I) as (_ & _ & H3 & H4). split; [exact H3|exact H4].
Qed.

(* ---- lru_cache_with_expiry ---- *)
Variable mx : nat.

Lemma lrx_ev_call a body raises s :
  lrx_ev key keqb f mx valid (XCall a body raises) s =
  match lx_lookup key keqb valid s a with
  | Some e' => let it := lru_remove keqb (key a) (lru_live valid (lx_now s) (lx_items s)) ++ [e'] in
               (mkLX it (lx_now s) (lx_log s), [(mkXO a (lx_now s) true (Some (snd (snd e'))), it)])
  | None =>
      let '(s2, tr) := lrx_run key keqb f mx valid body
                         (mkLX (lru_live valid (lx_now s) (lx_items s)) (lx_now s) (lx_log s ++ [(a, lx_now s)])) in
      if raises then (s2, tr ++ [(mkXO a (lx_now s) false None, lx_items s2)])
      else let it := lru_trim mx (lru_put keqb (key a) (lx_now s, f a (inv_no (lx_log s))) (lx_items s2)) in
           (mkLX it (lx_now s2) (lx_log s2), tr ++ [(mkXO a (lx_now s) false (Some (f a (inv_no (lx_log s)))), it)])
  end.
Proof. reflexivity. Qed.
Lemma lrx_ev_tick d s :
  lrx_ev key keqb f mx valid (XTick d) s = (mkLX (lx_items s) (lx_now s + Z.of_N d) (lx_log s), []).
Proof. reflexivity. Qed.
Lemma lrx_run_nil s : lrx_run key keqb f mx valid XNil s = (s, []).
Proof. reflexivity. Qed.
Lemma lrx_run_cons e r s :
  lrx_run key keqb f mx valid (XCons e r) s =
  let '(s1, t1) := lrx_ev key keqb f mx valid e s in
  let '(s2, t2) := lrx_run key keqb f mx valid r s1 in (s2, t1 ++ t2).
Proof. reflexivity. Qed.

Definition item_ok (log : list (A * Z)) (e : item) : Prop := produced log (fst e) (snd (snd e)) (fst (snd e)).

(* at most max_size entries, one per key, each the record of a logged invocation for its key *)
Definition items_ok (log : list (A * Z)) (it : list item) : Prop :=
  length it <= mx /\ NoDup (map fst it) /\ Forall (item_ok log) it.

Lemma rx_filter_le {X} (g : X -> bool) l : length (filter g l) <= length l.
Proof. induction l as [|x l IH]; cbn; auto. destruct (g x); cbn; lia. Qed.

Lemma rx_filter_lt {X} (g : X -> bool) l e : In e l -> g e = false -> S (length (filter g l)) <= length l.
Proof.
  induction l as [|x l IH]; cbn; intros Hin Hg; [destruct Hin|].
  destruct Hin as [->|Hin].
  - rewrite Hg. pose proof (rx_filter_le g l). lia.
  - specialize (IH Hin Hg). destruct (g x); cbn; lia.
Qed.

Lemma rx_nodup_filter (g : item -> bool) (l : list item) : NoDup (map fst l) -> NoDup (map fst (filter g l)).
Proof.
  induction l as [|x l IH]; cbn; intros H; [constructor|]. inversion H as [|? ? Hni Hnd]; subst.
  destruct (g x); cbn; auto. constructor; auto.
  intros Hin. apply Hni. apply in_map_iff in Hin as (y & Ey & Hy). apply filter_In in Hy as [Hy _].
  apply in_map_iff. exists y. auto.
Qed.

Lemma rx_nodup_snoc {X} (l : list X) x : NoDup l -> ~ In x l -> NoDup (l ++ [x]).
Proof.
  induction l as [|y l IH]; cbn; intros Hnd Hni; [constructor; auto; constructor|].
  inversion Hnd as [|? ? Hy Hl]; subst. constructor.
  - intros Hin. apply in_app_or in Hin as [Hin|[->|[]]]; [auto|]. apply Hni. left. reflexivity.
  - apply IH; auto.
Qed.

Lemma rx_forall_filter {X} (P : X -> Prop) g l : Forall P l -> Forall P (filter g l).
Proof. intros H. apply Forall_forall. intros x Hx. apply filter_In in Hx as [Hx _]. rewrite Forall_forall in H. auto. Qed.

Lemma keqb_refl' k : keqb k k = true.
Proof. apply keqb_spec. reflexivity. Qed.

Lemma items_ok_mono log e it : items_ok log it -> items_ok (log ++ e) it.
Proof.
  intros (H1 & H2 & H3). split; [|split]; auto. eapply Forall_impl; [|exact H3]. intros x. apply produced_mono.
Qed.

Lemma items_ok_live log now it : items_ok log it -> items_ok log (lru_live valid now it).
Proof.
  intros (H1 & H2 & H3). unfold lru_live. split; [|split].
  - pose proof (rx_filter_le (fun e : item => fresh valid now (fst (snd e))) it). lia.
  - apply rx_nodup_filter. exact H2.
  - apply rx_forall_filter. exact H3.
Qed.

(* move_to_end of an entry that is held *)
Lemma items_ok_move log k (it : list item) e :
  items_ok log it -> In e it -> keqb (fst e) k = true -> items_ok log (lru_remove keqb k it ++ [e]).
Proof.
  intros (H1 & H2 & H3) Hin Hk. unfold lru_remove. split; [|split].
  - rewrite app_length. cbn [length].
    pose proof (rx_filter_lt (fun x : item => negb (keqb (fst x) k)) it e Hin) as Hlt. cbn beta in Hlt. rewrite Hk in Hlt.
    specialize (Hlt eq_refl). lia.
  - rewrite map_app. cbn [map]. apply rx_nodup_snoc; [apply rx_nodup_filter; exact H2|].
    intros Hin'. apply in_map_iff in Hin' as (y & Ey & Hy). apply filter_In in Hy as [_ Hy].
    apply keqb_spec in Hk. rewrite Ey, Hk, keqb_refl' in Hy. discriminate.
  - apply Forall_app. split; [apply rx_forall_filter; exact H3|]. constructor; [|constructor].
    rewrite Forall_forall in H3. auto.
Qed.

(* cache.pop(key, None); cache[key] = (now, r) followed by the trim *)
Lemma items_ok_store log k ts r (it : list item) :
  items_ok log it -> produced log k r ts -> items_ok log (lru_trim mx (lru_put keqb k (ts, r) it)).
Proof.
  intros (H1 & H2 & H3) Hp.
  assert (Hset : length (lru_put keqb k (ts, r) it) <= S mx /\ NoDup (map fst (lru_put keqb k (ts, r) it)) /\
                 Forall (item_ok log) (lru_put keqb k (ts, r) it)).
  { unfold lru_put, lru_remove. split; [|split].
    - rewrite app_length. cbn [length]. pose proof (rx_filter_le (fun e : item => negb (keqb (fst e) k)) it). lia.
    - rewrite map_app. cbn [map fst]. apply rx_nodup_snoc; [apply rx_nodup_filter; exact H2|].
      intros Hin. apply in_map_iff in Hin as (y & Ey & Hy). apply filter_In in Hy as [_ Hy].
      rewrite Ey, keqb_refl' in Hy. discriminate.
    - apply Forall_app. split; [apply rx_forall_filter; exact H3|]. constructor; [exact Hp|constructor]. }
  destruct Hset as (S1 & S2 & S3). unfold lru_trim.
  destruct (Nat.ltb mx (length (lru_put keqb k (ts, r) it))) eqn:El.
  - unfold items_ok. destruct (lru_put keqb k (ts, r) it) as [|x l]; cbn [tl length map] in *.
    + split; [lia|]. split; [constructor|constructor].
    + split; [lia|]. split; [inversion S2; auto|inversion S3; auto].
  - apply Nat.ltb_ge in El. split; [exact El|]. split; auto.
Qed.

Lemma lookup_spec s a (e : item) :
  lx_lookup key keqb valid s a = Some e ->
  In e (lru_live valid (lx_now s) (lx_items s)) /\ keqb (fst e) (key a) = true /\ fresh valid (lx_now s) (fst (snd e)) = true.
Proof.
  unfold lx_lookup, lru_find. destruct (find _ _) as [e'|] eqn:Ef; [|discriminate].
  destruct (fresh valid (lx_now s) (fst (snd e'))) eqn:Efr; [|discriminate]. intros E. injection E as <-.
  apply find_some in Ef as [H1 H2]. auto.
Qed.

Definition lxinv (s : lx_st) : Prop := items_ok (lx_log s) (lx_items s).

Definition lx_post (s : lx_st) (res : lx_st * list (xout * list item)) : Prop :=
  lxinv (fst res) /\ (exists ext, lx_log (fst res) = lx_log s ++ ext) /\
  Forall (fun oi => out_ok (lx_log (fst res)) (fst oi) /\ length (snd oi) <= mx /\ NoDup (map fst (snd oi))) (snd res) /\
  length (lx_log (fst res)) = length (lx_log s) + misses (map fst (snd res)).

Lemma post_mono log e (tr : list (xout * list item)) :
  Forall (fun oi => out_ok log (fst oi) /\ length (snd oi) <= mx /\ NoDup (map fst (snd oi))) tr ->
  Forall (fun oi => out_ok (log ++ e) (fst oi) /\ length (snd oi) <= mx /\ NoDup (map fst (snd oi))) tr.
Proof. intros H. eapply Forall_impl; [|exact H]. intros x (H1 & H2). split; auto. apply out_ok_mono. exact H1. Qed.

Lemma lrx_inv :
  (forall e : xev, forall s, lxinv s -> lx_post s (lrx_ev key keqb f mx valid e s)) /\
  (forall l : xevs, forall s, lxinv s -> lx_post s (lrx_run key keqb f mx valid l s)).
Proof.
  apply xev_xevs_ind.
  - intros a body IHb raises s Hinv. rewrite lrx_ev_call.
    pose proof (items_ok_live (lx_log s) (lx_now s) (lx_items s) Hinv) as Hlive.
    destruct (lx_lookup key keqb valid s a) as [e'|] eqn:El.
    + apply lookup_spec in El as (Hin & Hk & Hfr).
      pose proof (items_ok_move (lx_log s) (key a) _ e' Hlive Hin Hk) as Hmv.
      unfold lx_post. cbn [fst snd lx_log lx_items map].
      split; [exact Hmv|]. split; [exists []; rewrite app_nil_r; reflexivity|].
      split; [|cbn; lia]. constructor; [|constructor]. cbn [fst snd].
      split; [|destruct Hmv as (M1 & M2 & _); auto].
      destruct Hlive as (_ & _ & Hf). rewrite Forall_forall in Hf. destruct (Hf e' Hin) as (n & a' & H1 & H2 & H3).
      intros r Hr. cbn in Hr. injection Hr as <-. exists n, a', (fst (snd e')). cbn [xo_hit xo_arg xo_now].
      apply keqb_spec in Hk. rewrite <- Hk. auto.
    + set (s1 := mkLX (lru_live valid (lx_now s) (lx_items s)) (lx_now s) (lx_log s ++ [(a, lx_now s)])).
      assert (Hinv1 : lxinv s1) by (unfold lxinv, s1; cbn; apply items_ok_mono; exact Hlive).
      specialize (IHb s1 Hinv1). destruct (lrx_run key keqb f mx valid body s1) as [s2 tr]. unfold lx_post in IHb. cbn [fst snd] in IHb.
      destruct IHb as (Hi2 & (ext & Hext) & Hok & Hlen). unfold s1 in Hext, Hlen. cbn [lx_log] in Hext, Hlen.
      destruct raises; unfold lx_post; cbn [fst snd lx_log lx_items].
      * split; [exact Hi2|]. split; [exists ([(a, lx_now s)] ++ ext); rewrite Hext, <- app_assoc; reflexivity|].
        split.
        -- apply Forall_app. split; [exact Hok|]. constructor; [|constructor]. cbn [fst snd].
           split; [intros r Hr; discriminate|]. destruct Hi2 as (M1 & M2 & _). auto.
        -- rewrite map_app, misses_app, Hlen, app_length. cbn. lia.
      * assert (Hst : items_ok (lx_log s2) (lru_trim mx (lru_put keqb (key a) (lx_now s, f a (inv_no (lx_log s))) (lx_items s2)))).
        { apply items_ok_store; [exact Hi2|]. rewrite Hext. apply own_produced. }
        split; [exact Hst|].
        split; [exists ([(a, lx_now s)] ++ ext); rewrite Hext, <- app_assoc; reflexivity|].
        split.
        -- apply Forall_app. split; [exact Hok|]. constructor; [|constructor]. cbn [fst snd].
           split; [rewrite Hext; apply own_out_ok|]. destruct Hst as (M1 & M2 & _). auto.
        -- rewrite map_app, misses_app, Hlen, app_length. cbn. lia.
  - intros d s Hinv. rewrite lrx_ev_tick. unfold lx_post. cbn [fst snd lx_log].
    split; [exact Hinv|]. split; [exists []; rewrite app_nil_r; reflexivity|]. split; [constructor|cbn; lia].
  - intros s Hinv. rewrite lrx_run_nil. unfold lx_post. cbn [fst snd].
    split; [exact Hinv|]. split; [exists []; rewrite app_nil_r; reflexivity|]. split; [constructor|cbn; lia].
  - intros e IHe r IHr s Hinv. rewrite lrx_run_cons.
    specialize (IHe s Hinv). destruct (lrx_ev key keqb f mx valid e s) as [s1 t1]. unfold lx_post in IHe. cbn [fst snd] in IHe.
    destruct IHe as (Hi1 & (e1 & He1) & Hok1 & Hl1).
    specialize (IHr s1 Hi1). destruct (lrx_run key keqb f mx valid r s1) as [s2 t2]. unfold lx_post in IHr. cbn [fst snd] in IHr.
    destruct IHr as (Hi2 & (e2 & He2) & Hok2 & Hl2).
    unfold lx_post. cbn [fst snd]. split; [exact Hi2|].
    split; [exists (e1 ++ e2); rewrite He2, He1, app_assoc; reflexivity|].
    split.
    + apply Forall_app. split; [|exact Hok2]. rewrite He2. apply post_mono. exact Hok1.
    + rewrite map_app, misses_app. lia.
Qed.

Lemma lx_init_inv t0 : lxinv (lx_init t0).
Proof. unfold lxinv, items_ok. cbn. split; [lia|]. split; constructor. Qed.

(* every forest, from an empty cache: the cache is within max_size with one entry per key at the end and
   whenever a call (at any depth) completes; every value returned was produced for the caller's key,
   unexpired when served from the cache; the wrapped function is invoked exactly by the calls that
   are not served from the cache (raising ones included) *)
Theorem lrx_sound t0 (h : xevs) :
  let res := lrx_run key keqb f mx valid h (lx_init t0) in
  (length (lx_items (fst res)) <= mx /\ NoDup (map fst (lx_items (fst res)))) /\
  Forall (fun oi => out_ok (lx_log (fst res)) (fst oi) /\ length (snd oi) <= mx /\ NoDup (map fst (snd oi))) (snd res) /\
  length (lx_log (fst res)) = misses (map fst (snd res)).
Proof.
  intros res. destruct (proj2 lrx_inv h (lx_init t0) (lx_init_inv t0)) as ((H1 & H2 & _) & _ & H3 & H4).
  split; [split; assumption|]. split; [exact H3|exact H4].
Qed.

(* a call is served from the cache exactly when an unexpired entry for its key is held *)
Theorem lrx_hit_iff (s : lx_st) a :
  (exists e, lx_lookup key keqb valid s a = Some e) <->
  (exists ts r, In (key a, (ts, r)) (lx_items s) /\ fresh valid (lx_now s) ts = true).
Proof.
  split.
  - intros (e & He). apply lookup_spec in He as (Hin & Hk & Hfr). apply filter_In in Hin as [Hin _].
    apply keqb_spec in Hk. destruct e as [k [ts r]]. cbn in *. subst k. exists ts, r. auto.
  - intros (ts & r & Hin & Hfr). unfold lx_lookup, lru_find.
    assert (Hl : In (key a, (ts, r)) (lru_live valid (lx_now s) (lx_items s))) by (apply filter_In; auto).
    destruct (find (fun e : item => keqb (fst e) (key a)) (lru_live valid (lx_now s) (lx_items s))) as [e|] eqn:Ef.
    + apply find_some in Ef as [He _]. apply filter_In in He as [_ He]. rewrite He. exists e. reflexivity.
    + pose proof (find_none _ _ Ef _ Hl) as Hc. cbn in Hc. rewrite keqb_refl' in Hc. discriminate.
Qed.

(* ---- order of the entries: by last use, in history-only terms (holds since 962d1ca: pop, then assign) ---- *)
Notation xlast := (xlast_use key keqb).
Definition xlt (tr : list xout) (e1 e2 : item) : Prop := xlast (fst e1) tr < xlast (fst e2) tr.

Lemma xlast_from_snoc k (tr : list xout) o : forall i acc,
  xlast_from key keqb k (tr ++ [o]) i acc =
  if xo_used key keqb k o then S (i + length tr) else xlast_from key keqb k tr i acc.
Proof.
  induction tr as [|x tr IH]; intros i acc; cbn [app xlast_from length].
  - rewrite Nat.add_0_r. reflexivity.
  - rewrite IH. destruct (xo_used key keqb k o); auto. f_equal. lia.
Qed.

Lemma xlast_snoc k (tr : list xout) o :
  xlast k (tr ++ [o]) = if xo_used key keqb k o then S (length tr) else xlast k tr.
Proof. unfold xlast_use. rewrite xlast_from_snoc. reflexivity. Qed.

Lemma xlast_from_le k (tr : list xout) : forall i acc, acc <= i -> xlast_from key keqb k tr i acc <= i + length tr.
Proof.
  induction tr as [|x tr IH]; intros i acc H; cbn [xlast_from length]; [lia|].
  destruct (xo_used key keqb k x).
  - specialize (IH (S i) (S i)). lia.
  - specialize (IH (S i) acc). lia.
Qed.

Lemma xlast_le k (tr : list xout) : xlast k tr <= length tr.
Proof. unfold xlast_use. pose proof (xlast_from_le k tr 0 0). lia. Qed.

Lemma keqb_false_sym' x y : keqb x y = false -> keqb y x = false.
Proof.
  intros H. destruct (keqb y x) eqn:E; auto. apply keqb_spec in E. subst. rewrite keqb_refl' in H. discriminate.
Qed.

Lemma rx_sorted_filter (Rel : item -> item -> Prop) g l : StronglySorted Rel l -> StronglySorted Rel (filter g l).
Proof.
  induction 1 as [|x l Hs IH Hf]; cbn; [constructor|].
  destruct (g x); auto. constructor; auto. apply rx_forall_filter. exact Hf.
Qed.

Lemma rx_sorted_ext (R1 R2 : item -> item -> Prop) l :
  (forall x y, In x l -> In y l -> R1 x y -> R2 x y) -> StronglySorted R1 l -> StronglySorted R2 l.
Proof.
  intros Hext Hs. induction Hs as [|x l Hs IH Hf]; [constructor|].
  constructor.
  - apply IH. intros a b Ha Hb. apply Hext; right; auto.
  - rewrite Forall_forall in *. intros y Hy. apply Hext; [left; auto|right; auto|auto].
Qed.

Lemma rx_sorted_snoc (Rel : item -> item -> Prop) l e :
  StronglySorted Rel l -> Forall (fun x => Rel x e) l -> StronglySorted Rel (l ++ [e]).
Proof.
  induction 1 as [|x l Hs IH Hf]; intros Hl; cbn.
  - constructor; constructor.
  - inversion Hl; subst. constructor; auto. apply Forall_app. split; auto.
Qed.

Lemma rx_sorted_tl (Rel : item -> item -> Prop) l : StronglySorted Rel l -> StronglySorted Rel (tl l).
Proof. destruct 1; cbn; [constructor|auto]. Qed.

(* a call that raised used nothing: the order relation is unchanged *)
Lemma xlt_raised tr a now hit l :
  StronglySorted (xlt tr) l -> StronglySorted (xlt (tr ++ [mkXO a now hit None])) l.
Proof.
  apply rx_sorted_ext. intros x y _ _. unfold xlt. rewrite !xlast_snoc. unfold xo_used. cbn [xo_res]. rewrite !andb_false_r. auto.
Qed.

(* the key of the call that just returned goes to the end, the others keep their order *)
Lemma xlt_used tr (o : xout) r (l : list item) (e : item) :
  xo_res o = Some r -> fst e = key (xo_arg o) ->
  StronglySorted (xlt tr) l ->
  StronglySorted (xlt (tr ++ [o])) (lru_remove keqb (key (xo_arg o)) l ++ [e]).
Proof.
  intros Hr He Hs.
  assert (Hne : forall x, In x (lru_remove keqb (key (xo_arg o)) l) -> xo_used key keqb (fst x) o = false).
  { intros x Hx. unfold lru_remove in Hx. apply filter_In in Hx as [_ Hx]. apply negb_true_iff in Hx.
    unfold xo_used. rewrite (keqb_false_sym' _ _ Hx). reflexivity. }
  apply rx_sorted_snoc.
  - eapply rx_sorted_ext; [|apply rx_sorted_filter; exact Hs].
    intros x y Hx Hy. unfold xlt. rewrite !xlast_snoc, (Hne x Hx), (Hne y Hy). auto.
  - apply Forall_forall. intros x Hx. unfold xlt. rewrite !xlast_snoc, (Hne x Hx).
    unfold xo_used. rewrite He, keqb_refl', Hr. cbn. pose proof (xlast_le (fst x) tr). lia.
Qed.

(* the content recorded when a call completed is ordered by last use w.r.t. the trace up to that call *)
Fixpoint snap_ok (tr0 : list xout) (tr : list (xout * list item)) : Prop :=
  match tr with
  | [] => True
  | (o, it) :: r => StronglySorted (xlt (tr0 ++ [o])) it /\ snap_ok (tr0 ++ [o]) r
  end.

Lemma snap_app t1 : forall tr0 t2,
  snap_ok tr0 t1 -> snap_ok (tr0 ++ map fst t1) t2 -> snap_ok tr0 (t1 ++ t2).
Proof.
  induction t1 as [|[o it] t1 IH]; intros tr0 t2 H1 H2; cbn [app map fst] in *.
  - rewrite app_nil_r in H2. exact H2.
  - destruct H1 as [Ha Hb]. cbn [snap_ok]. split; auto. apply IH; auto.
    rewrite <- app_assoc. exact H2.
Qed.

Lemma snap_split past : forall tr0 o it rest,
  snap_ok tr0 (past ++ (o, it) :: rest) -> StronglySorted (xlt (tr0 ++ map fst past ++ [o])) it.
Proof.
  induction past as [|[o' it'] past IH]; intros tr0 o it rest H; cbn [app map fst snap_ok] in *.
  - destruct H as [H _]. exact H.
  - destruct H as [_ H]. apply IH in H. rewrite <- app_assoc in H. exact H.
Qed.

Definition lo_post (s : lx_st) (tr0 : list xout) (res : lx_st * list (xout * list item)) : Prop :=
  StronglySorted (xlt (tr0 ++ map fst (snd res))) (lx_items (fst res)) /\ snap_ok tr0 (snd res).

Lemma lrx_order :
  (forall e : xev, forall s tr0, StronglySorted (xlt tr0) (lx_items s) -> lo_post s tr0 (lrx_ev key keqb f mx valid e s)) /\
  (forall l : xevs, forall s tr0, StronglySorted (xlt tr0) (lx_items s) -> lo_post s tr0 (lrx_run key keqb f mx valid l s)).
Proof.
  apply xev_xevs_ind.
  - intros a body IHb raises s tr0 Hs. rewrite lrx_ev_call.
    assert (Hlive : StronglySorted (xlt tr0) (lru_live valid (lx_now s) (lx_items s))) by (apply rx_sorted_filter; exact Hs).
    destruct (lx_lookup key keqb valid s a) as [e'|] eqn:El.
    + apply lookup_spec in El as (Hin & Hk & Hfr). apply keqb_spec in Hk.
      unfold lo_post. cbn [fst snd lx_items map snap_ok].
      assert (H : StronglySorted (xlt (tr0 ++ [mkXO a (lx_now s) true (Some (snd (snd e')))]))
                    (lru_remove keqb (key a) (lru_live valid (lx_now s) (lx_items s)) ++ [e'])).
      { apply (xlt_used tr0 (mkXO a (lx_now s) true (Some (snd (snd e')))) (snd (snd e')) _ e'); auto. }
      split; [exact H|split; [exact H|exact I]].
    + set (s1 := mkLX (lru_live valid (lx_now s) (lx_items s)) (lx_now s) (lx_log s ++ [(a, lx_now s)])).
      specialize (IHb s1 tr0 Hlive). destruct (lrx_run key keqb f mx valid body s1) as [s2 trb]. unfold lo_post in IHb. cbn [fst snd] in IHb.
      destruct IHb as [Hs2 Hsnap].
      destruct raises; unfold lo_post; cbn [fst snd lx_items].
      * rewrite map_app, app_assoc. cbn [map fst].
        assert (H : StronglySorted (xlt ((tr0 ++ map fst trb) ++ [mkXO a (lx_now s) false None])) (lx_items s2)) by (apply xlt_raised; exact Hs2).
        split; [exact H|]. apply snap_app; [exact Hsnap|]. cbn [snap_ok]. split; [exact H|exact I].
      * rewrite map_app, app_assoc. cbn [map fst].
        assert (H : StronglySorted (xlt ((tr0 ++ map fst trb) ++ [mkXO a (lx_now s) false (Some (f a (inv_no (lx_log s))))]))
                      (lru_trim mx (lru_put keqb (key a) (lx_now s, f a (inv_no (lx_log s))) (lx_items s2)))).
        { unfold lru_trim. assert (H0 : StronglySorted (xlt ((tr0 ++ map fst trb) ++ [mkXO a (lx_now s) false (Some (f a (inv_no (lx_log s))))]))
                                           (lru_put keqb (key a) (lx_now s, f a (inv_no (lx_log s))) (lx_items s2))).
          { unfold lru_put. apply (xlt_used (tr0 ++ map fst trb) (mkXO a (lx_now s) false (Some (f a (inv_no (lx_log s))))) (f a (inv_no (lx_log s)))); auto. }
          destruct (Nat.ltb mx _); [apply rx_sorted_tl|]; exact H0. }
        split; [exact H|]. apply snap_app; [exact Hsnap|]. cbn [snap_ok]. split; [exact H|exact I].
  - intros d s tr0 Hs. rewrite lrx_ev_tick. unfold lo_post. cbn [fst snd lx_items map snap_ok]. rewrite app_nil_r. auto.
  - intros s tr0 Hs. rewrite lrx_run_nil. unfold lo_post. cbn [fst snd map snap_ok]. rewrite app_nil_r. auto.
  - intros e IHe r IHr s tr0 Hs. rewrite lrx_run_cons.
    specialize (IHe s tr0 Hs). destruct (lrx_ev key keqb f mx valid e s) as [s1 t1]. unfold lo_post in IHe. cbn [fst snd] in IHe.
    destruct IHe as [H1 S1].
    specialize (IHr s1 _ H1). destruct (lrx_run key keqb f mx valid r s1) as [s2 t2]. unfold lo_post in IHr. cbn [fst snd] in IHr.
    destruct IHr as [H2 S2].
    unfold lo_post. cbn [fst snd]. rewrite map_app, app_assoc. split; [exact H2|]. apply snap_app; auto.
Qed.

(* every forest, from an empty cache: the entries are strictly ordered by the position (in order of completion) of
   the last call that used their key - at the end, and in the content recorded when any call at any depth completed;
   so the entry dropped by the trim is the least recently used one *)
Theorem lrx_sorted_by_last_use t0 (h : xevs) :
  let res := lrx_run key keqb f mx valid h (lx_init t0) in
  StronglySorted (fun e1 e2 => xlast (fst e1) (map fst (snd res)) < xlast (fst e2) (map fst (snd res))) (lx_items (fst res)) /\
  forall past o it rest, snd res = past ++ (o, it) :: rest ->
    StronglySorted (fun e1 e2 => xlast (fst e1) (map fst past ++ [o]) < xlast (fst e2) (map fst past ++ [o])) it.
Proof.
  intros res. destruct (proj2 lrx_order h (lx_init t0) [] (SSorted_nil _)) as [H1 H2]. cbn [app] in H1.
  split; [exact H1|]. intros past o it rest E. fold res in H2. rewrite E in H2. apply snap_split in H2. exact H2.
Qed.

(* a call whose wrapped function raises (doing nothing else): the expiry sweep is all that happened -
   nothing was added, nothing was evicted *)
Theorem lrx_failed_call_forgets_nothing (s : lx_st) a :
  lx_lookup key keqb valid s a = None ->
  lrx_ev key keqb f mx valid (XCall a XNil true) s =
  (mkLX (lru_live valid (lx_now s) (lx_items s)) (lx_now s) (lx_log s ++ [(a, lx_now s)]),
   [(mkXO a (lx_now s) false None, lru_live valid (lx_now s) (lx_items s))]).
Proof. intros H. rewrite lrx_ev_call, H, lrx_run_nil. reflexivity. Qed.

Theorem sicx_failed_call_forgets_nothing (s : sx_st) a :
  sx_lookup key keqb valid s a = None ->
  sicx_ev key keqb f valid (XCall a XNil true) s =
  (mkSX (sx_entry s) (sx_now s) (sx_log s ++ [(a, sx_now s)]), [mkXO a (sx_now s) false None]).
Proof. intros H. rewrite sicx_ev_call, H, sicx_run_nil. reflexivity. Qed.

(* a call for which an unexpired entry is held is served from it: the wrapped function is not
   invoked (its behaviour is irrelevant, the log does not grow), the entry moves to the end *)
Theorem lrx_hit_step (s : lx_st) a body raises (e : item) :
  lx_lookup key keqb valid s a = Some e ->
  lrx_ev key keqb f mx valid (XCall a body raises) s =
  (mkLX (lru_remove keqb (key a) (lru_live valid (lx_now s) (lx_items s)) ++ [e]) (lx_now s) (lx_log s),
   [(mkXO a (lx_now s) true (Some (snd (snd e))),
     lru_remove keqb (key a) (lru_live valid (lx_now s) (lx_items s)) ++ [e])]).
Proof. intros H. rewrite lrx_ev_call, H. reflexivity. Qed.

Theorem sicx_hit_iff (s : sx_st) a :
  (exists r, sx_lookup key keqb valid s a = Some r) <->
  (exists la lr lt, sx_entry s = Some (la, lr, lt) /\ key la = key a /\ fresh valid (sx_now s) lt = true).
Proof.
  unfold sx_lookup. split.
  - intros (r & H). destruct (sx_entry s) as [[[la lr] lt]|]; [|discriminate].
    destruct (keqb (key la) (key a) && fresh valid (sx_now s) lt) eqn:Ec; [|discriminate].
    apply andb_prop in Ec as [Ek Ef]. apply keqb_spec in Ek. exists la, lr, lt. auto.
  - intros (la & lr & lt & -> & Hk & Hf). rewrite Hk, keqb_refl', Hf. cbn. eauto.
Qed.

End Reent.


Section Quiesce.
Variables A K R : Type.
Variable key : A -> K.
Variable keqb : K -> K -> bool.
Variable f : A -> N -> R.
Variable valid : option Z.
Variable mx : nat.

Notation lthread := (@lthread A K R).
Notation lsh := (@lsh A K R).

(* a caller that has stored its entry and has not yet finished "if len(cache) > max_size: popitem" *)
Definition pend (t : lthread) : nat :=
  match lt_pc t with LLen _ _ | LPop _ _ => 1 | _ => 0 end.
Fixpoint pending (ts : list lthread) : nat :=
  match ts with [] => 0 | t :: r => pend t + pending r end.

Lemma q_filter_le {X} (g : X -> bool) l : length (filter g l) <= length l.
Proof. induction l as [|x l IH]; cbn; auto. destruct (g x); cbn; lia. Qed.

Lemma q_filter_lt {X} (g : X -> bool) l e : In e l -> g e = false -> S (length (filter g l)) <= length l.
Proof.
  induction l as [|x l IH]; cbn; intros Hin Hg; [destruct Hin|].
  destruct Hin as [->|Hin].
  - rewrite Hg. pose proof (q_filter_le g l). lia.
  - specialize (IH Hin Hg). destruct (g x); cbn; lia.
Qed.

Lemma set_item_len k v (it : list (K * (Z * R))) : length (set_item keqb k v it) <= S (length it).
Proof.
  unfold set_item. destruct (has_key keqb k it).
  - rewrite map_length. lia.
  - rewrite app_length. cbn. lia.
Qed.

Lemma ltstep_q sh t P0 :
  length (ls_items sh) <= mx + P0 + pend t ->
  length (ls_items (fst (ltstep key keqb f mx valid sh t))) <= mx + P0 + pend (snd (ltstep key keqb f mx valid sh t)).
Proof.
  intros H. unfold ltstep, pend in *. destruct (lt_pc t) eqn:Epc; cbn [fst snd lt_pc ls_items] in *; try lia.
  - destruct (negb (N.eqb ver (ls_ver sh))); cbn [fst snd lt_pc]; [lia|].
    destruct (nth_error (ls_items sh) pos); cbn [fst snd lt_pc]; lia.
  - destruct ks as [|k' rest]; cbn [fst snd lt_pc]; [lia|].
    destruct (has_key keqb k' (ls_items sh)); cbn [fst snd lt_pc bump ls_items]; [|lia].
    pose proof (q_filter_le (fun e : K * (Z * R) => negb (keqb (fst e) k')) (ls_items sh)). lia.
  - destruct e as [[ts r]|]; [destruct (fresh valid now ts)|]; cbn [fst snd lt_pc]; lia.
  - destruct (find (fun e : K * (Z * R) => keqb (fst e) (key (lt_arg t))) (ls_items sh)) as [e|] eqn:Ef; cbn [fst snd lt_pc bump ls_items]; [|lia].
    apply find_some in Ef as [Hin Hk]. rewrite app_length. cbn [length].
    pose proof (q_filter_lt (fun e0 : K * (Z * R) => negb (keqb (fst e0) (key (lt_arg t)))) (ls_items sh) e Hin) as Hlt.
    cbn beta in Hlt. rewrite Hk in Hlt. specialize (Hlt eq_refl).
    rewrite Nat.add_1_r. eapply Nat.le_trans; [exact Hlt|exact H].
  - destruct (has_key keqb (key (lt_arg t)) (ls_items sh)); cbn [fst snd lt_pc bump ls_items]; [|lia].
    pose proof (q_filter_le (fun e : K * (Z * R) => negb (keqb (fst e) (key (lt_arg t)))) (ls_items sh)). lia.
  - cbn [bump ls_items]. pose proof (set_item_len (key (lt_arg t)) (now, r) (ls_items sh)). lia.
  - destruct (Nat.ltb mx (length (ls_items sh))) eqn:El; cbn [fst snd lt_pc]; [lia|].
    apply Nat.ltb_ge in El. lia.
  - destruct (ls_items sh) as [|x rest] eqn:Ei; cbn [fst snd lt_pc bump ls_items length] in *; rewrite ?Ei in *; cbn [length] in *; lia.
Qed.

Lemma pending_upd (l : list lthread) : forall i t t',
  nth_error l i = Some t -> pending (upd l i t') + pend t = pending l + pend t' /\ pend t <= pending l.
Proof.
  induction l as [|x l IH]; intros [|i] t t' H; cbn in H; try discriminate.
  - injection H as ->. cbn. lia.
  - cbn [upd pending]. destruct (IH i t t' H). lia.
Qed.

Definition qinv (st : lsh * list lthread) : Prop :=
  length (ls_items (fst st)) <= mx + pending (snd st).

Lemma lcstep_q st e : qinv st -> qinv (lcstep key keqb f mx valid st e).
Proof.
  unfold qinv. intros H. destruct e as [i|d]; cbn [lcstep]; [|exact H].
  destruct (nth_error (snd st) i) as [t|] eqn:En; [|exact H].
  destruct (pending_upd (snd st) i t (snd (ltstep key keqb f mx valid (fst st) t)) En) as [E Hle].
  pose proof (ltstep_q (fst st) t (pending (snd st) - pend t)) as Hs.
  destruct (ltstep key keqb f mx valid (fst st) t) as [sh' t'] eqn:Est. cbn [fst snd] in *.
  assert (Hpre : length (ls_items (fst st)) <= mx + (pending (snd st) - pend t) + pend t) by lia.
  specialize (Hs Hpre). lia.
Qed.

Theorem lcrun_q sch : forall st, qinv st -> qinv (lcrun key keqb f mx valid sch st).
Proof. induction sch as [|e sch IH]; intros st H; cbn; auto. apply IH. apply lcstep_q. exact H. Qed.

Lemma pending_done (ts : list lthread) :
  (forall t, In t ts -> exists now hit r, lt_pc t = LDone now hit r) -> pending ts = 0.
Proof.
  induction ts as [|t ts IH]; intros H; cbn; auto.
  rewrite IH by (intros x Hx; apply H; right; exact Hx).
  destruct (H t (or_introl eq_refl)) as (now & hit & r & E). unfold pend. rewrite E. reflexivity.
Qed.

(* any number of callers, any schedule: the cache never holds more than max_size entries plus one per
   caller that has stored its entry and not yet trimmed; so once every caller has returned (or
   raised) it is within max_size again *)
Theorem lru_interleaving_size t0 (args : list A) sch :
  let st := lcrun key keqb f mx valid sch (mkLS [] 0 t0 0 [], map (fun a => mkLT a LTime) args) in
  length (ls_items (fst st)) <= mx + pending (snd st) /\
  ((forall t, In t (snd st) -> exists now hit r, lt_pc t = LDone now hit r) -> length (ls_items (fst st)) <= mx).
Proof.
  intros st.
  assert (H : qinv st).
  { apply lcrun_q. unfold qinv. cbn [fst snd ls_items length]. lia. }
  split; [exact H|]. intros Hd. unfold qinv in H. rewrite (pending_done _ Hd) in H. lia.
Qed.
End Quiesce.
