(* C08 - epoch branch: calendar bounds and fromtimestamp_utc. *)
From Coq Require Import List ZArith NArith Bool Lia ZifyBool.
From Orso Require Import Base.Civil Gen.C08_Tables Model.C08.
Import ListNotations.
Open Scope Z_scope.
Ltac Zify.zify_post_hook ::= Z.to_euclidean_division_equations.

Lemma dfc_mono_lo y m d : 1 <= y -> 1 <= m <= 12 -> 1 <= d -> -719162 <= days_from_civil y m d.
Proof. intros. unfold days_from_civil. destruct (m <=? 2) eqn:E1; destruct (m >? 2) eqn:E2; lia. Qed.
Lemma dfc_mono_hi y m d : y <= 9999 -> 1 <= m <= 12 -> d <= 31 -> days_from_civil y m d <= 2932896.
Proof. intros. unfold days_from_civil. destruct (m <=? 2) eqn:E1; destruct (m >? 2) eqn:E2; lia. Qed.
Lemma dfc_below y m d : y <= 0 -> 1 <= m <= 12 -> d <= 31 -> days_from_civil y m d <= -719163.
Proof. intros. unfold days_from_civil. destruct (m <=? 2) eqn:E1; destruct (m >? 2) eqn:E2; lia. Qed.
Lemma dfc_above y m d : 10000 <= y -> 1 <= m <= 12 -> 1 <= d -> 2932897 <= days_from_civil y m d.
Proof. intros. unfold days_from_civil. destruct (m <=? 2) eqn:E1; destruct (m >? 2) eqn:E2; lia. Qed.

Lemma dim_le_31 y m : dim y m <= 31.
Proof. unfold dim. repeat match goal with |- context[if ?b then _ else _] => destruct b end; lia. Qed.

(* the year of a day number lies in 1..9999 exactly for the days of 0001-01-01..9999-12-31 *)
Lemma civil_year_range z :
  let '(y, m, d) := civil_from_days z in
  (1 <= y <= 9999 <-> -719162 <= z <= 2932896).
Proof.
  pose proof (days_civil_inverse z) as H. destruct (civil_from_days z) as [[y m] d].
  destruct H as (H1 & H2 & H3). pose proof (dim_le_31 y m).
  split; intros.
  - pose proof (dfc_mono_lo y m d). pose proof (dfc_mono_hi y m d). lia.
  - pose proof (dfc_below y m d). pose proof (dfc_above y m d). lia.
Qed.

Lemma min_epoch_days n : (min_epoch <= n <= max_epoch) <-> (-719162 <= n / 86400 <= 2932896).
Proof. unfold min_epoch, max_epoch. lia. Qed.

(* in range: the civil time whose day number and second of day recompose n *)
Lemma fromtimestamp_in_range n :
  min_epoch <= n <= max_epoch ->
  exists y m d h mi s,
    fromtimestamp_utc n = Ok (y, m, d, h, mi, s, 0) /\
    valid_date y m d = true /\ valid_time h mi s = true /\
    epoch_of (y, m, d, h, mi, s, 0) = n.
Proof.
  intros Hn. unfold fromtimestamp_utc.
  replace ((n <? int64_min) || (int64_max <? n)) with false
    by (unfold int64_min, int64_max, min_epoch, max_epoch in *; lia).
  pose proof (days_civil_inverse (n / 86400)) as Hinv.
  pose proof (civil_year_range (n / 86400)) as Hyr.
  destruct (civil_from_days (n / 86400)) as [[y m] d].
  destruct Hinv as (H1 & H2 & H3).
  apply min_epoch_days in Hn. apply Hyr in Hn.
  replace ((y - 1900 <? int32_min) || (int32_max <? y - 1900)) with false
    by (unfold int32_min, int32_max; lia).
  replace ((y <? 1) || (9999 <? y)) with false by lia.
  exists y, m, d, (n mod 86400 / 3600), ((n mod 86400 / 60) mod 60), (n mod 86400 mod 60).
  split; [reflexivity|]. split; [unfold valid_date; lia|]. split; [unfold valid_time; lia|].
  unfold epoch_of. rewrite H1. lia.
Qed.

(* out of range: one of the three exception classes, decided as CPython decides it *)
Lemma fromtimestamp_out_of_range n :
  n < min_epoch \/ max_epoch < n ->
  exists e, fromtimestamp_utc n = Raise e /\ (e = ValueError \/ e = OverflowError \/ e = OSError).
Proof.
  intros Hn. unfold fromtimestamp_utc.
  destruct ((n <? int64_min) || (int64_max <? n)); [eexists; split; [reflexivity|tauto]|].
  pose proof (civil_year_range (n / 86400)) as Hyr.
  destruct (civil_from_days (n / 86400)) as [[y m] d].
  destruct ((y - 1900 <? int32_min) || (int32_max <? y - 1900)); [eexists; split; [reflexivity|tauto]|].
  assert (~ (min_epoch <= n <= max_epoch)) as Hno by lia.
  rewrite min_epoch_days in Hno.
  replace ((y <? 1) || (9999 <? y)) with true by lia.
  eexists; split; [reflexivity|tauto].
Qed.

Lemma fromtimestamp_raises n e :
  fromtimestamp_utc n = Raise e -> e = ValueError \/ e = OverflowError \/ e = OSError.
Proof.
  unfold fromtimestamp_utc.
  destruct ((n <? int64_min) || (int64_max <? n)); [intros [= <-]; tauto|].
  destruct (civil_from_days (n / 86400)) as [[y m] d].
  destruct ((y - 1900 <? int32_min) || (int32_max <? y - 1900)); [intros [= <-]; tauto|].
  destruct ((y <? 1) || (9999 <? y)); [intros [= <-]; tauto|discriminate].
Qed.
