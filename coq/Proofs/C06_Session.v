(* C06 round 3 - lemmas about sessions on one mutable schema object
   (Model/C06.v: sess, op, step, run, describe_names). *)
From Coq Require Import List NArith ZArith Bool String PeanoNat.
From Orso Require Import Base.C06_Defs Gen.C06_Types Gen.C06_Names Gen.C06_Env Model.C06 Proofs.C06 Proofs.C06_Frame.
Import ListNotations.
Open Scope N_scope.

(* ------------------------------------------------------------------ *)
(* the loop over a list of names *)
Lemma describe_names_found : forall sch names,
  (forall n, In n names -> exists c, find_column n sch = Some c) ->
  describe_names sch names = Ok (map (describe_column sch) names).
Proof.
  intros sch names. induction names as [|n r IH]; intros H; [reflexivity|].
  cbn [describe_names map]. destruct (H n (or_introl eq_refl)) as [c F].
  rewrite F. rewrite IH by (intros m Hm; apply H; right; exact Hm).
  unfold describe_column at 2. rewrite F. reflexivity.
Qed.

(* over the schema's own current names the loop never fails and is [description] *)
Lemma describe_names_schema : forall sch, describe_names sch (map fst sch) = Ok (description sch).
Proof. intros sch. apply describe_names_found. intros n Hin. apply find_column_some. exact Hin. Qed.

(* ------------------------------------------------------------------ *)
(* what .description answers depends on the CURRENT schema only *)



Lemma step_describe_fresh : forall st f, not_cached f st -> snd (step st (ODescribe f)) = current_view st.
Proof.
  intros [sch cache] f H. unfold not_cached in H. cbn [s_cache] in H.
  unfold step, current_view. cbn [s_schema s_cache snd].
  destruct cache as [[g ns]|].
  - destruct (Nat.eqb g f) eqn:E; [apply Nat.eqb_eq in E; contradiction|].
    rewrite describe_names_schema. reflexivity.
  - rewrite describe_names_schema. reflexivity.
Qed.

Lemma run_describe_fresh : forall (st0 : sess) (ops : list op) (f : nat),
  let st := fst (run st0 ops) in
  not_cached f st -> snd (step st (ODescribe f)) = current_view st.
Proof. intros st0 ops f. exact (step_describe_fresh (fst (run st0 ops)) f). Qed.

Lemma step_describe_cached_current : forall st f, cached_current f st -> snd (step st (ODescribe f)) = current_view st.
Proof.
  intros [sch cache] f H. unfold cached_current in H. cbn [s_cache s_schema] in H. subst cache.
  unfold step, current_view. cbn [s_schema s_cache snd]. rewrite Nat.eqb_refl.
  rewrite describe_names_schema. reflexivity.
Qed.

(* after a describe through f that answered the current view, f is cached with the current names *)
Lemma step_describe_establishes : forall st f,
  not_cached f st \/ cached_current f st ->
  cached_current f (fst (step st (ODescribe f))) /\ s_schema (fst (step st (ODescribe f))) = s_schema st.
Proof.
  intros [sch cache] f H. unfold step. cbn [s_schema s_cache fst]. unfold cached_current. cbn [s_schema s_cache].
  split; [|reflexivity]. destruct H as [H|H].
  - unfold not_cached in H. cbn [s_cache] in H. destruct cache as [[g ns]|]; [|reflexivity].
    destruct (Nat.eqb g f) eqn:E; [apply Nat.eqb_eq in E; contradiction|reflexivity].
  - unfold cached_current in H. cbn [s_cache s_schema] in H. subst cache. rewrite Nat.eqb_refl. reflexivity.
Qed.

(* ------------------------------------------------------------------ *)
(* in-place re-declarations keep the names, so a cached frame stays current *)
Lemma update_nth_names : forall (sch : schema) i g,
  (forall nc, nth_error sch i = Some nc -> fst (g nc) = fst nc) ->
  map fst (update_nth i g sch) = map fst sch.
Proof.
  induction sch as [|a r IH]; intros i g H; [destruct i; reflexivity|].
  destruct i as [|j]; cbn [update_nth map].
  - rewrite (H a eq_refl). reflexivity.
  - rewrite IH; [reflexivity|]. intros nc Hn. apply H. exact Hn.
Qed.


Lemma step_in_place_names : forall st o, in_place o st ->
  map fst (s_schema (fst (step st o))) = map fst (s_schema st) /\ s_cache (fst (step st o)) = s_cache st.
Proof.
  intros [sch cache] o H. destruct o as [f|i ci|ci|n|i ci|h|i h]; try contradiction; unfold step; cbn [s_schema s_cache].
  - destruct (declared ci) as [c|e]; cbn [fst s_schema s_cache]; [|split; reflexivity].
    split; [|reflexivity]. apply update_nth_names. intros nc Hn. cbn [fst].
    unfold in_place in H. cbn [s_schema] in H. symmetry. apply H. exact Hn.
  - destruct (ci_resolve ci) as [d|e]; cbn [fst s_schema s_cache]; [|split; reflexivity].
    split; [|reflexivity]. apply update_nth_names. intros nc _. reflexivity.
Qed.

Lemma describe_after_in_place : forall st f o,
  cached_current f st -> in_place o st ->
  snd (step (fst (step st o)) (ODescribe f)) = current_view (fst (step st o)).
Proof.
  intros st f o C H. apply step_describe_cached_current.
  destruct (step_in_place_names st o H) as [Hn Hc].
  unfold cached_current in *. rewrite Hc, Hn. exact C.
Qed.

(* ------------------------------------------------------------------ *)
(* whatever happened before: the reported type code of a column is the one of what it carries NOW *)
Lemma with_back_nth : forall l k e, nth_error l k = Some e -> nth_error (with_back l) k = Some (e, from_name (e_code e)).
Proof. intros l k e H. unfold with_back. rewrite (map_nth_error _ k l H). reflexivity. Qed.

Lemma session_type_code_current : forall (st0 : sess) (ops : list op) (f k : nat) (n : str) (d : descr),
  let st := fst (run st0 ops) in
  not_cached f st \/ cached_current f st ->
  NoDup (map fst (s_schema st)) -> nth_error (s_schema st) k = Some (n, column_of d) ->
  wfb d = true -> proper d = true ->
  exists l d',
    snd (step st (ODescribe f)) = SDesc (s_schema st) (Ok l) /\
    List.length l = List.length (s_schema st) /\
    nth_error l k = Some ((n, type_code (column_of d), desc_prec (column_of d), desc_scale (column_of d)), Ok d') /\
    d_ty d' = d_ty (column_of d) /\
    d_prec d' = desc_prec (column_of d) /\ d_scale d' = desc_scale (column_of d) /\
    (forall e, d_elt (column_of d) = Some e -> d_elt d' = Some e).
Proof.
  intros st0 ops f k n d st Hf ND Hk W P.
  destruct (frame_type_code_round_trip (s_schema st) k n d ND Hk W P) as [d' [H1 [H2 Rest]]].
  exists (with_back (description (s_schema st))), d'.
  split.
  { destruct Hf as [Hf|Hf]; [rewrite step_describe_fresh by exact Hf|rewrite step_describe_cached_current by exact Hf]; reflexivity. }
  split.
  { unfold with_back. rewrite map_length. apply description_length. }
  split; [|exact Rest].
  rewrite (with_back_nth _ _ _ H1). cbn [e_code]. rewrite H2. reflexivity.
Qed.

(* ------------------------------------------------------------------ *)
(* round 6: copies of the schema object / of a column object *)
Lemma step_describe_copy : forall st how,
  snd (step st (ODescribeCopy how)) = current_view st /\ s_schema (fst (step st (ODescribeCopy how))) = s_schema st.
Proof.
  intros [sch cache] how. unfold step, current_view. cbn [s_schema s_cache fst snd].
  rewrite describe_names_schema. split; reflexivity.
Qed.

Lemma step_copy_column : forall st i how, fst (step st (OCopyColumn i how)) = st.
Proof. intros [sch cache] i how. reflexivity. Qed.

(* after a describe through a copy no frame of the session is cached: every frame answers the current view next *)
Lemma describe_after_copy : forall st how f,
  snd (step (fst (step st (ODescribeCopy how))) (ODescribe f)) = current_view st.
Proof.
  intros [sch cache] how f. unfold step, current_view. cbn [s_schema s_cache fst snd].
  rewrite describe_names_schema. reflexivity.
Qed.
