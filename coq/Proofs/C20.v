(* C20 - lemmas about the model in Model/C20.v. *)
From Coq Require Import List NArith Bool Lia ZifyBool Ascii String.
From Orso Require Import Gen.C20_LogKeys Model.C20.
Import ListNotations.
Local Open Scope N_scope.

(* ------------------------------------------------------------------ *)
(* generic list/bool facts *)
Lemma bool_eq_iff (a b : bool) : (a = true <-> b = true) -> a = b.
Proof. destruct a, b; intros [H1 H2]; try reflexivity; [symmetry; now apply H1 | now apply H2]. Qed.

Lemma existsb_map_c {A B} (f : B -> bool) (g : A -> B) l :
  existsb f (map g l) = existsb (fun x => f (g x)) l.
Proof. induction l as [|x l IH]; cbn; [reflexivity | now rewrite IH]. Qed.

Lemma existsb_ext_c {A} (f g : A -> bool) l : (forall x, f x = g x) -> existsb f l = existsb g l.
Proof. intros H; induction l as [|x l IH]; cbn; [reflexivity | now rewrite H, IH]. Qed.

Lemma existsb_orb_c {A} (f g : A -> bool) l :
  existsb (fun x => f x || g x) l = existsb f l || existsb g l.
Proof.
  induction l as [|x l IH]; cbn; [reflexivity|]. rewrite IH.
  destruct (f x), (g x), (existsb f l), (existsb g l); reflexivity.
Qed.

Lemma suffixes_map f s : suffixes (map f s) = map (map f) (suffixes s).
Proof. induction s as [|c s IH]; cbn; [reflexivity | now rewrite IH]. Qed.

Lemma suffixes_cons c s : suffixes (c :: s) = (c :: s) :: suffixes s.
Proof. reflexivity. Qed.

Lemma suffixes_self s : In s (suffixes s).
Proof. destruct s; cbn; now left. Qed.

Lemma suffixes_trans s1 s : In s1 (suffixes s) -> forall s2, In s2 (suffixes s1) -> In s2 (suffixes s).
Proof.
  induction s as [|c s IH]; intros H s2 H2.
  - cbn in H. destruct H as [<-|[]]. exact H2.
  - rewrite suffixes_cons in H. destruct H as [<-|H]; [exact H2|].
    rewrite suffixes_cons. right. now apply IH with (s2 := s2) in H.
Qed.

(* ------------------------------------------------------------------ *)
(* lower-casing *)
(* the regenerated table of non-ASCII case variants: non-ASCII code points, onto a-z *)
Lemma casefold_extra_ok :
  forallb (fun e => (127 <? fst e) && (97 <=? snd e) && (snd e <=? 122)) C20_casefold_extra = true.
Proof. vm_compute. reflexivity. Qed.

Lemma nassoc_in c : forall l a, nassoc c l = Some a -> In (c, a) l.
Proof.
  induction l as [|[x b] l IH]; intros a H; [discriminate|]. cbn [nassoc] in H.
  destruct (N.eqb_spec c x) as [->|_].
  - injection H as ->. now left.
  - right. now apply IH.
Qed.

Lemma lower_c_10 c : (lower_c c =? 10) = (c =? 10).
Proof.
  unfold lower_c. destruct ((65 <=? c) && (c <=? 90)) eqn:E.
  - apply andb_true_iff in E as [E1 E2]. apply N.leb_le in E1, E2.
    destruct (N.eqb_spec (c + 32) 10), (N.eqb_spec c 10); try reflexivity; lia.
  - destruct (nassoc c C20_casefold_extra) as [a|] eqn:A; [|reflexivity].
    apply nassoc_in in A. pose proof casefold_extra_ok as F. rewrite forallb_forall in F.
    specialize (F _ A). cbn [fst snd] in F. apply andb_true_iff in F as [F F3].
    apply andb_true_iff in F as [F1 F2]. apply N.ltb_lt in F1. apply N.leb_le in F2, F3.
    destruct (N.eqb_spec a 10), (N.eqb_spec c 10); try reflexivity; lia.
Qed.

(* ------------------------------------------------------------------ *)
(* what a pattern of the shape  (.* )? literals $?  means under search + IGNORECASE *)
Inductive meaning := MEnds (l : text) | MContains (l : text).

Definition eval_meaning (k : text) (m : meaning) : bool :=
  match m with
  | MEnds l => ends_with l (lower k) || ends_with (l ++ [10]) (lower k)
  | MContains l => contains l (lower k)
  end.

(* literals, optionally closed by a single final '$' *)
Fixpoint lits_of (p : list ritem) : option (text * bool) :=
  match p with
  | [] => Some ([], false)
  | REnd :: r => match r with [] => Some ([], true) | _ => None end
  | RLit c :: r => match lits_of r with Some (l, e) => Some (c :: l, e) | None => None end
  | RDotStar :: _ => None
  end.

Definition classify (meth : re_method) (ic : bool) (p : list ritem) : option meaning :=
  match meth, ic with
  | ReSearch, true =>
      match lits_of (match p with RDotStar :: r => r | _ => p end) with
      | Some (l, true) => Some (MEnds (lower l))
      | Some (l, false) => Some (MContains (lower l))
      | None => None
      end
  | _, _ => None
  end.

Lemma m_here_lits p : forall l s, lits_of p = Some (l, false) ->
  m_here true false p s = is_prefix (lower l) (lower s).
Proof.
  induction p as [|it p IH]; intros l s H.
  - cbn in H. injection H as <-. reflexivity.
  - destruct it as [c| |].
    + cbn [lits_of] in H. destruct (lits_of p) as [[l' e]|] eqn:E; [|discriminate].
      injection H as <- ->. destruct s as [|x s]; [reflexivity|].
      cbn [m_here lower map is_prefix ci_eq]. rewrite (IH l' s eq_refl). reflexivity.
    + discriminate.
    + cbn [lits_of] in H. destruct p; discriminate.
Qed.

Lemma m_here_lits_end p : forall l s, lits_of p = Some (l, true) ->
  m_here true false p s = teqb (lower s) (lower l) || teqb (lower s) (lower l ++ [10]).
Proof.
  induction p as [|it p IH]; intros l s H.
  - discriminate.
  - destruct it as [c| |].
    + cbn [lits_of] in H. destruct (lits_of p) as [[l' e]|] eqn:E; [|discriminate].
      injection H as <- ->. destruct s as [|x s]; [reflexivity|].
      cbn [m_here lower map teqb ci_eq app]. rewrite (IH l' s eq_refl).
      rewrite (N.eqb_sym (lower_c c)). now rewrite andb_orb_distrib_r.
    + discriminate.
    + cbn [lits_of] in H. destruct p; [|discriminate]. injection H as <-.
      cbn [m_here]. rewrite andb_true_r.
      destruct s as [|x [|y s]]; cbn [at_end lower map teqb app].
      * reflexivity.
      * now rewrite lower_c_10, andb_true_r.
      * now rewrite andb_false_r.
Qed.

Lemma m_here_star_unfold ic full p s :
  m_here ic full (RDotStar :: p) s =
  m_here ic full p s || match s with x :: s' => negb (x =? 10) && m_here ic full (RDotStar :: p) s' | [] => false end.
Proof. destruct s; reflexivity. Qed.

Lemma star_in_suffix ic p s : m_here ic false (RDotStar :: p) s = true ->
  existsb (m_here ic false p) (suffixes s) = true.
Proof.
  induction s as [|x s IH]; intros H; rewrite m_here_star_unfold in H.
  - rewrite orb_false_r in H. cbn. now rewrite H.
  - rewrite suffixes_cons. cbn [existsb]. apply orb_true_iff in H as [H|H].
    + now rewrite H.
    + apply andb_true_iff in H as [_ H]. rewrite (IH H). apply orb_true_r.
Qed.

Lemma search_dotstar ic p s :
  existsb (m_here ic false (RDotStar :: p)) (suffixes s) = existsb (m_here ic false p) (suffixes s).
Proof.
  apply bool_eq_iff. rewrite !existsb_exists. split.
  - intros [s1 [Hin H]]. apply star_in_suffix in H. apply existsb_exists in H as [s2 [Hin2 H2]].
    exists s2. split; [|exact H2]. eapply suffixes_trans; eassumption.
  - intros [s1 [Hin H]]. exists s1. split; [exact Hin|]. rewrite m_here_star_unfold, H. reflexivity.
Qed.

Lemma ends_with_lower l k : ends_with l (lower k) = existsb (fun s => teqb (lower s) l) (suffixes k).
Proof. unfold ends_with. unfold lower at 1. rewrite suffixes_map, existsb_map_c. reflexivity. Qed.

Lemma contains_lower l k : contains l (lower k) = existsb (fun s => is_prefix l (lower s)) (suffixes k).
Proof. unfold contains. unfold lower at 1. rewrite suffixes_map, existsb_map_c. reflexivity. Qed.

Lemma classify_sound meth ic p m : classify meth ic p = Some m ->
  forall k, re_run meth ic p k = eval_meaning k m.
Proof.
  unfold classify. destruct meth; try discriminate. destruct ic; try discriminate.
  intros H k. cbn [re_run].
  assert (E : existsb (m_here true false p) (suffixes k) =
              existsb (m_here true false (match p with RDotStar :: r => r | _ => p end)) (suffixes k)).
  { destruct p as [|[c| |] r]; try reflexivity. apply search_dotstar. }
  rewrite E. clear E.
  destruct (lits_of (match p with RDotStar :: r => r | _ => p end)) as [[l e]|] eqn:L; [|discriminate].
  destruct e; injection H as <-; cbn [eval_meaning].
  - rewrite (existsb_ext_c _ _ _ (fun s => m_here_lits_end _ l s L)).
    rewrite existsb_orb_c, !ends_with_lower. reflexivity.
  - rewrite (existsb_ext_c _ _ _ (fun s => m_here_lits _ l s L)).
    rewrite contains_lower. reflexivity.
Qed.

(* ------------------------------------------------------------------ *)
(* the generated table, classified *)
Definition classify_text (meth : re_method) (ic : bool) (p : text) : option meaning :=
  match parse_re p with Some r => classify meth ic r | None => None end.

Definition somes {A} (l : list (option A)) : list A :=
  flat_map (fun o => match o with Some x => [x] | None => [] end) l.
Definition all_some {A} (l : list (option A)) : bool :=
  forallb (fun o => match o with Some _ => true | None => false end) l.

Lemma sens_with_meanings meth ic pats :
  all_some (map (classify_text meth ic) pats) = true ->
  forall k, sensitive_with meth ic pats k = existsb (eval_meaning k) (somes (map (classify_text meth ic) pats)).
Proof.
  intros H k. induction pats as [|p pats IH]; [reflexivity|].
  cbn [map all_some forallb] in H. apply andb_true_iff in H as [Hp H].
  destruct (classify_text meth ic p) as [m|] eqn:Cp; [|discriminate].
  change (sensitive_with meth ic (p :: pats) k) with (pattern_hits meth ic k p || sensitive_with meth ic pats k).
  rewrite (IH H).
  change (somes (map (classify_text meth ic) (p :: pats)))
    with ((match classify_text meth ic p with Some x => [x] | None => [] end) ++ somes (map (classify_text meth ic) pats)).
  rewrite Cp. cbn [app existsb]. f_equal.
  unfold classify_text in Cp. unfold pattern_hits. destruct (parse_re p); [|discriminate]. now apply classify_sound.
Qed.

Lemma teqb_eq a : forall b, teqb a b = true -> a = b.
Proof.
  induction a as [|x a IH]; intros [|y b] H; try discriminate; [reflexivity|].
  cbn in H. apply andb_true_iff in H as [H1 H2]. apply N.eqb_eq in H1. subst. f_equal. now apply IH.
Qed.

Lemma teqb_refl a : teqb a a = true.
Proof. induction a as [|x a IH]; cbn; [reflexivity | now rewrite N.eqb_refl, IH]. Qed.

Definition meaning_eqb (a b : meaning) : bool :=
  match a, b with
  | MEnds x, MEnds y => teqb x y
  | MContains x, MContains y => teqb x y
  | _, _ => false
  end.

Lemma meaning_eqb_eq a b : meaning_eqb a b = true -> a = b.
Proof. destruct a, b; cbn; intros H; try discriminate; f_equal; now apply teqb_eq. Qed.

Definition incl_b (a b : list meaning) : bool := forallb (fun m => existsb (meaning_eqb m) b) a.

Lemma incl_b_existsb f a b : incl_b a b = true -> existsb f a = true -> existsb f b = true.
Proof.
  unfold incl_b. rewrite forallb_forall, !existsb_exists. intros H [m [Hin Hf]].
  specialize (H m Hin). apply existsb_exists in H as [m' [Hin' E]]. apply meaning_eqb_eq in E. subst m'.
  now exists m.
Qed.

Definition code_meanings : list (option meaning) :=
  map (classify_text C20_method C20_ignorecase) C20_patterns.
Definition spec_meanings : list meaning := map MEnds spec_suffixes ++ map MContains spec_infixes.

(* The three facts below are recomputed against the regenerated table on every build. *)
Lemma table_classified : all_some code_meanings = true.
Proof. vm_compute. reflexivity. Qed.
Lemma table_covers_spec : incl_b spec_meanings (somes code_meanings) = true.
Proof. vm_compute. reflexivity. Qed.
Lemma table_within_spec : incl_b (somes code_meanings) spec_meanings = true.
Proof. vm_compute. reflexivity. Qed.

Definition spec_before_newline (k : text) : bool :=
  existsb (fun s => ends_with (s ++ [10]) (lower k)) spec_suffixes.

Lemma orb_swap_c a b c : a || b || c = a || c || b.
Proof. destruct a, b, c; reflexivity. Qed.

Lemma spec_meanings_eval k :
  existsb (eval_meaning k) spec_meanings = sensitive_spec k || spec_before_newline k.
Proof.
  unfold spec_meanings, sensitive_spec, spec_before_newline.
  rewrite existsb_app, !existsb_map_c. cbn [eval_meaning]. rewrite existsb_orb_c.
  apply orb_swap_c.
Qed.

Lemma key_characterised k : sensitive_code k = sensitive_spec k || spec_before_newline k.
Proof.
  unfold sensitive_code. rewrite (sens_with_meanings _ _ _ table_classified).
  rewrite <- spec_meanings_eval. apply bool_eq_iff. split; apply incl_b_existsb.
  - exact table_within_spec.
  - exact table_covers_spec.
Qed.

Lemma spec_implies_code k : sensitive_spec k = true -> sensitive_code k = true.
Proof. intros H. now rewrite key_characterised, H. Qed.

Lemma suffix_of_app (a b : text) : In b (suffixes (a ++ b)).
Proof.
  induction a as [|x a IH]; [apply suffixes_self|]. cbn [app]. rewrite suffixes_cons. now right.
Qed.

Lemma ends_with_app a b x : ends_with (a ++ b) x = true -> ends_with b x = true.
Proof.
  unfold ends_with. rewrite !existsb_exists. intros [s [Hin E]]. apply teqb_eq in E. subst s.
  exists b. split; [|apply teqb_refl]. eapply suffixes_trans; [exact Hin | apply suffix_of_app].
Qed.

Lemma ends_with_nl_lower k : ends_with [10] (lower k) = ends_with [10] k.
Proof.
  rewrite ends_with_lower. unfold ends_with. apply existsb_ext_c. intros s.
  destruct s as [|x [|y s]]; cbn; try reflexivity; now rewrite lower_c_10.
Qed.

Lemma code_iff_spec k : ends_with [10] k = false -> sensitive_code k = sensitive_spec k.
Proof.
  intros H. rewrite key_characterised.
  assert (E : spec_before_newline k = false); [|now rewrite E, orb_false_r].
  destruct (spec_before_newline k) eqn:X; [|reflexivity]. unfold spec_before_newline in X.
  apply existsb_exists in X as [s [_ X]]. apply ends_with_app in X. rewrite ends_with_nl_lower in X. congruence.
Qed.

Definition lookalike_keys : list text :=
  map T ["passwor"; "passwords"; "password_hint"; "pass_word"; "pwd1"; "pwds"; "p_wd"; "secret"; "secrets";
         "_secrets"; "topsecret"; "key"; "keys"; "monkey"; "keyboard"; "_keys"; "_key_id"; "token"; "tokens";
         "_tokens"; "_tokenized"; "credential"; "credentialz"; "cred"; "user"; "name"; "message"; ""]%string.

Lemma lookalikes_clear : forallb (fun k => negb (sensitive_code k)) lookalike_keys = true.
Proof. vm_compute. reflexivity. Qed.

(* ------------------------------------------------------------------ *)
(* clean over trees *)
Section CleanProofs.
Variable sens : text -> bool.
Variable str_of : json -> text.
Variable repr_of : json -> text.
Variable digest : text -> text.
Variable colq : text -> text.

Notation ca := (clean_at sens str_of repr_of digest colq).
Notation cm := (clean_member sens str_of repr_of digest colq).

Lemma clean_at_obj m kvs : ca m (JObj kvs) = CObj (map cm kvs).
Proof.
  cbn [clean_at]. f_equal. induction kvs as [|[k v] kvs IH]; [reflexivity|].
  cbn [map]. rewrite <- IH. reflexivity.
Qed.

Lemma clean_at_arr m l : m || existsb is_container l = true -> ca m (JArr l) = CArr (map (ca true) l).
Proof.
  intros H. cbn [clean_at]. rewrite H. reflexivity.
Qed.

Lemma jget_container p x kvs : jget p x = Some (JObj kvs) -> is_container x = true.
Proof.
  destruct p; cbn [jget]; intros H.
  - injection H as ->. reflexivity.
  - destruct x; try discriminate; reflexivity.
Qed.

Lemma has_container l a x : nth_error l a = Some x -> is_container x = true -> existsb is_container l = true.
Proof. intros E C. apply existsb_exists. exists x. split; [eapply nth_error_In; exact E | exact C]. Qed.

Definition clear_path (p : list nat) (j : json) : bool := forallb (fun k => negb (sens k)) (jkeys p j).

(* along a path of non-sensitive keys through cleaned arrays the cleaned tree holds clean(subtree) *)
Lemma clean_commutes p : forall j m m' v,
  clear_path p j = true -> walk m p j = Some m' -> jget p j = Some v -> cget p (ca m j) = Some (ca m' v).
Proof.
  induction p as [|a p IH]; intros j m m' v Hc Hw Hg.
  - cbn in Hw, Hg. injection Hw as <-. injection Hg as <-. reflexivity.
  - destruct j as [| | | |l|kvs]; try discriminate.
    + cbn [walk] in Hw. destruct (m || existsb is_container l) eqn:C; [|discriminate].
      cbn [jget] in Hg. unfold clear_path in Hc. cbn [jkeys] in Hc.
      destruct (nth_error l a) as [x|] eqn:E; [|discriminate].
      rewrite (clean_at_arr _ _ C). cbn [cget]. rewrite nth_error_map, E. cbn [option_map]. now apply IH.
    + cbn [walk] in Hw. cbn [jget] in Hg. unfold clear_path in Hc. cbn [jkeys] in Hc.
      destruct (nth_error kvs a) as [[k w]|] eqn:E; [|discriminate].
      cbn [forallb] in Hc. apply andb_true_iff in Hc as [Hk Hc]. apply negb_true_iff in Hk.
      rewrite clean_at_obj. cbn [cget]. rewrite nth_error_map, E. cbn [option_map].
      unfold clean_member at 1. cbn [fst snd]. rewrite Hk. unfold clean_val. now apply IH.
Qed.

Lemma clean_redacts_gen p i : forall j m kvs k v,
  clear_path p j = true -> jget p j = Some (JObj kvs) -> nth_error kvs i = Some (k, v) -> sens k = true ->
  forall q, cget ((p ++ [i]) ++ q) (ca m j) = cget q (CRedacted (digest (str_of v))).
Proof.
  induction p as [|a p IH]; intros j m kvs k v Hc Hg Hn Hs q.
  - cbn in Hg. injection Hg as ->. rewrite clean_at_obj. cbn [app cget].
    rewrite nth_error_map, Hn. cbn [option_map]. unfold clean_member. cbn [fst snd]. now rewrite Hs.
  - destruct j as [| | | |l|kvs0]; try discriminate.
    + cbn [jget] in Hg. unfold clear_path in Hc. cbn [jkeys] in Hc.
      destruct (nth_error l a) as [x|] eqn:E; [|discriminate].
      rewrite clean_at_arr
        by (rewrite (has_container _ _ _ E (jget_container _ _ _ Hg)); apply orb_true_r).
      cbn [app cget]. rewrite nth_error_map, E. cbn [option_map]. now apply IH with (kvs := kvs) (k := k).
    + cbn [jget] in Hg. unfold clear_path in Hc. cbn [jkeys] in Hc.
      destruct (nth_error kvs0 a) as [[k0 w]|] eqn:E; [|discriminate].
      cbn [forallb] in Hc. apply andb_true_iff in Hc as [Hk Hc]. apply negb_true_iff in Hk.
      rewrite clean_at_obj. cbn [app cget]. rewrite nth_error_map, E. cbn [option_map].
      unfold clean_member at 1. cbn [fst snd]. rewrite Hk. unfold clean_val.
      now apply IH with (kvs := kvs) (k := k).
Qed.

Lemma clean_redacts p i j m kvs k v :
  clear_path p j = true -> jget p j = Some (JObj kvs) -> nth_error kvs i = Some (k, v) -> sens k = true ->
  cget (p ++ [i]) (ca m j) = Some (CRedacted (digest (str_of v))) /\
  forall q, q <> [] -> cget ((p ++ [i]) ++ q) (ca m j) = None.
Proof.
  intros Hc Hg Hn Hs. pose proof (clean_redacts_gen p i j m kvs k v Hc Hg Hn Hs) as A. split.
  - rewrite <- (app_nil_r (p ++ [i])). now rewrite A.
  - intros q Hq. rewrite A. destruct q; [congruence | reflexivity].
Qed.

Lemma clean_keeps_keys kvs : map fst (map cm kvs) = map fst kvs.
Proof. rewrite map_map. apply map_ext. intros [k v]. reflexivity. Qed.

(* two secrets with the same digest give the same cleaned tree *)
Lemma ni_base v1 v2 k : digest (str_of v1) = digest (str_of v2) -> sens k = true ->
  forall kvs i v0, nth_error kvs i = Some (k, v0) ->
  map cm (replace_nth i (fun kv => (fst kv, v1)) kvs) = map cm (replace_nth i (fun kv => (fst kv, v2)) kvs).
Proof.
  intros Hd Hs kvs. induction kvs as [|kv kvs IH]; intros i v0 Hn; [destruct i; reflexivity|].
  destruct i as [|i]; cbn [replace_nth map].
  - cbn in Hn. injection Hn as ->. f_equal. unfold clean_member. cbn [fst snd]. now rewrite Hs, Hd.
  - f_equal. now apply IH with (v0 := v0).
Qed.

Lemma ni_step (f1 f2 : json -> json) k : sens k = false ->
  forall kvs a w, nth_error kvs a = Some (k, w) -> ca false (f1 w) = ca false (f2 w) ->
  map cm (replace_nth a (fun kv => (fst kv, f1 (snd kv))) kvs) = map cm (replace_nth a (fun kv => (fst kv, f2 (snd kv))) kvs).
Proof.
  intros Hk kvs. induction kvs as [|kv kvs IH]; intros a w Hn He; [destruct a; reflexivity|].
  destruct a as [|a]; cbn [replace_nth map].
  - cbn in Hn. injection Hn as ->. f_equal. unfold clean_member, clean_val. cbn [fst snd]. now rewrite Hk, He.
  - f_equal. now apply IH with (w := w).
Qed.

Lemma ni_step_arr (f1 f2 : json -> json) :
  forall l a x, nth_error l a = Some x -> ca true (f1 x) = ca true (f2 x) ->
  map (ca true) (replace_nth a f1 l) = map (ca true) (replace_nth a f2 l).
Proof.
  induction l as [|y l IH]; intros a x Hn He; [destruct a; reflexivity|].
  destruct a as [|a]; cbn [replace_nth map].
  - cbn in Hn. injection Hn as ->. now rewrite He.
  - f_equal. now apply IH with (x := x).
Qed.

Lemma jset_container q v x : q <> [] -> is_container x = true -> is_container (jset q v x) = true.
Proof. destruct q; [congruence|]. intros _. destruct x; try discriminate; reflexivity. Qed.

Lemma has_container_replace (f : json -> json) : forall l a x,
  nth_error l a = Some x -> is_container (f x) = true -> existsb is_container (replace_nth a f l) = true.
Proof.
  induction l as [|y l IH]; intros a x Hn C; [destruct a; discriminate|].
  destruct a as [|a]; cbn [replace_nth existsb].
  - cbn in Hn. injection Hn as ->. now rewrite C.
  - rewrite (IH a x Hn C). apply orb_true_r.
Qed.

Lemma clean_noninterference p i : forall j m kvs k v0 v1 v2,
  clear_path p j = true -> jget p j = Some (JObj kvs) -> nth_error kvs i = Some (k, v0) -> sens k = true ->
  digest (str_of v1) = digest (str_of v2) ->
  ca m (jset (p ++ [i]) v1 j) = ca m (jset (p ++ [i]) v2 j).
Proof.
  induction p as [|a p IH]; intros j m kvs k v0 v1 v2 Hc Hg Hn Hs Hd.
  - cbn in Hg. injection Hg as ->. cbn [app jset]. rewrite !clean_at_obj. f_equal.
    now apply ni_base with (k := k) (v0 := v0).
  - destruct j as [| | | |l|kvs0]; try discriminate.
    + cbn [jget] in Hg. unfold clear_path in Hc. cbn [jkeys] in Hc.
      destruct (nth_error l a) as [x|] eqn:E; [|discriminate].
      assert (Q : p ++ [i] <> []) by (destruct p; discriminate).
      pose proof (jget_container _ _ _ Hg) as Cx.
      cbn [app jset].
      rewrite !clean_at_arr
        by (rewrite (has_container_replace _ _ _ _ E (jset_container _ _ _ Q Cx)); apply orb_true_r).
      f_equal. apply ni_step_arr with (x := x); [exact E|].
      now apply IH with (kvs := kvs) (k := k) (v0 := v0).
    + cbn [jget] in Hg. unfold clear_path in Hc. cbn [jkeys] in Hc.
      destruct (nth_error kvs0 a) as [[k0 w]|] eqn:E; [|discriminate].
      cbn [forallb] in Hc. apply andb_true_iff in Hc as [Hk Hc]. apply negb_true_iff in Hk.
      cbn [app jset]. rewrite !clean_at_obj. f_equal.
      apply ni_step with (f1 := jset (p ++ [i]) v1) (f2 := jset (p ++ [i]) v2) (k := k0) (w := w); try assumption.
      now apply IH with (kvs := kvs) (k := k) (v0 := v0).
Qed.
End CleanProofs.

(* ------------------------------------------------------------------ *)
(* URL user-info step *)
Section Url.
Variable repl : text.

Lemma url_from_skip a : forall b, url_from_r repl (a ++ b) (List.length a) = url_from_r repl b 0.
Proof. induction a as [|c a IH]; intros b; [reflexivity|]. cbn [app List.length url_from_r]. apply IH. Qed.

Lemma find_userinfo_app u post : existsb (fun c => (c =? 64) || ui_stop c) u = false ->
  find_userinfo (u ++ 64 :: post) = Some (List.length u).
Proof.
  induction u as [|c u IH]; intros H.
  - reflexivity.
  - cbn [existsb] in H. apply orb_false_iff in H as [H1 H2]. apply orb_false_iff in H1 as [Hq Hn].
    cbn [app find_userinfo List.length]. rewrite Hq, Hn. now rewrite (IH H2).
Qed.

Lemma find_close_app q u post : existsb (fun c => (c =? q) || (c =? 10)) u = false ->
  find_close q false (u ++ q :: post) = Some (List.length u).
Proof.
  induction u as [|c u IH]; intros H.
  - cbn. now rewrite N.eqb_refl.
  - cbn [existsb] in H. apply orb_false_iff in H as [H1 H2]. apply orb_false_iff in H1 as [Hq Hn].
    cbn [app find_close List.length]. rewrite Hq, Hn. cbn [negb andb]. now rewrite (IH H2).
Qed.

Lemma is_prefix_sep_inside c s rest : is_prefix [58; 47; 47] (c :: s) = false ->
  is_prefix [58; 47; 47] ((c :: s) ++ 58 :: 47 :: 47 :: rest) = false.
Proof.
  destruct s as [|b [|d s]]; intros H; cbn [app is_prefix] in *.
  - change (47 =? 58) with false. now rewrite andb_false_r.
  - change (47 =? 58) with false. now rewrite !andb_false_r.
  - exact H.
Qed.

Lemma url_from_unfold c r :
  url_from_r repl (c :: r) 0 =
  if is_prefix [58; 47; 47] (c :: r) then
    match find_userinfo (skipn 2 r) with
    | Some n => repl ++ url_from_r repl r (3 + n)
    | None => c :: url_from_r repl r 0
    end
  else c :: url_from_r repl r 0.
Proof. reflexivity. Qed.

Lemma url_pre pre rest : contains [58; 47; 47] pre = false ->
  url_from_r repl (pre ++ 58 :: 47 :: 47 :: rest) 0 = pre ++ url_from_r repl (58 :: 47 :: 47 :: rest) 0.
Proof.
  induction pre as [|c pre IH]; intros H; [reflexivity|].
  unfold contains in H. rewrite suffixes_cons in H. cbn [existsb] in H.
  apply orb_false_iff in H as [H1 H2].
  change ((c :: pre) ++ 58 :: 47 :: 47 :: rest) with (c :: (pre ++ 58 :: 47 :: 47 :: rest)).
  rewrite url_from_unfold.
  change (c :: pre ++ 58 :: 47 :: 47 :: rest) with ((c :: pre) ++ 58 :: 47 :: 47 :: rest).
  rewrite (is_prefix_sep_inside c pre rest H1). cbn [app]. f_equal. now apply IH.
Qed.

Lemma url_hides_r pre u post :
  contains [58; 47; 47] pre = false ->
  existsb (fun c => (c =? 64) || ui_stop c) u = false ->
  url_step_r repl (pre ++ [58; 47; 47] ++ u ++ [64] ++ post) = pre ++ repl ++ url_step_r repl post.
Proof.
  intros Hp Hu. unfold url_step_r. cbn [app]. rewrite (url_pre _ _ Hp). f_equal.
  rewrite url_from_unfold. change (is_prefix [58; 47; 47] (58 :: 47 :: 47 :: u ++ 64 :: post)) with true.
  cbn [skipn]. rewrite (find_userinfo_app u post Hu). f_equal.
  change (47 :: 47 :: u ++ 64 :: post) with ((47 :: 47 :: u) ++ 64 :: post).
  replace ((47 :: 47 :: u) ++ 64 :: post) with ((47 :: 47 :: u ++ [64]) ++ post)
    by (cbn [app]; now rewrite <- app_assoc).
  replace (3 + List.length u)%nat with (List.length (47 :: 47 :: u ++ [64]))
    by (cbn [List.length]; rewrite app_length; cbn [List.length]; lia).
  apply url_from_skip.
Qed.

End Url.

Lemma url_hides pre u post :
  contains [58; 47; 47] pre = false ->
  existsb (fun c => (c =? 64) || ui_stop c) u = false ->
  url_step (pre ++ [58; 47; 47] ++ u ++ [64] ++ post) = pre ++ C20_url_replacement ++ url_step post.
Proof. exact (url_hides_r C20_url_replacement pre u post). Qed.

Lemma gcl_url_hides pre u post :
  contains [58; 47; 47] pre = false ->
  existsb (fun c => (c =? 64) || ui_stop c) u = false ->
  gcl_url_step (pre ++ [58; 47; 47] ++ u ++ [64] ++ post) = pre ++ C20_gcl_url_replacement ++ gcl_url_step post.
Proof. exact (url_hides_r C20_gcl_url_replacement pre u post). Qed.

(* ------------------------------------------------------------------ *)
(* the '|' split and the search for a JSON tail *)
Lemma split_nonempty sep s : split sep s <> [].
Proof.
  destruct s as [|c s]; cbn; [discriminate|].
  destruct (c =? sep); [discriminate|]. destruct (split sep s); discriminate.
Qed.

Lemma split_app sep a b : split sep (a ++ sep :: b) = split sep a ++ split sep b.
Proof.
  induction a as [|c a IH].
  - cbn [app split]. now rewrite N.eqb_refl.
  - cbn [app split]. rewrite IH. destruct (c =? sep); [reflexivity|].
    destruct (split sep a) as [|h t] eqn:E; [now apply split_nonempty in E|]. reflexivity.
Qed.

Lemma join_cons2 sep x y r : join sep (x :: y :: r) = x ++ sep ++ join sep (y :: r).
Proof. reflexivity. Qed.

Lemma join_split sep s : join [sep] (split sep s) = s.
Proof.
  induction s as [|c s IH]; [reflexivity|]. cbn [split].
  destruct (split sep s) as [|h t] eqn:E; [now apply split_nonempty in E|].
  destruct (N.eqb_spec c sep) as [->|_].
  - rewrite join_cons2. cbn [app]. now rewrite IH.
  - destruct t as [|x t].
    + cbn [join] in *. now rewrite IH.
    + rewrite join_cons2. rewrite join_cons2 in IH. cbn [app] in *. now rewrite IH.
Qed.

Lemma find_tail_finds parse o : forall front back i,
  back <> [] -> parse (join [bar] back) = Some o ->
  exists i' o', find_tail parse (front ++ back) i = Some (i', o').
Proof.
  induction front as [|x front IH]; intros back i Hb Hp.
  - destruct back as [|y back]; [congruence|]. cbn [app find_tail]. rewrite Hp. eauto.
  - cbn [app find_tail]. destruct (parse (join [bar] (x :: front ++ back))); [eauto|].
    destruct (front ++ back) as [|y l] eqn:E.
    + apply app_eq_nil in E as [_ E]. congruence.
    + rewrite <- E. now apply IH.
Qed.

Lemma find_tail_sound parse : forall parts i i' o',
  find_tail parse parts i = Some (i', o') ->
  exists d, i' = (i + d)%nat /\ parse (join [bar] (skipn d parts)) = Some o'.
Proof.
  induction parts as [|x parts IH]; intros i i' o' H.
  - cbn [find_tail] in H. destruct (parse (join [bar] [])) eqn:E; [|discriminate].
    injection H as <- <-. exists O. split; [lia | exact E].
  - cbn [find_tail] in H. destruct (parse (join [bar] (x :: parts))) eqn:E.
    + injection H as <- <-. exists O. split; [lia | exact E].
    + destruct parts as [|y l]; [discriminate|]. apply IH in H as [d [-> H]].
      exists (S d). split; [lia | exact H].
Qed.

Lemma tail_found parse pre m o :
  (pre = [] \/ exists pre', pre = pre' ++ [bar]) -> parse m = Some o ->
  exists i o', find_tail parse (split bar (pre ++ m)) 0 = Some (i, o') /\
               parse (join [bar] (skipn i (split bar (pre ++ m)))) = Some o'.
Proof.
  intros Hpre Hp.
  assert (F : exists i o', find_tail parse (split bar (pre ++ m)) 0 = Some (i, o')).
  { destruct Hpre as [->|[pre' ->]].
    - apply (find_tail_finds parse o [] (split bar m) O); [apply split_nonempty | now rewrite join_split].
    - rewrite <- app_assoc. cbn [app]. rewrite split_app.
      apply (find_tail_finds parse o); [apply split_nonempty | now rewrite join_split]. }
  destruct F as [i [o' F]]. exists i, o'. split; [exact F|].
  apply find_tail_sound in F as [d [-> F]]. exact F.
Qed.

Lemma sanitize_clean_branch sens parse digest can record pre m o :
  record = pre ++ m ->
  (pre = [] \/ exists pre', pre = pre' ++ [bar]) -> parse m = Some o ->
  exists i o',
    parse (join [bar] (skipn i (split bar record))) = Some o' /\
    sanitize_core sens parse digest can record =
      join [bar] (map (color_code can) (firstn i (split bar record)) ++
                  [T " " ++ json_dumps_flat (render_obj colours_on
                     (clean_obj sens py_str py_repr digest (colour_quotes colours_on) o'))]).
Proof.
  intros Hc Hpre Hp. destruct (tail_found parse pre m o Hpre Hp) as [i [o' [F S]]].
  exists i, o'. rewrite Hc. split; [exact S|]. unfold sanitize_core. rewrite F. reflexivity.
Qed.

(* ------------------------------------------------------------------ *)
(* the statements of Props/C20.v *)
Definition plain_key (k : text) : bool := negb (sensitive_spec k) && negb (ends_with [10] k).

Lemma plain_keys_clear l : forallb plain_key l = true -> forallb (fun k => negb (sensitive_code k)) l = true.
Proof.
  rewrite !forallb_forall. intros H k Hin. specialize (H k Hin). unfold plain_key in H.
  apply andb_true_iff in H as [H1 H2]. apply negb_true_iff in H2. now rewrite (code_iff_spec k H2).
Qed.

Lemma clean_redacts_spec (str_of repr_of : json -> text) (digest colq : text -> text) j p i kvs k v :
  forallb plain_key (jkeys p j) = true ->
  jget p j = Some (JObj kvs) -> nth_error kvs i = Some (k, v) -> sensitive_spec k = true ->
  cget (p ++ [i]) (clean_val sensitive_code str_of repr_of digest colq j) = Some (CRedacted (digest (str_of v))) /\
  forall q, q <> [] -> cget ((p ++ [i]) ++ q) (clean_val sensitive_code str_of repr_of digest colq j) = None.
Proof.
  intros Hc Hg Hn Hs. unfold clean_val. apply clean_redacts with (kvs := kvs) (k := k); try assumption.
  - apply plain_keys_clear, Hc.
  - now apply spec_implies_code.
Qed.

Lemma clean_keeps_spec (str_of repr_of : json -> text) (digest colq : text -> text) j p m v :
  forallb plain_key (jkeys p j) = true -> walk false p j = Some m -> jget p j = Some v ->
  cget p (clean_val sensitive_code str_of repr_of digest colq j) =
    Some (clean_at sensitive_code str_of repr_of digest colq m v).
Proof.
  intros Hc Hw Hg. unfold clean_val.
  exact (clean_commutes sensitive_code str_of repr_of digest colq p j false m v (plain_keys_clear _ Hc) Hw Hg).
Qed.

(* what clean(subtree) is, by the kind of subtree *)
Lemma clean_shape (sens : text -> bool) (str_of repr_of : json -> text) (digest colq : text -> text) :
  (forall m kvs, clean_at sens str_of repr_of digest colq m (JObj kvs) =
                 CObj (clean_obj sens str_of repr_of digest colq kvs) /\
                 map fst (clean_obj sens str_of repr_of digest colq kvs) = map fst kvs) /\
  (forall m l, m || existsb is_container l = true ->
               clean_at sens str_of repr_of digest colq m (JArr l) =
               CArr (map (clean_at sens str_of repr_of digest colq true) l)) /\
  (forall l, existsb is_container l = false ->
             clean_at sens str_of repr_of digest colq false (JArr l) = CLeaf (colq (str_of (JArr l)))) /\
  (forall v, is_container v = false ->
             clean_at sens str_of repr_of digest colq false v = CLeaf (colq (str_of v)) /\
             clean_at sens str_of repr_of digest colq true v = CItem (repr_of v)).
Proof.
  repeat split.
  - apply clean_at_obj.
  - apply clean_keeps_keys.
  - intros m l H. now apply clean_at_arr.
  - intros l H. cbn [clean_at]. now rewrite H.
  - destruct v; try discriminate; reflexivity.
  - destruct v; try discriminate; reflexivity.
Qed.

Definition record_of (j : json) : obj := match j with JObj o => o | _ => [] end.

Lemma output_depends_on_digest_only (digest : text -> text) colorize o p i kvs k v0 v1 v2 :
  forallb plain_key (jkeys p (JObj o)) = true ->
  jget p (JObj o) = Some (JObj kvs) -> nth_error kvs i = Some (k, v0) -> sensitive_spec k = true ->
  digest (py_str v1) = digest (py_str v2) ->
  clean_record_model digest colorize (record_of (jset (p ++ [i]) v1 (JObj o))) =
  clean_record_model digest colorize (record_of (jset (p ++ [i]) v2 (JObj o))).
Proof.
  intros Hc Hg Hn Hs Hd.
  pose proof (clean_noninterference sensitive_code py_str py_repr digest (colour_quotes (colours_of colorize))
                p i (JObj o) false kvs k v0 v1 v2 (plain_keys_clear _ Hc) Hg Hn (spec_implies_code k Hs) Hd) as NI.
  destruct (p ++ [i]) as [|a q] eqn:E; [now destruct p|].
  cbn [jset] in NI |- *. rewrite !clean_at_obj in NI. injection NI as NI.
  unfold clean_record_model, clean_obj, record_of. now rewrite NI.
Qed.

(* the former witness of F-C20-4, now positive, for every secret and every str/repr/digest/colouring *)
Lemma array_members_cleaned (str_of repr_of : json -> text) (digest colq : text -> text) (secret : json) :
  clean_val sensitive_code str_of repr_of digest colq
    (JObj [(T "items", JArr [JObj [(T "password", secret)]; JStr (T "x"); JArr [JObj [(T "api_key", secret)]]])]) =
  CObj [(T "items", CArr [CObj [(T "password", CRedacted (digest (str_of secret)))];
                          CItem (repr_of (JStr (T "x")));
                          CArr [CObj [(T "api_key", CRedacted (digest (str_of secret)))]]])].
Proof. vm_compute. reflexivity. Qed.

(* ------------------------------------------------------------------ *)
(* payloads as objects: the walk over references is the tree clean of the object's value *)
Lemma hv_container_unfold f h v : hv_container f h v = is_container (unfold f h v).
Proof.
  destruct f as [|f]; destruct v as [j|a]; try reflexivity. cbn [hv_container unfold].
  destruct (nth_error h a) as [[kvs|l]|]; reflexivity.
Qed.

Section HeapProofs.
Variable sens : text -> bool.
Variable str_of : json -> text.
Variable repr_of : json -> text.
Variable digest : text -> text.
Variable colq : text -> text.

Notation ca := (clean_at sens str_of repr_of digest colq).
Notation ch := (clean_href sens str_of repr_of digest colq).

Lemma clean_href_unfold f h : forall m v, ch f h m v = ca m (unfold f h v).
Proof.
  induction f as [|f IH]; intros m v.
  - destruct v; reflexivity.
  - destruct v as [j|a]; [reflexivity|]. cbn [clean_href unfold].
    destruct (nth_error h a) as [[kvs|l]|]; [| |reflexivity].
    + rewrite clean_at_obj. f_equal. rewrite map_map. apply map_ext. intros [k x].
      unfold clean_member. cbn [fst snd]. destruct (sens k); [reflexivity|].
      unfold clean_val. rewrite IH. reflexivity.
    + assert (E : existsb (hv_container f h) l = existsb is_container (map (unfold f h) l)).
      { rewrite existsb_map_c. apply existsb_ext_c. intros x. apply hv_container_unfold. }
      rewrite E. destruct (m || existsb is_container (map (unfold f h) l)) eqn:C.
      * rewrite (clean_at_arr _ _ _ _ _ _ _ C). f_equal. rewrite map_map. apply map_ext. intros x. apply IH.
      * cbn [clean_at]. rewrite C. reflexivity.
Qed.
End HeapProofs.

Lemma heap_redacts_spec (str_of repr_of : json -> text) (digest colq : text -> text) f h root p i kvs k v :
  forallb plain_key (jkeys p (unfold f h root)) = true ->
  jget p (unfold f h root) = Some (JObj kvs) -> nth_error kvs i = Some (k, v) -> sensitive_spec k = true ->
  cget (p ++ [i]) (clean_href sensitive_code str_of repr_of digest colq f h false root) = Some (CRedacted (digest (str_of v))) /\
  forall q, q <> [] -> cget ((p ++ [i]) ++ q) (clean_href sensitive_code str_of repr_of digest colq f h false root) = None.
Proof.
  intros Hc Hg Hn Hs. rewrite clean_href_unfold.
  exact (clean_redacts_spec str_of repr_of digest colq _ p i kvs k v Hc Hg Hn Hs).
Qed.

Lemma call_items_value digest h r c kvs : nth_error h r = Some (HDict kvs) ->
  exists o, unfold (S (List.length h)) h (HRef r) = JObj o /\
            call_items digest h r c = SItems (clean_record_model digest c o).
Proof.
  intros E. eexists. split.
  - cbn [unfold]. rewrite E. reflexivity.
  - unfold call_items. rewrite E. rewrite clean_href_unfold. cbn [unfold]. rewrite E.
    rewrite clean_at_obj. reflexivity.
Qed.

Lemma call_leaves_heap h r c : heap_step h (OClean r c) = h /\ heap_step h (OGcl r) = h.
Proof. split; reflexivity. Qed.

Lemma call_items_same_value digest h1 h2 r1 r2 c kvs1 kvs2 :
  nth_error h1 r1 = Some (HDict kvs1) -> nth_error h2 r2 = Some (HDict kvs2) ->
  unfold (S (List.length h1)) h1 (HRef r1) = unfold (S (List.length h2)) h2 (HRef r2) ->
  call_items digest h1 r1 c = call_items digest h2 r2 c.
Proof.
  intros E1 E2 U.
  destruct (call_items_value digest h1 r1 c kvs1 E1) as [o1 [U1 C1]].
  destruct (call_items_value digest h2 r2 c kvs2 E2) as [o2 [U2 C2]].
  rewrite C1, C2. rewrite U1, U2 in U. injection U as ->. reflexivity.
Qed.

(* the n-th output of a session is the call evaluated on the heap the first n operations leave *)
Lemma sess_run_nth digest : forall ops h n,
  nth_error (sess_run digest h ops) n =
  option_map (call_out digest (fold_left heap_step (firstn n ops) h)) (nth_error ops n).
Proof.
  induction ops as [|op ops IH]; intros h n.
  - destruct n; reflexivity.
  - destruct n as [|n]; [reflexivity|]. cbn [sess_run nth_error firstn fold_left sess_step fst snd]. apply IH.
Qed.

Lemma sess_call_value digest h r c kvs : nth_error h r = Some (HDict kvs) ->
  exists o, unfold (S (List.length h)) h (HRef r) = JObj o /\
    sess_step digest h (OClean r c) = (h, SItems (clean_record_model digest c o)) /\
    sess_step digest h (OGcl r) = (h, SItems (clean_record_model digest false o)).
Proof.
  intros E.
  destruct (call_items_value digest h r c kvs E) as [o [U C]].
  destruct (call_items_value digest h r false kvs E) as [o' [U' C']].
  rewrite U in U'. injection U' as <-.
  exists o. split; [exact U|]. unfold sess_step. cbn [heap_step call_out]. rewrite C, C'. split; reflexivity.
Qed.

(* ------------------------------------------------------------------ *)
(* duplicate warnings and the report at exit *)
Lemma warn_emits st m e : In e (snd (warn st m)) -> e = m.
Proof.
  unfold warn. destruct (existsb _ _); cbn [snd In]; intros H; [contradiction|].
  destruct H as [H|[]]. now symmetry.
Qed.

Lemma warn_reg st m x : In x (w_reg (fst (warn st m))) -> x = m \/ In x (w_reg st).
Proof.
  unfold warn. destruct (existsb _ _); cbn [fst w_reg In]; intros H; [now right|].
  destruct H as [H|H]; [left; now symmetry | now right].
Qed.

Lemma warn_all_spec : forall msgs st,
  (forall e, In e (snd (warn_all st msgs)) -> In e msgs) /\
  (forall x, In x (w_reg (fst (warn_all st msgs))) -> In x msgs \/ In x (w_reg st)).
Proof.
  induction msgs as [|m r IH]; intros st.
  - cbn [warn_all fst snd]. split; [intros e []| intros x H; now right].
  - cbn [warn_all]. destruct (warn st m) as [st1 e1] eqn:W.
    destruct (warn_all st1 r) as [st2 e2] eqn:A. cbn [fst snd].
    destruct (IH st1) as [IHe IHr]. rewrite A in IHe, IHr. cbn [fst snd] in IHe, IHr. split.
    + intros e H. apply in_app_or in H as [H|H].
      * left. symmetry. apply (warn_emits st m). now rewrite W.
      * right. now apply IHe.
    + intros x H. apply IHr in H as [H|H]; [left; now right|].
      pose proof (warn_reg st m x) as R. rewrite W in R. cbn [fst] in R.
      apply R in H as [->|H]; [left; now left | now right].
Qed.

Lemma warn_exit_spec gcl same src : forall reg dst e,
  In e (warn_exit gcl same src dst reg) ->
  exists m n, In m reg /\ e = WObj (report_obj gcl m (S n)).
Proof.
  induction reg as [|m r IH]; intros dst e H; [destruct H|].
  cbn [warn_exit] in H. destruct (w_count _ m) as [|k].
  - apply IH in H as [m' [n [I E]]]. exists m', n. split; [now right | exact E].
  - destruct (warn dst (WObj (report_obj gcl m (S k)))) as [dst' e1] eqn:W.
    apply in_app_or in H as [H|H].
    + exists m, k. split; [now left|]. apply (warn_emits dst). now rewrite W.
    + apply IH in H as [m' [n [I E]]]. exists m', n. split; [now right | exact E].
Qed.

Lemma warn_session_emits gcl same msgs e : In e (warn_session gcl same msgs) ->
  In e msgs \/ exists m n, In m msgs /\ e = WObj (report_obj gcl m (S n)).
Proof.
  unfold warn_session. destruct (warn_all w_empty msgs) as [st e0] eqn:A.
  destruct (warn_all_spec msgs w_empty) as [He Hr]. rewrite A in He, Hr. cbn [fst snd] in He, Hr.
  intros H. apply in_app_or in H as [H|H]; [left; now apply He|].
  right. apply warn_exit_spec in H as [m [n [I E]]]. exists m, n. split; [|exact E].
  apply Hr in I as [I|[]]. exact I.
Qed.

Lemma report_keys_plain : plain_key (T "message") = true /\ plain_key (T "suppressed") = true.
Proof. split; vm_compute; reflexivity. Qed.

Lemma report_redacts (str_of repr_of : json -> text) (digest colq : text -> text) gcl m n p i kvs k v :
  forallb plain_key (jkeys p (wvalue gcl m)) = true ->
  jget p (wvalue gcl m) = Some (JObj kvs) -> nth_error kvs i = Some (k, v) -> sensitive_spec k = true ->
  cget ((1%nat :: p) ++ [i]) (clean_val sensitive_code str_of repr_of digest colq (JObj (report_obj gcl m n))) =
    Some (CRedacted (digest (str_of v))) /\
  forall q, q <> [] ->
    cget (((1%nat :: p) ++ [i]) ++ q) (clean_val sensitive_code str_of repr_of digest colq (JObj (report_obj gcl m n))) = None.
Proof.
  intros Hc Hg Hn Hs.
  apply (clean_redacts_spec str_of repr_of digest colq (JObj (report_obj gcl m n)) (1%nat :: p) i kvs k v); try assumption.
Qed.

(* ------------------------------------------------------------------ *)
(* round 4 *)
Lemma nonascii_keys :
  C20_casefold_extra = [(304, 105); (305, 105); (383, 115); (8490, 107)] /\
  forallb (fun k => sensitive_spec k && sensitive_code k)
    [T "pa" ++ [383; 383] ++ T "word"; T "DB_PA" ++ [383; 383] ++ T "WORD"; T "client_" ++ [383] ++ T "ecret";
     T "credential" ++ [383] ++ T "_file"; T "api_" ++ [8490] ++ T "ey"; T "CREDENT" ++ [304] ++ T "ALS";
     T "credent" ++ [305] ++ T "als"; T "X_TO" ++ [8490] ++ T "EN"; T "my" ++ [383] ++ T "ecret_" ++ [8490] ++ T "EY"] = true /\
  forallb (fun k => negb (sensitive_spec k) && negb (sensitive_code k))
    [T "pa" ++ [223] ++ T "word"; T "pa" ++ [383; 383] ++ T "words"; [8490] ++ T "ey"; T "to" ++ [8490] ++ T "en";
     T "credent" ++ [237] ++ T "als"; T "pa" ++ [353; 353] ++ T "word"] = true.
Proof. repeat split; vm_compute; reflexivity. Qed.

Lemma gcl_text_sanitized :
  (forall (digest : text -> text) (o : obj) (t : text),
     gcl_text_event digest (Some o) t = GDict (clean_record_model digest false o)) /\
  (forall (digest : text -> text) (pre userinfo post : text),
     contains [58; 47; 47] pre = false ->
     existsb (fun c => (c =? 64) || ui_stop c) userinfo = false ->
     gcl_text_event digest None (pre ++ [58; 47; 47] ++ userinfo ++ [64] ++ post) =
     GText (pre ++ C20_gcl_url_replacement ++ gcl_url_step post)).
Proof.
  split; [reflexivity|]. intros digest pre u post Hp Hu. unfold gcl_text_event. f_equal.
  now apply gcl_url_hides.
Qed.

(* a URL text warning reported by GoogleLogger: the report carries the stripped text (a375704) *)
Lemma gcl_report_url_text n pre u post :
  contains [58; 47; 47] pre = false ->
  existsb (fun c => (c =? 64) || ui_stop c) u = false ->
  report_obj true (WText (pre ++ [58; 47; 47] ++ u ++ [64] ++ post) None) n =
  [(T "message", JStr (T "The following message was suppressed " ++ dec_of_nat n ++ T " time(s)"));
   (T "suppressed", JStr (pre ++ C20_gcl_url_replacement ++ gcl_url_step post))].
Proof.
  intros Hp Hu. unfold report_obj, wvalue. now rewrite (gcl_url_hides pre u post Hp Hu).
Qed.

(* round 6: a deep copy has the value of the original *)
Lemma unfold_leaf f h j : unfold f h (HLeaf j) = j.
Proof. destruct f; reflexivity. Qed.

Lemma deep_copy_value h a c g : nth_error h a = Some c ->
  heap_step h (OCopy a true) = h ++ [own_cell (S (List.length h)) h c] /\
  unfold (S g) (heap_step h (OCopy a true)) (HRef (List.length h)) = unfold (S (S (List.length h))) h (HRef a).
Proof.
  intros E. assert (H : heap_step h (OCopy a true) = h ++ [own_cell (S (List.length h)) h c]).
  { cbn [heap_step]. now rewrite E. }
  split; [exact H|]. rewrite H. cbn [unfold]. rewrite nth_error_app2 by apply le_n.
  rewrite PeanoNat.Nat.sub_diag. cbn [nth_error]. rewrite E.
  destruct c as [kvs|l]; cbn [own_cell]; f_equal; rewrite map_map; apply map_ext.
  - intros [k v]. cbn [fst snd]. now rewrite unfold_leaf.
  - intros v. now rewrite unfold_leaf.
Qed.
