(* C20 - lemmas (work in progress) *)
From Coq Require Import List NArith Bool.
From Orso Require Import Gen.C20_LogKeys Model.C20.
Import ListNotations.

Lemma placeholder_true : True. Proof. exact I. Qed.
