(* C20 - lemmas about the model in Model/C20.v. *)
From Coq Require Import List NArith Bool Lia ZifyBool Ascii String.
From Orso Require Import Gen.C20_LogKeys Model.C20.
Import ListNotations.
Local Open Scope N_scope.

(* ------------------------------------------------------------------ *)
(* generic list/bool facts *)
Lemma bool_eq_iff (a b : bool) : (a = true <-> b = true) -> a = b.
Proof. destruct a, b; intros [H1 H2]; try reflexivity; [symmetry; now apply H1 | now apply H2]. Qed.

Lemma existsb_map_c {A B} (f : B -> bool) (g : A -> B) l :
  existsb f (map g l) = existsb (fun x => f (g x)) l.
Proof. induction l as [|x l IH]; cbn; [reflexivity | now rewrite IH]. Qed.

Lemma existsb_ext_c {A} (f g : A -> bool) l : (forall x, f x = g x) -> existsb f l = existsb g l.
Proof. intros H; induction l as [|x l IH]; cbn; [reflexivity | now rewrite H, IH]. Qed.

Lemma existsb_orb_c {A} (f g : A -> bool) l :
  existsb (fun x => f x || g x) l = existsb f l || existsb g l.
Proof.
  induction l as [|x l IH]; cbn; [reflexivity|]. rewrite IH.
  destruct (f x), (g x), (existsb f l), (existsb g l); reflexivity.
Qed.

Lemma suffixes_map f s : suffixes (map f s) = map (map f) (suffixes s).
Proof. induction s as [|c s IH]; cbn; [reflexivity | now rewrite IH]. Qed.

Lemma suffixes_cons c s : suffixes (c :: s) = (c :: s) :: suffixes s.
Proof. reflexivity. Qed.

Lemma suffixes_self s : In s (suffixes s).
Proof. destruct s; cbn; now left. Qed.

Lemma suffixes_trans s1 s : In s1 (suffixes s) -> forall s2, In s2 (suffixes s1) -> In s2 (suffixes s).
Proof.
  induction s as [|c s IH]; intros H s2 H2.
  - cbn in H. destruct H as [<-|[]]. exact H2.
  - rewrite suffixes_cons in H. destruct H as [<-|H]; [exact H2|].
    rewrite suffixes_cons. right. now apply IH with (s2 := s2) in H.
Qed.

(* ------------------------------------------------------------------ *)
(* lower-casing *)
Lemma lower_c_10 c : (lower_c c =? 10) = (c =? 10).
Proof.
  unfold lower_c. destruct ((65 <=? c) && (c <=? 90)) eqn:E; [|reflexivity].
  apply andb_true_iff in E as [E1 E2]. apply N.leb_le in E1, E2.
  destruct (N.eqb_spec (c + 32) 10), (N.eqb_spec c 10); try reflexivity; lia.
Qed.

(* ------------------------------------------------------------------ *)
(* what a pattern of the shape  (.* )? literals $?  means under search + IGNORECASE *)
Inductive meaning := MEnds (l : text) | MContains (l : text).

Definition eval_meaning (k : text) (m : meaning) : bool :=
  match m with
  | MEnds l => ends_with l (lower k) || ends_with (l ++ [10]) (lower k)
  | MContains l => contains l (lower k)
  end.

(* literals, optionally closed by a single final '$' *)
Fixpoint lits_of (p : list ritem) : option (text * bool) :=
  match p with
  | [] => Some ([], false)
  | REnd :: r => match r with [] => Some ([], true) | _ => None end
  | RLit c :: r => match lits_of r with Some (l, e) => Some (c :: l, e) | None => None end
  | RDotStar :: _ => None
  end.

Definition classify (meth : re_method) (ic : bool) (p : list ritem) : option meaning :=
  match meth, ic with
  | ReSearch, true =>
      match lits_of (match p with RDotStar :: r => r | _ => p end) with
      | Some (l, true) => Some (MEnds (lower l))
      | Some (l, false) => Some (MContains (lower l))
      | None => None
      end
  | _, _ => None
  end.

Lemma m_here_lits p : forall l s, lits_of p = Some (l, false) ->
  m_here true false p s = is_prefix (lower l) (lower s).
Proof.
  induction p as [|it p IH]; intros l s H.
  - cbn in H. injection H as <-. reflexivity.
  - destruct it as [c| |].
    + cbn [lits_of] in H. destruct (lits_of p) as [[l' e]|] eqn:E; [|discriminate].
      injection H as <- ->. destruct s as [|x s]; [reflexivity|].
      cbn [m_here lower map is_prefix ci_eq]. rewrite (IH l' s eq_refl). reflexivity.
    + discriminate.
    + cbn [lits_of] in H. destruct p; discriminate.
Qed.

Lemma m_here_lits_end p : forall l s, lits_of p = Some (l, true) ->
  m_here true false p s = teqb (lower s) (lower l) || teqb (lower s) (lower l ++ [10]).
Proof.
  induction p as [|it p IH]; intros l s H.
  - discriminate.
  - destruct it as [c| |].
    + cbn [lits_of] in H. destruct (lits_of p) as [[l' e]|] eqn:E; [|discriminate].
      injection H as <- ->. destruct s as [|x s]; [reflexivity|].
      cbn [m_here lower map teqb ci_eq app]. rewrite (IH l' s eq_refl).
      rewrite (N.eqb_sym (lower_c c)). now rewrite andb_orb_distrib_r.
    + discriminate.
    + cbn [lits_of] in H. destruct p; [|discriminate]. injection H as <-.
      cbn [m_here]. rewrite andb_true_r.
      destruct s as [|x [|y s]]; cbn [at_end lower map teqb app].
      * reflexivity.
      * now rewrite lower_c_10, andb_true_r.
      * now rewrite andb_false_r.
Qed.

Lemma m_here_star_unfold ic full p s :
  m_here ic full (RDotStar :: p) s =
  m_here ic full p s || match s with x :: s' => negb (x =? 10) && m_here ic full (RDotStar :: p) s' | [] => false end.
Proof. destruct s; reflexivity. Qed.

Lemma star_in_suffix ic p s : m_here ic false (RDotStar :: p) s = true ->
  existsb (m_here ic false p) (suffixes s) = true.
Proof.
  induction s as [|x s IH]; intros H; rewrite m_here_star_unfold in H.
  - rewrite orb_false_r in H. cbn. now rewrite H.
  - rewrite suffixes_cons. cbn [existsb]. apply orb_true_iff in H as [H|H].
    + now rewrite H.
    + apply andb_true_iff in H as [_ H]. rewrite (IH H). apply orb_true_r.
Qed.

Lemma search_dotstar ic p s :
  existsb (m_here ic false (RDotStar :: p)) (suffixes s) = existsb (m_here ic false p) (suffixes s).
Proof.
  apply bool_eq_iff. rewrite !existsb_exists. split.
  - intros [s1 [Hin H]]. apply star_in_suffix in H. apply existsb_exists in H as [s2 [Hin2 H2]].
    exists s2. split; [|exact H2]. eapply suffixes_trans; eassumption.
  - intros [s1 [Hin H]]. exists s1. split; [exact Hin|]. rewrite m_here_star_unfold, H. reflexivity.
Qed.

Lemma ends_with_lower l k : ends_with l (lower k) = existsb (fun s => teqb (lower s) l) (suffixes k).
Proof. unfold ends_with. unfold lower at 1. rewrite suffixes_map, existsb_map_c. reflexivity. Qed.

Lemma contains_lower l k : contains l (lower k) = existsb (fun s => is_prefix l (lower s)) (suffixes k).
Proof. unfold contains. unfold lower at 1. rewrite suffixes_map, existsb_map_c. reflexivity. Qed.

Lemma classify_sound meth ic p m : classify meth ic p = Some m ->
  forall k, re_run meth ic p k = eval_meaning k m.
Proof.
  unfold classify. destruct meth; try discriminate. destruct ic; try discriminate.
  intros H k. cbn [re_run].
  assert (E : existsb (m_here true false p) (suffixes k) =
              existsb (m_here true false (match p with RDotStar :: r => r | _ => p end)) (suffixes k)).
  { destruct p as [|[c| |] r]; try reflexivity. apply search_dotstar. }
  rewrite E. clear E.
  destruct (lits_of (match p with RDotStar :: r => r | _ => p end)) as [[l e]|] eqn:L; [|discriminate].
  destruct e; injection H as <-; cbn [eval_meaning].
  - rewrite (existsb_ext_c _ _ _ (fun s => m_here_lits_end _ l s L)).
    rewrite existsb_orb_c, !ends_with_lower. reflexivity.
  - rewrite (existsb_ext_c _ _ _ (fun s => m_here_lits _ l s L)).
    rewrite contains_lower. reflexivity.
Qed.
