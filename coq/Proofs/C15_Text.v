(* C15 - text: Python str order (code points), UTF-8, and the 8-byte prefix encoding
   string_to_int64.  Main result: string_to_int64 is monotone from the code point order to Z,
   which is what makes text minimum / maximum additive. *)
From Coq Require Import List ZArith NArith Bool Lia.
From Orso Require Import Gen.C15_Profiler Model.C15 Proofs.C15.
Import ListNotations.
Open Scope Z_scope.

Ltac Zify.zify_post_hook ::= Z.to_euclidean_division_equations.

(* ---------- the order on lists of N ---------- *)
Lemma text_eqb_eq a : forall b, text_eqb a b = true <-> a = b.
Proof.
  induction a as [|x a IH]; intros [|y b]; cbn [text_eqb]; try (split; [discriminate|discriminate]); [tauto|].
  rewrite andb_true_iff, N.eqb_eq, IH. split; [intros [-> ->]; reflexivity|intro H; inversion H; auto].
Qed.

Lemma lex_leb_cons x r y s :
  lex_leb (x :: r) (y :: s) = true <-> (x < y)%N \/ (x = y /\ lex_leb r s = true).
Proof.
  cbn [lex_leb]. destruct (N.ltb_spec x y) as [H|H]; [split; auto|].
  destruct (N.eqb_spec x y) as [He|He].
  - split; [auto|]. intros [Hl|[_ Hr]]; [lia|assumption].
  - split; [discriminate|]. intros [Hl|[Hl _]]; lia.
Qed.

Lemma lex_leb_total a : forall b, lex_leb a b = true \/ lex_leb b a = true.
Proof.
  induction a as [|x a IH]; intros [|y b]; cbn [lex_leb]; auto.
  destruct (N.ltb_spec x y), (N.ltb_spec y x); auto; try lia.
  assert (x = y) by lia. subst. rewrite N.eqb_refl. apply IH.
Qed.

Lemma lex_leb_trans a : forall b c, lex_leb a b = true -> lex_leb b c = true -> lex_leb a c = true.
Proof.
  induction a as [|x a IH]; intros b c Hab Hbc; [reflexivity|].
  destruct b as [|y b]; [discriminate|]. destruct c as [|z c]; [discriminate|].
  apply lex_leb_cons in Hab, Hbc. apply lex_leb_cons.
  destruct Hab as [Hab|[-> Hab]], Hbc as [Hbc|[-> Hbc]]; try (left; lia).
  right. split; [reflexivity|]. eapply IH; eassumption.
Qed.

Lemma lex_leb_antisym a : forall b, lex_leb a b = true -> lex_leb b a = true -> a = b.
Proof.
  induction a as [|x a IH]; intros [|y b] Hab Hba; try reflexivity; try discriminate.
  apply lex_leb_cons in Hab, Hba.
  destruct Hab as [Hab|[-> Hab]], Hba as [Hba|[Hxy Hba]]; try lia.
  f_equal. now apply IH.
Qed.

Lemma text_total_order : total_order lex_leb text_eqb.
Proof.
  repeat split.
  - apply text_eqb_eq.
  - apply text_eqb_eq.
  - apply lex_leb_total.
  - apply lex_leb_trans.
  - apply lex_leb_antisym.
Qed.

(* ---------- bytes -> integer ---------- *)
Definition bytes (l : list N) : Prop := Forall (fun b => (b < 256)%N) l.

Definition be_step (acc : Z) (b : N) : Z := acc * 256 + Z.of_N b.

(* bytes[:n].ljust(n, 0), as a recursion on n *)
Fixpoint padf (n : nat) (r : list N) : list N :=
  match n with
  | O => []
  | S n' => match r with
            | [] => 0%N :: padf n' []
            | x :: r' => x :: padf n' r'
            end
  end.

Lemma pad_prefix_padf n : forall r m, (n <= m)%nat -> firstn n (r ++ repeat 0%N m) = padf n r.
Proof.
  induction n as [|n IH]; intros r m Hm; [reflexivity|].
  destruct r as [|x r]; cbn [app padf].
  - destruct m as [|m]; [lia|]. cbn [repeat firstn]. f_equal.
    rewrite <- (IH [] m) by lia. reflexivity.
  - cbn [firstn]. f_equal. apply IH. lia.
Qed.

Lemma pad_prefix_eq n r : pad_prefix n r = padf n r.
Proof. unfold pad_prefix. now apply pad_prefix_padf. Qed.

Lemma be_strict n : forall a b acc_a acc_b,
  bytes a -> bytes b -> acc_a < acc_b ->
  fold_left be_step (padf n a) acc_a < fold_left be_step (padf n b) acc_b.
Proof.
  induction n as [|n IH]; intros a b acc_a acc_b Ha Hb Hacc; [exact Hacc|].
  destruct a as [|x a], b as [|y b]; cbn [padf fold_left]; apply IH;
    try (inversion Ha; subst); try (inversion Hb; subst); try assumption; try constructor;
    unfold be_step; lia.
Qed.

Lemma be_mono n : forall a b acc,
  bytes a -> bytes b -> lex_leb a b = true ->
  fold_left be_step (padf n a) acc <= fold_left be_step (padf n b) acc.
Proof.
  induction n as [|n IH]; intros a b acc Ha Hb Hle; [reflexivity|].
  destruct a as [|x a], b as [|y b]; cbn [padf fold_left].
  - apply IH; auto.
  - inversion Hb; subst. destruct (N.eq_dec y 0) as [->|Hy].
    + apply IH; auto.
    + apply Z.lt_le_incl. apply be_strict; auto. unfold be_step. lia.
  - discriminate.
  - inversion Ha; inversion Hb; subst. apply lex_leb_cons in Hle. destruct Hle as [Hlt|[-> Hle]].
    + apply Z.lt_le_incl. apply be_strict; auto. unfold be_step. lia.
    + apply IH; auto.
Qed.

Lemma be_int_mono n a b :
  bytes a -> bytes b -> lex_leb a b = true ->
  be_int (pad_prefix n a) <= be_int (pad_prefix n b).
Proof. intros. unfold be_int. rewrite !pad_prefix_eq. now apply be_mono. Qed.

(* the prefix encoding is monotone for the byte order *)
Lemma bytes_to_int64_mono a b :
  bytes a -> bytes b -> lex_leb a b = true -> bytes_to_int64 a <= bytes_to_int64 b.
Proof.
  intros Ha Hb Hle. unfold bytes_to_int64.
  pose proof (be_int_mono SIXTY_FOUR_BITS a b Ha Hb Hle) as H.
  destruct (Z.leb_spec (be_int (pad_prefix SIXTY_FOUR_BITS a)) MAX_INT64),
           (Z.leb_spec (be_int (pad_prefix SIXTY_FOUR_BITS b)) MAX_INT64); lia.
Qed.

(* ---------- UTF-8 ---------- *)
Definition valid_cp (c : N) : Prop := (c < 1114112)%N.          (* 0x110000 *)
Definition valid_text (s : list N) : Prop := Forall valid_cp s.

Lemma utf8_cp_bytes c : valid_cp c -> bytes (utf8_cp c).
Proof.
  unfold valid_cp, utf8_cp, bytes. intro Hc.
  destruct (N.ltb_spec c 128); [repeat constructor; lia|].
  destruct (N.ltb_spec c 2048); [repeat constructor; lia|].
  destruct (N.ltb_spec c 65536); repeat constructor; lia.
Qed.

Lemma utf8_bytes s : valid_text s -> bytes (utf8 s).
Proof.
  unfold utf8, bytes. induction 1 as [|c s Hc Hs IH]; [constructor|].
  cbn [flat_map]. apply Forall_app. split; [now apply utf8_cp_bytes|exact IH].
Qed.

(* u is below v at a position both have: a strict difference that no continuation can undo *)
Fixpoint strict_lt (a b : list N) : bool :=
  match a, b with
  | x :: r, y :: s => if (x <? y)%N then true else if (x =? y)%N then strict_lt r s else false
  | _, _ => false
  end.

Lemma strict_lt_app u : forall v r1 r2, strict_lt u v = true -> lex_leb (u ++ r1) (v ++ r2) = true.
Proof.
  induction u as [|x u IH]; intros [|y v] r1 r2 H; try discriminate.
  cbn [strict_lt] in H. cbn [app lex_leb].
  destruct (x <? y)%N; [reflexivity|]. destruct (x =? y)%N; [now apply IH|discriminate].
Qed.

Lemma lex_leb_app_same u : forall r1 r2, lex_leb (u ++ r1) (u ++ r2) = lex_leb r1 r2.
Proof.
  induction u as [|x u IH]; intros r1 r2; [reflexivity|].
  cbn [app lex_leb]. rewrite N.ltb_irrefl, N.eqb_refl. apply IH.
Qed.

(* UTF-8 keeps the order of code points *)
Lemma utf8_cp_strict a b : valid_cp b -> (a < b)%N -> strict_lt (utf8_cp a) (utf8_cp b) = true.
Proof.
  unfold valid_cp, utf8_cp. intros Hb Hab.
  destruct (N.ltb_spec a 128); destruct (N.ltb_spec b 128); try lia;
  [cbn [strict_lt]; apply N.ltb_lt in Hab; now rewrite Hab|..];
  destruct (N.ltb_spec a 2048); destruct (N.ltb_spec b 2048); try lia;
  try (destruct (N.ltb_spec a 65536)); try (destruct (N.ltb_spec b 65536)); try lia;
  cbn [strict_lt];
  repeat match goal with
         | |- context [(?x <? ?y)%N] => destruct (N.ltb_spec x y); [reflexivity|]
         | |- context [(?x =? ?y)%N] => destruct (N.eqb_spec x y); [|exfalso; lia]
         end; try reflexivity; exfalso; lia.
Qed.

Lemma utf8_mono s : forall t, valid_text s -> valid_text t -> lex_leb s t = true -> lex_leb (utf8 s) (utf8 t) = true.
Proof.
  induction s as [|a s IH]; intros t Hs Ht Hle; [reflexivity|].
  destruct t as [|b t]; [discriminate|].
  inversion Hs; inversion Ht; subst. apply lex_leb_cons in Hle. unfold utf8. cbn [flat_map].
  destruct Hle as [Hlt|[-> Hle]].
  - apply strict_lt_app. now apply utf8_cp_strict.
  - rewrite lex_leb_app_same. now apply IH.
Qed.

(* string_to_int64 is monotone for the Python string order *)
Lemma string_to_int64_mono s t :
  valid_text s -> valid_text t -> lex_leb s t = true -> string_to_int64 s <= string_to_int64 t.
Proof.
  intros Hs Ht Hle. unfold string_to_int64.
  apply bytes_to_int64_mono; try now apply utf8_bytes. now apply utf8_mono.
Qed.

Lemma string_to_int64_range s : 0 <= string_to_int64 s <= MAX_INT64.
Proof.
  unfold string_to_int64, bytes_to_int64.
  assert (H : forall l acc, 0 <= acc -> 0 <= fold_left (fun acc b => acc * 256 + Z.of_N b) l acc).
  { induction l as [|x l IH]; intros acc Hacc; [exact Hacc|]. cbn [fold_left]. apply IH. lia. }
  specialize (H (pad_prefix SIXTY_FOUR_BITS (utf8 s)) 0 (Z.le_refl 0)). fold (be_int (pad_prefix SIXTY_FOUR_BITS (utf8 s))) in H.
  assert (0 <= MAX_INT64) by (unfold MAX_INT64; lia).
  destruct (Z.leb_spec (be_int (pad_prefix SIXTY_FOUR_BITS (utf8 s))) MAX_INT64); lia.
Qed.

(* cutting to 64 characters keeps texts valid *)
Lemma clip_valid s : valid_text s -> valid_text (clip s).
Proof.
  unfold clip, valid_text. intro H. apply Forall_forall. intros x Hx.
  rewrite Forall_forall in H. apply H. eapply In_firstn. exact Hx.
Qed.

Lemma map_clip_valid d : Forall valid_text d -> Forall valid_text (map clip d).
Proof. induction 1; cbn [map]; constructor; auto using clip_valid. Qed.

(* texts of at most 64 characters are not changed by the cut *)
Lemma clip_short s : (length s <= SIXTY_FOUR_BYTES)%nat -> clip s = s.
Proof. intro H. unfold clip. now apply firstn_all2. Qed.

Lemma map_clip_short d : Forall (fun s => (length s <= SIXTY_FOUR_BYTES)%nat) d -> map clip d = d.
Proof. induction 1 as [|s d Hs Hd IH]; [reflexivity|]. cbn [map]. now rewrite clip_short, IH. Qed.
