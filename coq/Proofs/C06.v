(* C06 - lemmas about the type-name model (coq/Model/C06.v). *)
From Coq Require Import List NArith ZArith Bool Lia ZifyBool String.
From Orso Require Import Base.C06_Defs Gen.C06_Types Gen.C06_Names Gen.C06_Env Gen.C06_Regex Model.C06.
Import ListNotations.
Open Scope N_scope.
Ltac Zify.zify_post_hook ::= Z.to_euclidean_division_equations.

(* ------------------------------------------------------------------ *)
(* The regular-expression texts in the source are the ones the recognisers were written for. *)
Lemma regex_texts_modelled :
  rx_array = txt "ARRAY<([\w\s\[\]\(\)]+)>" /\
  rx_decimal = txt "DECIMAL\((\d+),\s*(\d+)\)" /\
  rx_varchar = txt "VARCHAR\[(\d+)\]" /\
  rx_blob = txt "BLOB\[(\d+)\]" /\
  rx_method = txt "match".
Proof. repeat split; vm_compute; reflexivity. Qed.

(* ------------------------------------------------------------------ *)
(* text helpers *)
Lemma str_eqb_refl : forall a, str_eqb a a = true.
Proof. induction a as [|x a IH]; cbn [str_eqb]; [reflexivity|]. rewrite N.eqb_refl, IH. reflexivity. Qed.

Lemma str_eqb_eq : forall a b, str_eqb a b = true -> a = b.
Proof.
  induction a as [|x a IH]; intros [|y b] H; cbn [str_eqb] in H; try discriminate; [reflexivity|].
  apply andb_true_iff in H. destruct H as [H1 H2]. apply N.eqb_eq in H1. subst y.
  f_equal. apply IH, H2.
Qed.

Lemma str_eqb_neq : forall a b, str_eqb a b = false -> a <> b.
Proof. intros a b H E. subst b. rewrite str_eqb_refl in H. discriminate. Qed.

Lemma mem_In : forall x l, mem x l = true -> In x l.
Proof.
  intros x l H. unfold mem in H. apply existsb_exists in H. destruct H as [y [Hy E]].
  apply str_eqb_eq in E. subst y. exact Hy.
Qed.

Lemma In_mem : forall x l, In x l -> mem x l = true.
Proof.
  intros x l H. unfold mem. apply existsb_exists. exists x. split; [exact H|apply str_eqb_refl].
Qed.

Lemma strip_prefix_app : forall p r, strip_prefix p (p ++ r) = Some r.
Proof.
  induction p as [|a p IH]; intros r; cbn [strip_prefix app]; [destruct r; reflexivity|].
  rewrite N.eqb_refl. apply IH.
Qed.

Lemma strip_prefix_some : forall p l r, strip_prefix p l = Some r -> l = p ++ r.
Proof.
  induction p as [|a p IH]; intros l r H.
  - destruct l; cbn in H; inversion H; reflexivity.
  - destruct l as [|b l]; cbn [strip_prefix] in H; [discriminate|].
    destruct (a =? b) eqn:E; [|discriminate]. apply N.eqb_eq in E. subst b.
    cbn [app]. f_equal. apply IH, H.
Qed.

Lemma span_spec : forall p l a b, span p l = (a, b) -> l = a ++ b /\ forallb p a = true.
Proof.
  intros p. induction l as [|c l IH]; intros a b H; cbn [span] in H.
  - inversion H. split; reflexivity.
  - destruct (p c) eqn:Ec.
    + destruct (span p l) as [a' b'] eqn:Es. inversion H. subst a b.
      destruct (IH a' b' eq_refl) as [E1 E2]. subst l. split; [reflexivity|].
      cbn [forallb]. rewrite Ec, E2. reflexivity.
    + inversion H. split; reflexivity.
Qed.

Lemma span_stop : forall p l a b, span p l = (a, b) -> match b with [] => True | c :: _ => p c = false end.
Proof.
  intros p. induction l as [|c l IH]; intros a b H; cbn [span] in H.
  - inversion H. exact I.
  - destruct (p c) eqn:Ec.
    + destruct (span p l) as [a' b'] eqn:Es. inversion H. subst a b. apply (IH a' b' eq_refl).
    + inversion H. exact Ec.
Qed.

Lemma span_app : forall p a c r, forallb p a = true -> p c = false -> span p (a ++ c :: r) = (a, c :: r).
Proof.
  intros p. induction a as [|x a IH]; intros c r Ha Hc; cbn [app span].
  - rewrite Hc. reflexivity.
  - cbn [forallb] in Ha. apply andb_true_iff in Ha. destruct Ha as [Hx Ha].
    rewrite Hx, (IH c r Ha Hc). reflexivity.
Qed.

(* ------------------------------------------------------------------ *)
(* decimal rendering and int() *)
Lemma digit_val_ascii : forall X c, ascii_digit c -> digit_val X c = Some (c - 48).
Proof.
  intros X c [H1 H2]. unfold digit_val.
  replace (c <? 128) with true by lia. replace ((48 <=? c) && (c <=? 57)) with true by lia. reflexivity.
Qed.

Lemma is_digit_ascii : forall X c, ascii_digit c -> is_digit X c = true.
Proof. intros X c H. unfold is_digit. rewrite (digit_val_ascii X c H). reflexivity. Qed.

Lemma is_space_ascii_digit : forall X c, ascii_digit c -> is_space X c = false.
Proof. intros X c [H1 H2]. unfold is_space. replace (c <? 128) with true by lia. lia. Qed.

Lemma dec_single : forall X n acc,
  n / 10 = 0 ->
  exists l, (48 + n mod 10) :: acc = l ++ acc /\ l <> [] /\ Forall ascii_digit l /\
            forall a, fold_left (fun a c => 10 * a + match digit_val X c with Some v => v | None => 0 end) l a
                      = a * 10 ^ N.of_nat (List.length l) + n.
Proof.
  intros X n acc E. exists [48 + n mod 10].
  assert (Hd : ascii_digit (48 + n mod 10)).
  { unfold ascii_digit. pose proof (N.mod_lt n 10). lia. }
  split; [reflexivity|]. split; [discriminate|]. split; [constructor; [exact Hd|constructor]|].
  intros a. cbn [fold_left List.length]. rewrite (digit_val_ascii X _ Hd).
  pose proof (N.div_mod n 10). change (N.of_nat 1) with 1. rewrite N.pow_1_r. lia.
Qed.

Lemma dec_aux_spec : forall X f n acc,
  n < 2 ^ N.of_nat f ->
  exists l, dec_aux (S f) n acc = l ++ acc /\ l <> [] /\ Forall ascii_digit l /\
            forall a, fold_left (fun a c => 10 * a + match digit_val X c with Some v => v | None => 0 end) l a
                      = a * 10 ^ N.of_nat (List.length l) + n.
Proof.
  intros X. induction f as [|f IH]; intros n acc Hn; cbn [dec_aux]; destruct (n / 10 =? 0) eqn:E.
  - apply N.eqb_eq in E. apply dec_single, E.
  - apply N.eqb_neq in E. change (2 ^ N.of_nat 0) with 1 in Hn. assert (n = 0) by lia. subst n.
    exfalso. apply E. reflexivity.
  - apply N.eqb_eq in E. apply dec_single, E.
  - apply N.eqb_neq in E.
    assert (Hlt : n / 10 < 2 ^ N.of_nat f).
    { rewrite Nat2N.inj_succ, N.pow_succ_r' in Hn.
      apply N.div_lt_upper_bound; lia. }
    destruct (IH (n / 10) ((48 + n mod 10) :: acc) Hlt) as [l [E1 [E2 [E3 E4]]]].
    exists (l ++ [48 + n mod 10]).
    assert (Hd : ascii_digit (48 + n mod 10)).
    { unfold ascii_digit. pose proof (N.mod_lt n 10). lia. }
    split; [|split; [|split]].
    + change (dec_aux (S f) (n / 10) ((48 + n mod 10) :: acc) = (l ++ [48 + n mod 10]) ++ acc).
      rewrite E1, <- app_assoc. reflexivity.
    + destruct l; discriminate.
    + apply Forall_app. split; [exact E3|constructor; [exact Hd|constructor]].
    + intros a. rewrite fold_left_app, E4. cbn [fold_left]. rewrite (digit_val_ascii X _ Hd).
      rewrite app_length. cbn [List.length]. rewrite Nat.add_1_r, Nat2N.inj_succ, N.pow_succ_r'.
      pose proof (N.div_mod n 10). lia.
Qed.

Lemma dec_spec : forall X n,
  dec n <> [] /\ Forall ascii_digit (dec n) /\ int_digits X (dec n) = n.
Proof.
  intros X n. unfold dec.
  assert (Hn : n < 2 ^ N.of_nat (N.to_nat (N.size n))).
  { rewrite N2Nat.id. apply N.size_gt. }
  destruct (dec_aux_spec X _ n [] Hn) as [l [E1 [E2 [E3 E4]]]].
  rewrite E1, app_nil_r. repeat split; [exact E2|exact E3|].
  unfold int_digits. rewrite E4. lia.
Qed.

Lemma Forall_forallb : forall (p : N -> bool) (P : N -> Prop) l,
  (forall c, P c -> p c = true) -> Forall P l -> forallb p l = true.
Proof.
  intros p P l H HF. induction HF as [|c l Hc _ IH]; cbn [forallb]; [reflexivity|].
  rewrite (H c Hc), IH. reflexivity.
Qed.

Lemma dec_digits : forall X n, forallb (is_digit X) (dec n) = true.
Proof.
  intros X n. apply (Forall_forallb _ ascii_digit); [apply is_digit_ascii|].
  apply (dec_spec X n).
Qed.

Lemma dec_head : forall n, exists c r, dec n = c :: r /\ ascii_digit c.
Proof.
  intros n. destruct (dec_spec X0 n) as [H1 [H2 _]].
  destruct (dec n) as [|c r]; [contradiction|]. exists c, r. split; [reflexivity|].
  inversion H2. assumption.
Qed.

(* ------------------------------------------------------------------ *)
(* Totality: every outcome is a well-formed description or ValueError *)
Definition good (r : result descr) : Prop :=
  match r with Ok d => wfb d = true | Raise e => e = ValueError end.

Lemma good_iff : forall r, good r <-> ((exists d, r = Ok d /\ wfb d = true) \/ r = Raise ValueError).
Proof.
  intros [d|e]; cbn [good]; split.
  - intros H. left. exists d. split; [reflexivity|exact H].
  - intros [[d' [E H]]|E]; [inversion E; subst; exact H|discriminate].
  - intros H. right. subst e. reflexivity.
  - intros [[d' [E H]]|E]; [discriminate|inversion E; reflexivity].
Qed.

Lemma wfb_plain_member : forall m, mem m member_names = true -> wfb (plain (TMember m) None) = true.
Proof.
  intros m H. unfold wfb, plain. cbn [d_ty d_len d_prec d_scale d_elt onone]. rewrite H.
  destruct (str_eqb m ty_decimal); [reflexivity|].
  destruct (str_eqb m ty_varchar || str_eqb m ty_blob); [reflexivity|].
  destruct (str_eqb m ty_array); reflexivity.
Qed.

Lemma wfb_array : forall g, scalar_elt g = true -> wfb (plain (TMember ty_array) (Some g)) = true.
Proof.
  intros g H. unfold wfb, plain. cbn [d_ty d_len d_prec d_scale d_elt onone]. rewrite H.
  vm_compute. reflexivity.
Qed.

Lemma wfb_decimal : forall p s, s <= p -> p <= 38 -> wfb (mkD (TMember ty_decimal) None (Some p) (Some s) None) = true.
Proof.
  intros p s H1 H2. unfold wfb. cbn [d_ty d_len d_prec d_scale d_elt onone].
  replace (s <=? p) with true by lia. replace (p <=? 38) with true by lia.
  vm_compute. reflexivity.
Qed.

Lemma wfb_varchar : forall n, wfb (mkD (TMember ty_varchar) (Some n) None None None) = true.
Proof. intros n. vm_compute. reflexivity. Qed.

Lemma wfb_blob : forall n, wfb (mkD (TMember ty_blob) (Some n) None None None) = true.
Proof. intros n. vm_compute. reflexivity. Qed.

Definition svar_eqb (a b : svar) : bool :=
  match a, b with VParsed, VParsed => true | VTypeName, VTypeName => true | _, _ => false end.

(* a rule is safe if what it does is well-formed whenever its test held *)
Definition act_safe (ts : list stest) (a : sact) : bool :=
  match a with
  | ASet ty elt => wfb (plain (TMember ty) elt)
  | AMember v => forallb (fun t => match t with TIn v' => svar_eqb v v' | TEq _ _ => false end) ts
  | AZero => true
  | ARaise e => exn_eqb e ValueError
  end.
Definition rules_safe (rs : list srule) : bool := forallb (fun r => act_safe (fst r) (snd r)) rs.

Lemma exn_eqb_eq : forall a b, exn_eqb a b = true -> a = b.
Proof. intros [|] [|] H; try reflexivity; discriminate. Qed.

Lemma run_act_safe : forall u pn ts a,
  act_safe ts a = true -> existsb (test_holds u pn) ts = true -> good (run_act u pn a).
Proof.
  intros u pn ts a Hs Ht. destruct a as [ty elt|v| |e]; cbn [run_act act_safe good] in *.
  - exact Hs.
  - apply existsb_exists in Ht. destruct Ht as [t [Hin Hh]].
    rewrite forallb_forall in Hs. specialize (Hs t Hin).
    destruct t as [v' c|v']; [discriminate|].
    assert (v = v') by (destruct v, v'; try reflexivity; discriminate). subst v'.
    cbn [test_holds] in Hh. rewrite Hh. cbn [good]. apply wfb_plain_member, Hh.
  - reflexivity.
  - apply exn_eqb_eq, Hs.
Qed.

Lemma default_good : forall u pn, good (run_act u pn name_default).
Proof. intros u pn. reflexivity. Qed.

Lemma run_rules_good : forall rs, rules_safe rs = true -> forall u pn, good (run_rules u pn rs).
Proof.
  induction rs as [|[ts a] rs IH]; intros Hs u pn; cbn [run_rules].
  - apply default_good.
  - cbn [rules_safe forallb fst snd] in Hs. apply andb_true_iff in Hs. destruct Hs as [H1 H2].
    destruct (existsb (test_holds u pn) ts) eqn:E.
    + apply (run_act_safe u pn ts a H1 E).
    + apply IH, H2.
Qed.

Lemma name_rules_safe : rules_safe name_rules = true.
Proof. vm_compute. reflexivity. Qed.

Lemma not_blacklisted_neq : forall g,
  existsb (fun b => prefixb b g) array_blacklist = false ->
  str_eqb g ty_array = false /\ str_eqb g ty_decimal = false.
Proof.
  intros g B. split.
  - destruct (str_eqb g ty_array) eqn:E; [|reflexivity].
    apply str_eqb_eq in E. subst g. vm_compute in B. discriminate.
  - destruct (str_eqb g ty_decimal) eqn:E; [|reflexivity].
    apply str_eqb_eq in E. subst g. vm_compute in B. discriminate.
Qed.

Lemma from_array_ok : forall g d,
  from_array g = Ok d ->
  d = plain (TMember ty_array) (Some g) /\ scalar_elt g = true /\
  existsb (fun b => prefixb b g) array_blacklist = false.
Proof.
  intros g d H. unfold from_array in H.
  destruct (existsb (fun b => prefixb b g) array_blacklist) eqn:B; [discriminate|].
  destruct (mem g member_names) eqn:M; [|discriminate].
  inversion H. split; [reflexivity|]. split; [|reflexivity].
  destruct (not_blacklisted_neq g B) as [E1 E2].
  unfold scalar_elt. rewrite M, E1, E2. reflexivity.
Qed.

Lemma from_array_good : forall g, good (from_array g).
Proof.
  intros g. destruct (from_array g) as [d|e] eqn:H; cbn [good].
  - destruct (from_array_ok g d H) as [E [S _]]. subst d. apply wfb_array, S.
  - unfold from_array in H.
    destruct (existsb (fun b => prefixb b g) array_blacklist); [inversion H; reflexivity|].
    destruct (mem g member_names); [discriminate|inversion H; reflexivity].
Qed.

Lemma run_guards_exn : forall p s gs e, run_guards p s gs = Some e -> In e (map snd gs).
Proof.
  intros p s. induction gs as [|[cs e'] gs IH]; intros e H; cbn [run_guards] in H; [discriminate|].
  destruct (existsb (dcmp_holds p s) cs).
  - inversion H. left. reflexivity.
  - right. apply IH, H.
Qed.

Lemma decimal_guards_bounds : forall p s,
  run_guards p s decimal_guards = None <-> (s <= p /\ p <= 38).
Proof.
  (* independent of how the guards are spelt in the source (38 < p, p >= 39, ...): case split on
     every guard condition, arithmetic by lia *)
  intros p s. unfold decimal_guards. cbn [run_guards existsb dcmp_holds dterm_val].
  repeat match goal with |- context [if ?b then _ else _] => destruct b eqn:? end;
    (split; intros H; [try discriminate H; lia | try reflexivity; exfalso; lia]).
Qed.

Lemma decimal_guards_exn : forall p s e, run_guards p s decimal_guards = Some e -> e = ValueError.
Proof.
  intros p s e H. apply run_guards_exn in H. vm_compute in H.
  repeat (destruct H as [H|H]; [symmetry; exact H|]). contradiction.
Qed.

Lemma from_decimal_good : forall p s, good (from_decimal p s).
Proof.
  intros p s. unfold from_decimal. destruct (run_guards p s decimal_guards) as [e|] eqn:G; cbn [good].
  - apply (decimal_guards_exn p s e G).
  - apply decimal_guards_bounds in G. destruct G as [H1 H2]. apply wfb_decimal; assumption.
Qed.

Lemma py_int_raise : forall X ds e, py_int X ds = Raise e -> e = ValueError.
Proof.
  intros X ds e H. unfold py_int in H.
  destruct (max_str_digits <? N.of_nat (List.length ds)); inversion H; reflexivity.
Qed.

Lemma parse_type_raise : forall X u e, parse_type X u = Raise e -> e = ValueError.
Proof.
  intros X u e H. unfold parse_type in H.
  destruct (m_array X u); [discriminate|].
  destruct (m_decimal X u) as [[d1 d2]|].
  { destruct (py_int X d1) eqn:E1; [|inversion H; subst; apply (py_int_raise X d1 _ E1)].
    destruct (py_int X d2) eqn:E2; [discriminate|inversion H; subst; apply (py_int_raise X d2 _ E2)]. }
  destruct (m_varchar X u) as [d|].
  { destruct (py_int X d) eqn:E1; [discriminate|inversion H; subst; apply (py_int_raise X d _ E1)]. }
  destruct (m_blob X u) as [d|].
  { destruct (py_int X d) eqn:E1; [discriminate|inversion H; subst; apply (py_int_raise X d _ E1)]. }
  discriminate.
Qed.

Lemma from_upper_good : forall X u, good (from_upper X u).
Proof.
  intros X u. unfold from_upper.
  destruct (parse_type X u) as [[g|p s|n|n|pn]|e] eqn:P.
  - apply from_array_good.
  - apply from_decimal_good.
  - apply wfb_varchar.
  - apply wfb_blob.
  - apply run_rules_good, name_rules_safe.
  - cbn [good]. apply (parse_type_raise X u e P).
Qed.

Lemma total : forall (X : cext) (up : str -> str) (s : str),
  (exists d, from_name_gen X up s = Ok d /\ wfb d = true) \/ from_name_gen X up s = Raise ValueError.
Proof. intros X up s. apply good_iff. unfold from_name_gen. apply from_upper_good. Qed.

(* ------------------------------------------------------------------ *)
(* Well-formed names resolve to what they denote *)
Lemma m_digits_close_app : forall X c ds r,
  ds <> [] -> Forall ascii_digit ds -> is_digit X c = false ->
  m_digits_close X c (ds ++ c :: r) = Some (ds, r).
Proof.
  intros X c ds r Hne Hd Hc. unfold m_digits_close.
  rewrite (span_app (is_digit X) ds c r); [|apply (Forall_forallb _ ascii_digit); [apply is_digit_ascii|exact Hd]|exact Hc].
  destruct ds as [|d ds]; [contradiction|]. rewrite N.eqb_refl. reflexivity.
Qed.

Lemma span_space_digit : forall X c r, ascii_digit c -> span (is_space X) (c :: r) = ([], c :: r).
Proof. intros X c r H. cbn [span]. rewrite (is_space_ascii_digit X c H). reflexivity. Qed.

Lemma py_int_dec : forall X n, digits_ok n = true -> py_int X (dec n) = Ok n.
Proof.
  intros X n H. unfold py_int. unfold digits_ok in H.
  replace (max_str_digits <? N.of_nat (List.length (dec n))) with false by lia.
  destruct (dec_spec X n) as [_ [_ E]]. rewrite E. reflexivity.
Qed.

Lemma digits_ok_small : forall n, n <= 38 -> digits_ok n = true.
Proof.
  intros n H.
  assert (A : forallb digits_ok (map N.of_nat (seq 0 39)) = true) by (vm_compute; reflexivity).
  rewrite forallb_forall in A. apply A. apply in_map_iff. exists (N.to_nat n).
  split; [apply N2Nat.id|apply in_seq; lia].
Qed.

Lemma m_decimal_render : forall X p s,
  m_decimal X (pfx_decimal ++ dec p ++ [ch_comma] ++ dec s ++ [ch_rpar]) = Some (dec p, dec s).
Proof.
  intros X p s. unfold m_decimal. rewrite strip_prefix_app.
  destruct (dec_spec X p) as [P1 [P2 _]]. destruct (dec_spec X s) as [S1 [S2 _]].
  cbn [app]. rewrite (m_digits_close_app X ch_comma (dec p) _ P1 P2 eq_refl).
  destruct (dec_head s) as [c [r [E Hc]]].
  assert (Es : snd (span (is_space X) (dec s ++ [ch_rpar])) = dec s ++ [ch_rpar]).
  { rewrite E. cbn [app]. rewrite (span_space_digit X c _ Hc). reflexivity. }
  rewrite Es. rewrite (m_digits_close_app X ch_rpar (dec s) [] S1 S2 eq_refl). reflexivity.
Qed.

Lemma m_bracket_render : forall X pfx n r,
  m_bracket X pfx (pfx ++ dec n ++ ch_rbr :: r) = Some (dec n).
Proof.
  intros X pfx n r. unfold m_bracket. rewrite strip_prefix_app.
  destruct (dec_spec X n) as [P1 [P2 _]].
  rewrite (m_digits_close_app X ch_rbr (dec n) r P1 P2 eq_refl). reflexivity.
Qed.

Lemma parse_decimal_render : forall X p s,
  digits_ok p = true -> digits_ok s = true ->
  parse_type X (render (NDecimal p s)) = Ok (PDecimal p s).
Proof.
  intros X p s Hp Hs. unfold parse_type, render.
  assert (A : m_array X (pfx_decimal ++ dec p ++ [ch_comma] ++ dec s ++ [ch_rpar]) = None) by reflexivity.
  rewrite A, m_decimal_render, (py_int_dec X p Hp), (py_int_dec X s Hs). reflexivity.
Qed.

Lemma parse_varchar_render : forall X n,
  digits_ok n = true -> parse_type X (render (NVarchar n)) = Ok (PVarchar n).
Proof.
  intros X n Hn. unfold parse_type, render.
  assert (A : m_array X (pfx_varchar ++ dec n ++ [ch_rbr]) = None) by reflexivity.
  assert (B : m_decimal X (pfx_varchar ++ dec n ++ [ch_rbr]) = None) by reflexivity.
  rewrite A, B. unfold m_varchar. rewrite m_bracket_render, (py_int_dec X n Hn). reflexivity.
Qed.

Lemma parse_blob_render : forall X n,
  digits_ok n = true -> parse_type X (render (NBlob n)) = Ok (PBlob n).
Proof.
  intros X n Hn. unfold parse_type, render.
  assert (A : m_array X (pfx_blob ++ dec n ++ [ch_rbr]) = None) by reflexivity.
  assert (B : m_decimal X (pfx_blob ++ dec n ++ [ch_rbr]) = None) by reflexivity.
  assert (C : m_varchar X (pfx_blob ++ dec n ++ [ch_rbr]) = None) by reflexivity.
  rewrite A, B, C. unfold m_blob. rewrite m_bracket_render, (py_int_dec X n Hn). reflexivity.
Qed.

Lemma base_resolve : forall X m, In m member_names -> from_upper X m = Ok (denote (NBase m)).
Proof.
  intros X m H. unfold member_names, members in H. cbn [map fst] in H.
  repeat (destruct H as [<-|H]; [vm_compute; reflexivity|]). destruct H.
Qed.

Lemma array_resolve : forall X e, In e member_names -> scalar_elt e = true ->
  from_upper X (pfx_array ++ e ++ [ch_gt]) = Ok (plain (TMember ty_array) (Some e)).
Proof.
  intros X e H S. unfold member_names, members in H. cbn [map fst] in H.
  repeat (destruct H as [<-|H]; [vm_compute in S; try discriminate S; vm_compute; reflexivity|]).
  destruct H.
Qed.

Lemma names_resolve : forall (X : cext) (up : str -> str) (t : tname) (s : str),
  wf_name t = true -> up s = render t -> from_name_gen X up s = Ok (denote t).
Proof.
  intros X up t s W E. unfold from_name_gen. rewrite E.
  destruct t as [m|p sc|n|n|e]; cbn [wf_name] in W.
  - apply base_resolve, mem_In, W.
  - assert (Hb : sc <= p /\ p <= 38) by lia. destruct Hb as [H1 H2].
    unfold from_upper. rewrite parse_decimal_render; [|apply digits_ok_small; lia|apply digits_ok_small; lia].
    unfold from_decimal. rewrite (proj2 (decimal_guards_bounds p sc) (conj H1 H2)). reflexivity.
  - unfold from_upper. rewrite (parse_varchar_render X n W). reflexivity.
  - unfold from_upper. rewrite (parse_blob_render X n W). reflexivity.
  - cbn [render denote]. apply array_resolve; [|exact W].
    unfold scalar_elt in W. apply mem_In.
    destruct (mem e member_names); [reflexivity|discriminate].
Qed.

(* ------------------------------------------------------------------ *)
(* DECIMAL(p,s): any spelling (leading zeros, blanks after the comma, trailing text) *)
Lemma m_decimal_spelling : forall X d1 d2 ws rest,
  d1 <> [] -> Forall ascii_digit d1 -> d2 <> [] -> Forall ascii_digit d2 ->
  forallb (is_space X) ws = true ->
  m_decimal X (pfx_decimal ++ d1 ++ [ch_comma] ++ ws ++ d2 ++ [ch_rpar] ++ rest) = Some (d1, d2).
Proof.
  intros X d1 d2 ws rest N1 D1 N2 D2 W. unfold m_decimal. rewrite strip_prefix_app.
  cbn [app]. rewrite (m_digits_close_app X ch_comma d1 _ N1 D1 eq_refl).
  destruct d2 as [|c r]; [contradiction|].
  assert (Hc : ascii_digit c) by (inversion D2; assumption).
  assert (Es : snd (span (is_space X) (ws ++ (c :: r) ++ ch_rpar :: rest)) = (c :: r) ++ ch_rpar :: rest).
  { cbn [app]. rewrite (span_app (is_space X) ws c _ W (is_space_ascii_digit X c Hc)). reflexivity. }
  rewrite Es. rewrite (m_digits_close_app X ch_rpar (c :: r) rest N2 D2 eq_refl). reflexivity.
Qed.

Lemma from_decimal_cases : forall p s,
  from_decimal p s = if (s <=? p) && (p <=? 38)
                     then Ok (mkD (TMember ty_decimal) None (Some p) (Some s) None)
                     else Raise ValueError.
Proof.
  intros p s. unfold from_decimal.
  destruct (run_guards p s decimal_guards) as [e|] eqn:G.
  - rewrite (decimal_guards_exn p s e G).
    destruct ((s <=? p) && (p <=? 38)) eqn:B; [|reflexivity].
    assert (H : s <= p /\ p <= 38) by lia. apply decimal_guards_bounds in H. congruence.
  - apply decimal_guards_bounds in G. replace ((s <=? p) && (p <=? 38)) with true by lia. reflexivity.
Qed.

Lemma decimal_spelling : forall (X : cext) (up : str -> str) (s d1 d2 ws rest : str),
  d1 <> [] -> Forall ascii_digit d1 -> d2 <> [] -> Forall ascii_digit d2 ->
  forallb (is_space X) ws = true ->
  up s = pfx_decimal ++ d1 ++ [ch_comma] ++ ws ++ d2 ++ [ch_rpar] ++ rest ->
  from_name_gen X up s =
    if (max_str_digits <? N.of_nat (List.length d1)) || (max_str_digits <? N.of_nat (List.length d2))
    then Raise ValueError
    else if (int_digits X d2 <=? int_digits X d1) && (int_digits X d1 <=? 38)
         then Ok (mkD (TMember ty_decimal) None (Some (int_digits X d1)) (Some (int_digits X d2)) None)
         else Raise ValueError.
Proof.
  intros X up s d1 d2 ws rest N1 D1 N2 D2 W E. unfold from_name_gen. rewrite E.
  unfold from_upper, parse_type.
  assert (A : m_array X (pfx_decimal ++ d1 ++ [ch_comma] ++ ws ++ d2 ++ [ch_rpar] ++ rest) = None) by reflexivity.
  rewrite A, (m_decimal_spelling X d1 d2 ws rest N1 D1 N2 D2 W). unfold py_int.
  destruct (max_str_digits <? N.of_nat (List.length d1)); [reflexivity|].
  destruct (max_str_digits <? N.of_nat (List.length d2)); [reflexivity|].
  cbn [orb]. apply from_decimal_cases.
Qed.

Lemma decimal_rejected : forall (X : cext) (up : str -> str) (p sc : N) (s : str),
  ~ (sc <= p /\ p <= 38) -> up s = render (NDecimal p sc) -> from_name_gen X up s = Raise ValueError.
Proof.
  intros X up p sc s Hn E. cbn [render] in E.
  destruct (dec_spec X p) as [P1 [P2 P3]]. destruct (dec_spec X sc) as [S1 [S2 S3]].
  assert (E' : up s = pfx_decimal ++ dec p ++ [ch_comma] ++ [] ++ dec sc ++ [ch_rpar] ++ []) by exact E.
  rewrite (decimal_spelling X up s (dec p) (dec sc) [] [] P1 P2 S1 S2 eq_refl E').
  destruct (_ || _); [reflexivity|]. rewrite P3, S3.
  replace ((sc <=? p) && (p <=? 38)) with false by lia. reflexivity.
Qed.

(* ------------------------------------------------------------------ *)
(* ARRAY<...>: only a plain, non-blacklisted member name between the brackets resolves *)
Lemma array_plain_rejected : forall r,
  run_rules (pfx_array ++ r) (upper (pfx_array ++ r)) name_rules = Raise ValueError.
Proof. intros r. vm_compute. reflexivity. Qed.

Lemma no_array_rejected : forall X r,
  m_array X (pfx_array ++ r) = None -> from_upper X (pfx_array ++ r) = Raise ValueError.
Proof.
  intros X r H. unfold from_upper, parse_type. rewrite H.
  assert (B : m_decimal X (pfx_array ++ r) = None) by reflexivity.
  assert (C : m_varchar X (pfx_array ++ r) = None) by reflexivity.
  assert (D : m_blob X (pfx_array ++ r) = None) by reflexivity.
  rewrite B, C, D. apply array_plain_rejected.
Qed.

Lemma m_array_some : forall X u g,
  m_array X u = Some g ->
  exists rest, u = pfx_array ++ g ++ ch_gt :: rest /\ forallb (is_elem X) g = true /\ g <> [].
Proof.
  intros X u g H. unfold m_array in H.
  destruct (strip_prefix pfx_array u) as [r|] eqn:SP; [|discriminate].
  apply strip_prefix_some in SP. subst u.
  destruct (span (is_elem X) r) as [g' r'] eqn:Sp.
  destruct g' as [|g0 g']; [discriminate|]. destruct r' as [|c r'']; [discriminate|].
  destruct (c =? ch_gt) eqn:Ec; [|discriminate]. apply N.eqb_eq in Ec. subst c.
  inversion H. subst g. destruct (span_spec _ _ _ _ Sp) as [E F]. subst r.
  exists r''. split; [reflexivity|]. split; [exact F|discriminate].
Qed.

Lemma array_element : forall (X : cext) (up : str -> str) (s : str) (d : descr),
  prefixb pfx_array (up s) = true -> from_name_gen X up s = Ok d ->
  exists e rest,
    up s = pfx_array ++ e ++ ch_gt :: rest /\
    d = plain (TMember ty_array) (Some e) /\
    scalar_elt e = true /\
    existsb (fun b => prefixb b e) array_blacklist = false /\
    forallb (is_elem X) e = true.
Proof.
  intros X up s d Hp H. unfold from_name_gen in H. set (u := up s) in *. clearbody u.
  unfold prefixb in Hp. destruct (strip_prefix pfx_array u) as [r|] eqn:SP; [|discriminate].
  apply strip_prefix_some in SP. subst u.
  destruct (m_array X (pfx_array ++ r)) as [g|] eqn:M.
  - destruct (m_array_some X _ g M) as [rest [E [F _]]].
    assert (H' : from_array g = Ok d).
    { unfold from_upper, parse_type in H. rewrite M in H. exact H. }
    destruct (from_array_ok g d H') as [Ed [S B]].
    exists g, rest. repeat split; assumption.
  - rewrite (no_array_rejected X r M) in H. discriminate.
Qed.

Lemma app_sep_unique : forall (c : N) g e r r',
  ~ In c g -> ~ In c e -> g ++ c :: r = e ++ c :: r' -> g = e.
Proof.
  intros c. induction g as [|x g IH]; intros e r r' Hg He E.
  - destruct e as [|y e]; [reflexivity|]. cbn [app] in E. inversion E. subst y.
    exfalso. apply He. left. reflexivity.
  - destruct e as [|y e]; cbn [app] in E.
    + inversion E. subst x. exfalso. apply Hg. left. reflexivity.
    + inversion E. subst y. f_equal. apply (IH e r r').
      * intros H. apply Hg. right. exact H.
      * intros H. apply He. right. exact H.
      * assumption.
Qed.

Lemma members_no_brackets :
  forallb (fun m => forallb (fun c => negb (c =? ch_lpar) && negb (c =? ch_lbr)) m) member_names = true.
Proof. vm_compute. reflexivity. Qed.

Lemma array_bad_element_rejected : forall (X : cext) (up : str -> str) (s g rest : str),
  up s = pfx_array ++ g ++ ch_gt :: rest -> ~ In ch_gt g ->
  (mem g member_names = false \/ existsb (fun b => prefixb b g) array_blacklist = true \/
   In ch_lpar g \/ In ch_lbr g) ->
  from_name_gen X up s = Raise ValueError.
Proof.
  intros X up s g rest E Hg Hbad.
  destruct (total X up s) as [[d [H W]]|H]; [|exact H]. exfalso.
  assert (Hp : prefixb pfx_array (up s) = true).
  { rewrite E. unfold prefixb. rewrite strip_prefix_app. reflexivity. }
  destruct (array_element X up s d Hp H) as [e [rest' [E' [_ [S [B F]]]]]].
  assert (He : ~ In ch_gt e).
  { intros Hin. rewrite forallb_forall in F. specialize (F _ Hin). discriminate. }
  rewrite E in E'. apply app_inv_head in E'.
  pose proof (app_sep_unique ch_gt g e rest rest' Hg He E') as Eg. subst e.
  assert (M : mem g member_names = true).
  { unfold scalar_elt in S. destruct (mem g member_names); [reflexivity|discriminate]. }
  destruct Hbad as [Hb|[Hb|Hb]]; [congruence|congruence|].
  pose proof members_no_brackets as NB. rewrite forallb_forall in NB.
  specialize (NB g (mem_In _ _ M)). rewrite forallb_forall in NB.
  destruct Hb as [Hb|Hb]; specialize (NB _ Hb); vm_compute in NB; discriminate.
Qed.

(* ------------------------------------------------------------------ *)
(* the column and the reported type code *)
Lemma column_carries : forall d m,
  d_ty d = TMember m ->
  d_ty (column_of d) = d_ty d /\ d_len (column_of d) = d_len d /\ d_elt (column_of d) = d_elt d /\
  (forall p, d_prec d = Some p -> d_prec (column_of d) = Some p) /\
  (forall s, d_scale d = Some s -> d_scale (column_of d) = Some s) /\
  (str_eqb m ty_decimal = false -> column_of d = d).
Proof.
  intros [ty l p s e] m H. cbn [d_ty] in H. subst ty. unfold column_of. cbn [d_ty d_len d_prec d_scale d_elt].
  destruct (str_eqb m ty_decimal); cbn [d_ty d_len d_prec d_scale d_elt].
  - repeat split; try reflexivity.
    + intros p' Hp. subst p. reflexivity.
    + intros s' Hs. subst s. reflexivity.
    + discriminate.
  - repeat split; intros; assumption.
Qed.

Lemma upper_app : forall a b, upper (a ++ b) = upper a ++ upper b.
Proof. intros. unfold upper. apply map_app. Qed.

Lemma upper_digits : forall l, Forall ascii_digit l -> upper l = l.
Proof.
  intros l H. induction H as [|c l Hc _ IH]; [reflexivity|].
  cbn [upper map]. fold (upper l). rewrite IH. f_equal.
  unfold upper_char, ascii_digit in *. replace ((97 <=? c) && (c <=? 122)) with false by lia. reflexivity.
Qed.

Lemma upper_dec : forall n, upper (dec n) = dec n.
Proof. intros n. apply upper_digits. apply (dec_spec X0 n). Qed.

Lemma upper_member : forall m, In m member_names -> upper m = m.
Proof.
  intros m H. unfold member_names, members in H. cbn [map fst] in H.
  repeat (destruct H as [<-|H]; [vm_compute; reflexivity|]). destruct H.
Qed.

Lemma upper_render : forall t, wf_name t = true -> upper (render t) = render t.
Proof.
  intros [m|p s|n|n|e] W; cbn [render wf_name] in *.
  - apply upper_member, mem_In, W.
  - rewrite !upper_app, !upper_dec. reflexivity.
  - rewrite !upper_app, !upper_dec. reflexivity.
  - rewrite !upper_app, !upper_dec. reflexivity.
  - rewrite !upper_app. rewrite (upper_member e); [reflexivity|].
    apply mem_In. unfold scalar_elt in W. destruct (mem e member_names); [reflexivity|discriminate].
Qed.

Lemma from_name_render : forall t, wf_name t = true -> from_name (render t) = Ok (denote t).
Proof. intros t W. unfold from_name. apply names_resolve; [exact W|apply upper_render, W]. Qed.

Lemma from_name_base : forall m, mem m member_names = true -> from_name m = Ok (denote (NBase m)).
Proof. intros m W. exact (from_name_render (NBase m) W). Qed.

Lemma from_name_array_code : forall e, scalar_elt e = true ->
  from_name (pfx_array ++ e ++ [ch_gt]) = Ok (plain (TMember ty_array) (Some e)).
Proof. intros e W. exact (from_name_render (NArray e) W). Qed.

Lemma type_code_decimal : forall l p s e,
  type_code (mkD (TMember ty_decimal) l (Some p) (Some s) e) = render (NDecimal p s).
Proof. intros. reflexivity. Qed.

Lemma default_decimal_wf : wf_name (NDecimal default_prec (3 * default_prec / 4)) = true.
Proof. vm_compute. reflexivity. Qed.

Lemma andb_true_l2 : forall a b, a && b = true -> a = true.
Proof. intros a b H. apply andb_true_iff in H. tauto. Qed.
Lemma andb_true_r2 : forall a b, a && b = true -> b = true.
Proof. intros a b H. apply andb_true_iff in H. tauto. Qed.

Lemma typecode_roundtrip : forall d,
  wfb d = true -> proper d = true ->
  exists d', from_name (type_code (column_of d)) = Ok d' /\
             d_ty d' = d_ty (column_of d) /\
             d_prec d' = desc_prec (column_of d) /\ d_scale d' = desc_scale (column_of d) /\
             (forall e, d_elt (column_of d) = Some e -> d_elt d' = Some e).
Proof.
  intros [ty l p s e] W P. destruct ty as [m| |]; [|discriminate P|discriminate P].
  unfold proper in P. cbn [d_ty d_elt] in P. apply andb_true_iff in P. destruct P as [Pm Pe].
  apply str_eqb_eq in Pm.
  unfold wfb in W. cbn [d_ty d_len d_prec d_scale d_elt] in W.
  apply andb_true_iff in W. destruct W as [Wm W].
  destruct (str_eqb m ty_decimal) eqn:E1.
  - apply str_eqb_eq in E1. subst m.
    destruct l; [discriminate W|]. destruct e; [cbn in W; discriminate W|]. cbn [onone andb] in W.
    destruct p as [p|], s as [s|]; try discriminate W.
    + change (column_of (mkD (TMember ty_decimal) None (Some p) (Some s) None))
        with (mkD (TMember ty_decimal) None (Some p) (Some s) None).
      rewrite type_code_decimal, (from_name_render (NDecimal p s) W).
      eexists. split; [reflexivity|]. repeat split. intros e H. discriminate H.
    + change (column_of (mkD (TMember ty_decimal) None None None None))
        with (mkD (TMember ty_decimal) None (Some default_prec) (Some (3 * default_prec / 4)) None).
      rewrite type_code_decimal, (from_name_render _ default_decimal_wf).
      eexists. split; [reflexivity|]. repeat split. intros e H. discriminate H.
  - assert (Ec : column_of (mkD (TMember m) l p s e) = mkD (TMember m) l p s e).
    { unfold column_of. cbn [d_ty]. rewrite E1. reflexivity. }
    rewrite Ec. unfold type_code, desc_prec, desc_scale. cbn [d_ty d_prec d_scale d_elt value_of].
    rewrite Pm, E1.
    destruct (str_eqb m ty_varchar || str_eqb m ty_blob) eqn:E2.
    + assert (E3 : str_eqb m ty_array = false).
      { apply orb_true_iff in E2. destruct E2 as [E2|E2]; apply str_eqb_eq in E2; subst m; reflexivity. }
      rewrite E3.
      rewrite (from_name_base m Wm). cbn [denote]. rewrite E3.
      apply andb_true_l2 in W as W1. apply andb_true_l2 in W1 as W2. apply andb_true_r2 in W1 as W3.
      apply andb_true_r2 in W as W4.
      destruct p; [discriminate W2|]. destruct s; [discriminate W3|]. destruct e; [discriminate W4|].
      eexists. split; [reflexivity|]. repeat split. intros e H. discriminate H.
    + destruct (str_eqb m ty_array) eqn:E3.
      * apply andb_true_l2 in W as W1. apply andb_true_l2 in W1 as W2. apply andb_true_r2 in W1 as W3.
        apply andb_true_l2 in W2 as W5. apply andb_true_r2 in W2 as W6. apply andb_true_r2 in W as W4.
        destruct l; [discriminate W5|]. destruct p; [discriminate W6|]. destruct s; [discriminate W3|].
        apply str_eqb_eq in E3. subst m.
        destruct e as [e|].
        -- apply str_eqb_eq in Pe. rewrite Pe.
           rewrite (from_name_array_code e W4).
           eexists. split; [reflexivity|]. repeat split. intros e' H. inversion H. reflexivity.
        -- rewrite (from_name_base ty_array Wm).
           eexists. split; [reflexivity|]. repeat split. intros e' H. discriminate H.
      * apply andb_true_l2 in W as W1. apply andb_true_l2 in W1 as W2. apply andb_true_r2 in W1 as W3.
        apply andb_true_l2 in W2 as W5. apply andb_true_r2 in W2 as W6. apply andb_true_r2 in W as W4.
        destruct l; [discriminate W5|]. destruct p; [discriminate W6|]. destruct s; [discriminate W3|].
        destruct e; [discriminate W4|].
        rewrite (from_name_base m Wm). cbn [denote]. rewrite E3.
        eexists. split; [reflexivity|]. repeat split. intros e H. discriminate H.
Qed.

(* ------------------------------------------------------------------ *)
(* description-level round trip *)
Lemma name_of_spec : forall d t,
  wfb d = true -> name_of d = Some t ->
  (forall n, d_len d = Some n -> digits_ok n = true) ->
  denote t = d /\ wf_name t = true.
Proof.
  intros [ty l p s e] t W Hn Hd. destruct ty as [m| |]; [|discriminate Hn|discriminate Hn].
  unfold wfb in W. unfold name_of in Hn. cbn [d_ty d_len d_prec d_scale d_elt] in *.
  apply andb_true_iff in W. destruct W as [Wm W].
  destruct (str_eqb m ty_decimal) eqn:E1.
  { apply str_eqb_eq in E1. subst m.
    destruct l; [discriminate W|]. destruct e; [cbn in W; discriminate W|]. cbn [onone andb] in W.
    destruct p as [p|], s as [s|]; try discriminate W; inversion Hn; subst t; (split; [reflexivity|]);
      [exact W|exact Wm]. }
  destruct (str_eqb m ty_varchar) eqn:E2.
  { apply str_eqb_eq in E2. subst m. cbn [orb] in W.
    apply andb_true_l2 in W as W1. apply andb_true_l2 in W1 as W2. apply andb_true_r2 in W1 as W3.
    apply andb_true_r2 in W as W4.
    destruct p; [discriminate W2|]. destruct s; [discriminate W3|]. destruct e; [discriminate W4|].
    destruct l as [n|]; inversion Hn; subst t; (split; [reflexivity|]);
      [apply Hd; reflexivity|exact Wm]. }
  destruct (str_eqb m ty_blob) eqn:E3.
  { apply str_eqb_eq in E3. subst m. cbn [orb] in W.
    apply andb_true_l2 in W as W1. apply andb_true_l2 in W1 as W2. apply andb_true_r2 in W1 as W3.
    apply andb_true_r2 in W as W4.
    destruct p; [discriminate W2|]. destruct s; [discriminate W3|]. destruct e; [discriminate W4|].
    destruct l as [n|]; inversion Hn; subst t; (split; [reflexivity|]);
      [apply Hd; reflexivity|exact Wm]. }
  cbn [orb] in W.
  destruct (str_eqb m ty_array) eqn:E4;
  apply andb_true_l2 in W as W1; apply andb_true_l2 in W1 as W2; apply andb_true_r2 in W1 as W3;
  apply andb_true_l2 in W2 as W5; apply andb_true_r2 in W2 as W6; apply andb_true_r2 in W as W4.
  - apply str_eqb_eq in E4. subst m.
    destruct l; [discriminate W5|]. destruct p; [discriminate W6|]. destruct s; [discriminate W3|].
    destruct e as [e|]; [|discriminate Hn]. inversion Hn. subst t. split; [reflexivity|exact W4].
  - destruct l; [discriminate W5|]. destruct p; [discriminate W6|]. destruct s; [discriminate W3|].
    destruct e; [discriminate W4|]. inversion Hn. subst t. cbn [denote wf_name]. rewrite E4.
    split; [reflexivity|exact Wm].
Qed.

Lemma descr_roundtrip : forall (X : cext) (up : str -> str) (d : descr) (t : tname) (s : str),
  wfb d = true -> name_of d = Some t ->
  (forall n, d_len d = Some n -> digits_ok n = true) ->
  up s = render t -> from_name_gen X up s = Ok d.
Proof.
  intros X up d t s W Hn Hd E. destruct (name_of_spec d t W Hn Hd) as [Ed Wt].
  rewrite <- Ed. apply names_resolve; assumption.
Qed.

(* ------------------------------------------------------------------ *)
(* a column declared with a well-formed name, and its reported type code *)
Lemma declared_column : forall (X : cext) (up : str -> str) (t : tname) (s : str),
  wf_name t = true -> up s = render t -> proper (denote t) = true ->
  exists c d',
    column_model X up s = ColOk c (type_code c) (desc_prec c) (desc_scale c) (Ok d') /\
    d_ty c = d_ty (denote t) /\ d_len c = d_len (denote t) /\ d_elt c = d_elt (denote t) /\
    (forall p, d_prec (denote t) = Some p -> d_prec c = Some p) /\
    (forall sc, d_scale (denote t) = Some sc -> d_scale c = Some sc) /\
    d_ty d' = d_ty c /\ d_prec d' = desc_prec c /\ d_scale d' = desc_scale c /\
    (forall e, d_elt c = Some e -> d_elt d' = Some e).
Proof.
  intros X up t s W E P. unfold column_model. rewrite (names_resolve X up t s W E).
  assert (Wd : wfb (denote t) = true).
  { pose proof (from_upper_good X (render t)) as G. unfold from_name_gen in *.
    pose proof (names_resolve X (fun x => x) t (render t) W eq_refl) as R. unfold from_name_gen in R.
    rewrite R in G. exact G. }
  destruct (typecode_roundtrip (denote t) Wd P) as [d' [H1 [H2 [H3 [H4 H5]]]]].
  assert (Hm : exists m, d_ty (denote t) = TMember m).
  { destruct t; cbn [denote]; try (eexists; reflexivity). destruct (str_eqb m ty_array); eexists; reflexivity. }
  destruct Hm as [m Hm]. destruct (column_carries (denote t) m Hm) as [C1 [C2 [C3 [C4 [C5 _]]]]].
  exists (column_of (denote t)), d'. rewrite H1. repeat split; assumption.
Qed.
