(* C01 - lemmas, part 4: as_bytes under every interleaving of any number of threads. *)
From Coq Require Import List NArith ZArith Bool Arith Lia.
From Orso Require Import Gen.C01_RowFmt Model.C01 Model.C01_Sched Proofs.C01.
Import ListNotations.
Open Scope N_scope.

Lemma iter_succ_r {A : Type} (f : A -> A) n x : Nat.iter (S n) f x = Nat.iter n f (f x).
Proof. induction n as [|n IH]; [reflexivity|]. change (f (Nat.iter (S n) f x) = f (Nat.iter n f (f x))). f_equal. exact IH. Qed.

Lemma iter_add {A : Type} (f : A -> A) n m x : Nat.iter (n + m) f x = Nat.iter n f (Nat.iter m f x).
Proof. induction n as [|n IH]; [reflexivity|]. change (f (Nat.iter (n + m) f x) = f (Nat.iter n f (Nat.iter m f x))). f_equal. exact IH. Qed.

(* ---------- a machine whose steps neither read nor write the shared component ---------- *)
Lemma run_local {Sh Loc : Type} (step : Sh -> Loc -> Sh * Loc) (fin : Loc -> bool) (stepl : Loc -> Loc) :
  (forall sh l, step sh l = (sh, stepl l)) ->
  forall (sched : list nat) (sh : Sh) (th : nat -> Loc),
  fst (run step fin sched sh th) = sh /\
  forall i, snd (run step fin sched sh th) i
            = Nat.iter (turns i sched) (fun l => if fin l then l else stepl l) (th i).
Proof.
  intros Hstep sched. induction sched as [|j s IH]; intros sh th.
  - split; reflexivity.
  - cbn [run turns]. destruct (fin (th j)) eqn:F.
    + destruct (IH sh th) as [H1 H2]. split; [exact H1|]. intros i. rewrite H2.
      destruct (Nat.eqb j i) eqn:E; [|reflexivity].
      apply Nat.eqb_eq in E. subst i. rewrite iter_succ_r. rewrite F. reflexivity.
    + rewrite Hstep.
      destruct (IH sh (fun k => if Nat.eqb k j then stepl (th j) else th k)) as [H1 H2].
      split; [exact H1|]. intros i. rewrite H2.
      destruct (Nat.eqb j i) eqn:E.
      * apply Nat.eqb_eq in E. subst i. rewrite Nat.eqb_refl. rewrite iter_succ_r. rewrite F. reflexivity.
      * rewrite Nat.eqb_sym. rewrite E. reflexivity.
Qed.

(* ---------- Row.as_bytes step by step = encode_row ---------- *)
Definition pc_at (ts : N) (row : list mval) (k : nat) : enc_pc := Nat.iter k (enc_next ts row) EStart.

Lemma enc_next_done ts row r m : Nat.iter m (enc_next ts row) (EDone r) = EDone r.
Proof. induction m as [|m IH]; [reflexivity|]. change (enc_next ts row (Nat.iter m (enc_next ts row) (EDone r)) = EDone r). rewrite IH. reflexivity. Qed.

Lemma pc_at_steps ts row : pc_at ts row enc_steps = EDone (encode_row ts row).
Proof.
  unfold pc_at, enc_steps, encode_row. cbn [Nat.iter nat_rect enc_next].
  destruct (negb (wfb (MArr row) && (cdepth (MArr row) <=? enc_container_limit))); [reflexivity|].
  cbn [enc_next]. destruct (size_ok (Z.of_N (len (pack (MArr row))))); reflexivity.
Qed.

Lemma pc_at_ge ts row k : (enc_steps <= k)%nat -> pc_at ts row k = EDone (encode_row ts row).
Proof.
  intros H. replace k with ((k - enc_steps) + enc_steps)%nat by lia.
  unfold pc_at. rewrite iter_add. fold (pc_at ts row enc_steps). rewrite pc_at_steps. apply enc_next_done.
Qed.

Lemma pc_at_done ts row k r : pc_at ts row k = EDone r -> r = encode_row ts row.
Proof.
  intros H. destruct (le_lt_dec enc_steps k) as [G|G].
  - rewrite pc_at_ge in H by exact G. congruence.
  - unfold enc_steps in G. unfold pc_at in H. unfold encode_row.
    destruct k as [|[|[|[|[|k]]]]]; [| | | | |lia]; cbn [Nat.iter nat_rect enc_next] in H;
      try discriminate;
      destruct (negb (wfb (MArr row) && (cdepth (MArr row) <=? enc_container_limit)));
      cbn [enc_next] in H; try discriminate; try congruence;
      destruct (size_ok (Z.of_N (len (pack (MArr row))))); cbn [enc_next] in H; try discriminate; congruence.
Qed.

Definition enc_g (f : enc_frame) : enc_frame := if enc_fin f then f else enc_local f.

Lemma enc_g_iter ts row k :
  Nat.iter k enc_g (mkFrame ts row EStart) = mkFrame ts row (pc_at ts row k).
Proof.
  induction k as [|k IH]; [reflexivity|].
  change (enc_g (Nat.iter k enc_g (mkFrame ts row EStart)) = mkFrame ts row (enc_next ts row (pc_at ts row k))).
  rewrite IH. unfold enc_g, enc_fin, enc_local. cbn [ef_pc ef_ts ef_row].
  destruct (pc_at ts row k); reflexivity.
Qed.

Lemma run_enc {Sh : Type} (inp : nat -> N * list mval) (sched : list nat) (sh : Sh) :
  fst (run (@enc_step Sh) enc_fin sched sh (enc_start inp)) = sh /\
  forall i, snd (run (@enc_step Sh) enc_fin sched sh (enc_start inp)) i
            = mkFrame (fst (inp i)) (snd (inp i)) (pc_at (fst (inp i)) (snd (inp i)) (turns i sched)).
Proof.
  destruct (run_local (@enc_step Sh) enc_fin enc_local (fun _ _ => eq_refl) sched sh (enc_start inp)) as [H1 H2].
  split; [exact H1|]. intros i. rewrite H2. unfold enc_start. apply enc_g_iter.
Qed.

(* whatever the interleaving and however many threads: a thread that has returned (or raised) got exactly
   what the sequential function gives on its own row and its own clock reading *)
Theorem any_schedule {Sh : Type} (inp : nat -> N * list mval) (sched : list nat) (sh : Sh) (i : nat) (r : result bytes) :
  enc_result (snd (run (@enc_step Sh) enc_fin sched sh (enc_start inp))) i = Some r ->
  r = encode_row (fst (inp i)) (snd (inp i)).
Proof.
  unfold enc_result. destruct (run_enc inp sched sh) as [_ H]. rewrite H. cbn [ef_pc].
  destruct (pc_at _ _ _) eqn:E; try discriminate. intros [= <-]. eapply pc_at_done. exact E.
Qed.

(* a thread that was given enc_steps turns has finished *)
Theorem any_schedule_complete {Sh : Type} (inp : nat -> N * list mval) (sched : list nat) (sh : Sh) (i : nat) :
  (enc_steps <= turns i sched)%nat ->
  enc_result (snd (run (@enc_step Sh) enc_fin sched sh (enc_start inp))) i
  = Some (encode_row (fst (inp i)) (snd (inp i))).
Proof.
  intros G. unfold enc_result. destruct (run_enc inp sched sh) as [_ H]. rewrite H. cbn [ef_pc].
  rewrite pc_at_ge by exact G. reflexivity.
Qed.

Theorem any_schedule_shared_untouched {Sh : Type} (inp : nat -> N * list mval) (sched : list nat) (sh : Sh) :
  fst (run (@enc_step Sh) enc_fin sched sh (enc_start inp)) = sh.
Proof. apply run_enc. Qed.

Theorem any_schedule_roundtrip {Sh : Type} (inp : nat -> N * list mval) (sched : list nat) (sh : Sh) (i : nat) (rec : bytes) :
  enc_result (snd (run (@enc_step Sh) enc_fin sched sh (enc_start inp))) i = Some (Ok rec) ->
  decode_row rec = post (snd (inp i)) /\
  (no_datetime (snd (inp i)) = true -> decode_row rec = Ok (map CVal (snd (inp i)))).
Proof.
  intros H. apply any_schedule in H. symmetry in H. split.
  - eapply decode_encode. exact H.
  - intros Hnd. eapply roundtrip; eassumption.
Qed.
