(* C07 - executable model of the casts OrsoTypes.<T>.parse(value, **kwargs)
   (orso/types.py: OrsoTypes.parse 117-120, the per-type parsers 288-355, parse_decimal
   239-262, the tables 221-236 / 265-280 / 358-373), of DecimalFactory.__call__
   (orso/tools.py "class DecimalFactory") and of the cast of a column default
   (orso/schema.py FlatColumn.__init__, "if self.default is not None and ..."); round 2: of
   OrsoTypes.from_name on structured type names, of FlatColumn(type=<name>) ("map literals to
   OrsoTypes") and of sessions - sequences of these calls in one process.  No proofs here.

   Text is [list N] (code points), bytes are [list N] (< 256), Python integers are [Z],
   a float is its 64 IEEE-754 bits ([N]), a Decimal is sign / coefficient / exponent.
   parse_iso, int(str), str.isdigit, UTF-8 and the ISO renderers are those of Model/C08.v.
   The dispatch table, BOOLEAN_STRINGS, the class table, the literals of parse_decimal /
   DecimalFactory and the Unicode tables come from Gen/C07_Tables.v (regenerated from the
   live modules on every run).

   Library functions that are not modelled are Section variables (oracles): float(str),
   float(bytes), repr(float), orjson.loads, orjson.dumps, str() of a container.  The
   correspondence instantiates them, per case, with what CPython / orjson returned. *)
From Coq Require Import List ZArith NArith Bool.
From Orso Require Import Base.Civil Gen.C08_Tables Model.C08 Gen.C07_Tables.
Import ListNotations.
Open Scope Z_scope.

(* ------------------------------------------------------------------ outcomes *)
Inductive xn := XValue | XType | XOverflow | XAttribute | XKey | XInvalidOp | XDecOverflow | XUnmodelled | XOther.
(* XValue: ValueError and its subclasses (UnicodeError, orjson.JSONDecodeError);
   XType: TypeError (and orjson.JSONEncodeError); XInvalidOp: decimal.InvalidOperation;
   XDecOverflow: decimal.Overflow; XUnmodelled: the model does not cover this parser. *)

Inductive res (A : Type) := ROk (a : A) | RErr (e : xn).
Arguments ROk {A}. Arguments RErr {A}.

Definition rbind {A B} (r : res A) (f : A -> res B) : res B :=
  match r with ROk a => f a | RErr e => RErr e end.
Notation "'dor' x <- r ; k" := (rbind r (fun x => k)) (at level 200, x name, r at level 100, k at level 200).

Definition xn_eqb (a b : xn) : bool :=
  match a, b with
  | XValue, XValue | XType, XType | XOverflow, XOverflow | XAttribute, XAttribute | XKey, XKey
  | XInvalidOp, XInvalidOp | XDecOverflow, XDecOverflow | XUnmodelled, XUnmodelled | XOther, XOther => true
  | _, _ => false
  end.

Definition xn_of_exn (e : exn) : xn :=
  match e with
  | ValueError => XValue | TypeError => XType | OverflowError => XOverflow
  | AttributeError => XAttribute | _ => XOther
  end.
Definition of_result {A} (r : result A) : res A :=
  match r with Ok a => ROk a | Raise e => RErr (xn_of_exn e) end.

Fixpoint mapM {A B} (f : A -> res B) (l : list A) : res (list B) :=
  match l with
  | [] => ROk []
  | x :: r => dor y <- f x ; dor ys <- mapM f r ; ROk (y :: ys)
  end.

(* ------------------------------------------------------------------ values *)
Inductive dec :=
| DFin (neg : bool) (c : Z) (e : Z)            (* (-1)^neg * c * 10^e, c >= 0 *)
| DInf (neg : bool)
| DNaN (neg signaling : bool) (payload : Z).   (* payload 0 = none *)

Inductive pyval :=
| PNone
| PBool (b : bool)
| PInt (z : Z)
| PFloat (bits : N)
| PStr (s : list N)
| PBytes (b : list N)
| PDate (y m d : Z)
| PDatetime (y m d h mi s us : Z)              (* naive datetime.datetime *)
| PDecimal (d : dec)
| PList (l : list pyval)
| PTuple (l : list pyval)
| PSet (l : list pyval)                        (* in iteration order *)
| PAware (y m d h mi s us off : Z).            (* round 7: zone-aware datetime.datetime whose tzinfo is a fixed offset
                                                  (datetime.timezone) of [off] whole seconds east of UTC *)

Definition class_of (x : pyval) : pyclass :=
  match x with
  | PNone => K_NoneType | PBool _ => K_bool | PInt _ => K_int | PFloat _ => K_float
  | PStr _ => K_str | PBytes _ => K_bytes | PDate _ _ _ => K_date
  | PDatetime _ _ _ _ _ _ _ => K_datetime | PDecimal _ => K_Decimal
  | PList _ => K_list | PTuple _ => K_tuple | PSet _ => K_set
  | PAware _ _ _ _ _ _ _ _ => K_datetime
  end.

Definition pyclass_eqb (a b : pyclass) : bool :=
  match a, b with
  | K_bool, K_bool | K_bytes, K_bytes | K_date, K_date | K_datetime, K_datetime | K_time, K_time
  | K_timedelta, K_timedelta | K_dict, K_dict | K_Decimal, K_Decimal | K_float, K_float | K_int, K_int
  | K_list, K_list | K_str, K_str | K_NoneType, K_NoneType | K_tuple, K_tuple | K_set, K_set => true
  | _, _ => false
  end.

Fixpoint nlist_eqb (a b : list N) : bool :=
  match a, b with [], [] => true | x :: r, y :: s => N.eqb x y && nlist_eqb r s | _, _ => false end.

Definition dec_eqb (a b : dec) : bool :=
  match a, b with
  | DFin n c e, DFin n' c' e' => Bool.eqb n n' && (c =? c') && (e =? e')
  | DInf n, DInf n' => Bool.eqb n n'
  | DNaN n s p, DNaN n' s' p' => Bool.eqb n n' && Bool.eqb s s' && (p =? p')
  | _, _ => false
  end.

(* type-strict, bit-exact equality (1, True and 1.0 are three different values) *)
Fixpoint pyval_eqb (a b : pyval) : bool :=
  let fix list_eqb (l1 l2 : list pyval) : bool :=
    match l1, l2 with
    | [], [] => true
    | x :: r, y :: s => pyval_eqb x y && list_eqb r s
    | _, _ => false
    end in
  match a, b with
  | PNone, PNone => true
  | PBool x, PBool y => Bool.eqb x y
  | PInt x, PInt y => x =? y
  | PFloat x, PFloat y => N.eqb x y
  | PStr x, PStr y => nlist_eqb x y
  | PBytes x, PBytes y => nlist_eqb x y
  | PDate y1 m1 d1, PDate y2 m2 d2 => (y1 =? y2) && (m1 =? m2) && (d1 =? d2)
  | PDatetime y1 m1 d1 h1 i1 s1 u1, PDatetime y2 m2 d2 h2 i2 s2 u2 =>
      (y1 =? y2) && (m1 =? m2) && (d1 =? d2) && (h1 =? h2) && (i1 =? i2) && (s1 =? s2) && (u1 =? u2)
  | PDecimal x, PDecimal y => dec_eqb x y
  | PList x, PList y => list_eqb x y
  | PTuple x, PTuple y => list_eqb x y
  | PSet x, PSet y => list_eqb x y
  | PAware y1 m1 d1 h1 i1 s1 u1 o1, PAware y2 m2 d2 h2 i2 s2 u2 o2 =>
      (y1 =? y2) && (m1 =? m2) && (d1 =? d2) && (h1 =? h2) && (i1 =? i2) && (s1 =? s2) && (u1 =? u2) && (o1 =? o2)
  | _, _ => false
  end.

Definition res_eqb (a b : res pyval) : bool :=
  match a, b with ROk x, ROk y => pyval_eqb x y | RErr e, RErr f => xn_eqb e f | _, _ => false end.

(* the keyword arguments the parsers read *)
Record kwargs := mkkw { kw_length : option Z; kw_precision : option Z; kw_scale : option Z; kw_element : option otype }.
Definition nokw : kwargs := mkkw None None None None.

(* ------------------------------------------------------------------ str(int), int(...) *)
(* decimal digits of z >= 0, most significant first *)
Fixpoint digits_fuel (fuel : nat) (z : Z) (acc : list N) : list N :=
  match fuel with
  | O => acc
  | S f => let '(q, r) := Z.div_eucl z 10 in
           let acc' := Z.to_N (48 + r) :: acc in
           if q =? 0 then acc' else digits_fuel f q acc'
  end.
Definition render_nat (z : Z) : list N := digits_fuel (S (Z.to_nat (Z.log2 z))) z [].
Definition render_Z (z : Z) : list N := if z <? 0 then 45%N :: render_nat (- z) else render_nat z.
(* len(str(c)) for c >= 0 *)
Definition ndig (c : Z) : Z := zlen (render_nat c).

(* str(int): ValueError beyond the interpreter's digit limit (more than L digits, i.e.
   |z| >= 10^L; the first test is a shortcut: |z| < 2^(3L) <= 10^L) *)
Definition str_of_int (z : Z) : res (list N) :=
  if Z.log2 (Z.abs z) <? 3 * int_max_str_digits then ROk (render_Z z)
  else if 10 ^ int_max_str_digits <=? Z.abs z then RErr XValue else ROk (render_Z z).

(* int(bytes): the buffer is parsed as ASCII; any byte >= 128 is invalid *)
Definition py_int_bytes (b : list N) : res Z :=
  if existsb (fun c => (128 <=? c)%N) b then RErr XValue else of_result (py_int b).

(* ------------------------------------------------------------------ binary64 *)
Definition f_sign (b : N) : bool := N.testbit b 63.
Definition f_exp (b : N) : Z := Z.of_N (N.land (N.shiftr b 52) 2047).
Definition f_man (b : N) : Z := Z.of_N (N.land b 4503599627370495).
Definition f_is_zero (b : N) : bool := N.eqb (N.land b 9223372036854775807) 0.

Definition fl_of_bits (b : N) : fl :=
  if f_exp b =? 2047 then (if f_man b =? 0 then FInf else FNan)
  else let m := if f_exp b =? 0 then f_man b else f_man b + 4503599627370496 in
       let e := if f_exp b =? 0 then -1074 else f_exp b - 1075 in
       FFin (if f_sign b then - m else m) e.

(* float(int): round to nearest, ties to even; OverflowError beyond the largest double *)
Definition float_of_int (n : Z) : res N :=
  if n =? 0 then ROk 0%N else
  let a := Z.abs n in
  let nb := Z.log2 a + 1 in
  let '(m, nb') :=
    if nb <=? 53 then (a * 2 ^ (53 - nb), nb)
    else let sh := nb - 53 in
         let q := a / 2 ^ sh in
         let r := a mod 2 ^ sh in
         let half := 2 ^ (sh - 1) in
         let q' := if (half <? r) || ((half =? r) && Z.odd q) then q + 1 else q in
         if q' =? 2 ^ 53 then (2 ^ 52, nb + 1) else (q', nb) in
  let be := nb' + 1022 in
  if 2046 <? be then RErr XOverflow
  else ROk (Z.to_N ((if n <? 0 then 2 ^ 63 else 0) + be * 2 ^ 52 + (m - 2 ^ 52))).

(* ------------------------------------------------------------------ Decimal *)
(* c / 10^k rounded half-even, k > 0 *)
Definition round_he (c k : Z) : Z :=
  if ndig c <? k then 0 else
  let p := 10 ^ k in
  let q := c / p in
  let r := c mod p in
  if (p <? 2 * r) || ((p =? 2 * r) && Z.odd q) then q + 1 else q.

(* Decimal._fix / mpd_qfinalize under Context(prec=p): round to p digits, exponent range *)
Definition dec_fix (p : Z) (neg : bool) (c e : Z) : res dec :=
  let etiny := dec_emin - p + 1 in
  let etop := dec_emax - p + 1 in
  if c =? 0 then ROk (DFin neg 0 (Z.min (Z.max e etiny) dec_emax))
  else
    let exp_min0 := ndig c + e - p in
    if etop <? exp_min0 then RErr XDecOverflow
    else
      let exp_min := Z.max exp_min0 etiny in
      if e <? exp_min then
        let c1 := round_he c (exp_min - e) in
        let c2 := if p <? ndig c1 then c1 / 10 else c1 in
        let e2 := if p <? ndig c1 then exp_min + 1 else exp_min in
        if etop <? e2 then RErr XDecOverflow else ROk (DFin neg c2 e2)
      else ROk (DFin neg c e).

(* Decimal.quantize(Decimal(10) ** q, context=Context(prec=p)); RErr XInvalidOp = InvalidOperation signalled *)
Definition dec_quantize (p q : Z) (d : dec) : res dec :=
  match d with
  | DNaN _ true _ => RErr XInvalidOp
  | DNaN _ false _ => ROk d
  | DInf _ => RErr XInvalidOp
  | DFin neg c e =>
      let etiny := dec_emin - p + 1 in
      if (dec_emax <? q) || (q <? etiny) then RErr XInvalidOp
      else if c =? 0 then dec_fix p neg 0 q
      else if p <? ndig c + (e - q) then RErr XInvalidOp
      else
        let c1 := if q <=? e then c * 10 ^ (e - q) else round_he c (q - e) in
        if p <? ndig c1 then RErr XInvalidOp
        else if (dec_emax <? ndig c1 + q - 1) || (ndig c1 + q - 1 <? etiny) then RErr XInvalidOp
        else dec_fix p neg c1 q
  end.

(* Decimal.__str__ (capitals = 1) *)
Definition render_exp (x : Z) : list N := (if x <? 0 then 45%N else 43%N) :: render_nat (Z.abs x).
Definition dec_str (d : dec) : list N :=
  match d with
  | DInf neg => (if neg then [45%N] else []) ++ [73; 110; 102; 105; 110; 105; 116; 121]%N
  | DNaN neg sg pl =>
      (if neg then [45%N] else []) ++ (if sg then [115%N] else []) ++ [78; 97; 78]%N
      ++ (if pl =? 0 then [] else render_nat pl)
  | DFin neg c e =>
      let ds := render_nat c in
      let n := zlen ds in
      let left := e + n in
      let dot := if (e <=? 0) && (-6 <? left) then left else 1 in
      let ip := if dot <=? 0 then [48%N]
                else if n <=? dot then ds ++ repeat 48%N (Z.to_nat (dot - n))
                else firstn (Z.to_nat dot) ds in
      let fp := if dot <=? 0 then 46%N :: repeat 48%N (Z.to_nat (- dot)) ++ ds
                else if n <=? dot then []
                else 46%N :: skipn (Z.to_nat dot) ds in
      let ex := if left =? dot then [] else 69%N :: render_exp (left - dot) in
      (if neg then [45%N] else []) ++ ip ++ fp ++ ex
  end.

(* numeric_as_ascii: what _decimal makes of each character of a str; None = ConversionSyntax *)
Definition in_space (c : N) : bool := in_ranges str_space c.
Definition dec_ascii (c : N) : option N :=
  if ((0 <? c) && (c <=? 127))%N then Some c
  else if in_space c then Some 32%N
  else match decimal_value c with Some d => Some (Z.to_N (48 + d)) | None => None end.

Fixpoint map_opt {A B} (f : A -> option B) (l : list A) : option (list B) :=
  match l with
  | [] => Some []
  | x :: r => match f x, map_opt f r with Some y, Some ys => Some (y :: ys) | _, _ => None end
  end.

Definition lower_ascii (c : N) : N := if ((65 <=? c) && (c <=? 90))%N then (c + 32)%N else c.
Definition upper_ascii (c : N) : N := if ((97 <=? c) && (c <=? 122))%N then (c - 32)%N else c.

Fixpoint span_digits (l : list N) : list N * list N :=
  match l with
  | c :: r => if ascii_digit c then let '(a, b) := span_digits r in (c :: a, b) else ([], l)
  | [] => ([], [])
  end.

Fixpoint starts_with (pre l : list N) : option (list N) :=
  match pre, l with
  | [], _ => Some l
  | p :: pr, c :: r => if N.eqb p (lower_ascii c) then starts_with pr r else None
  | _, [] => None
  end.

Inductive syn := SynNum (neg : bool) (c e : Z) | SynInf (neg : bool) | SynNaN (neg sg : bool) (pl : Z).

Definition split_sign (a : list N) : bool * list N :=
  match a with
  | 43%N :: r => (false, r)
  | 45%N :: r => (true, r)
  | _ => (false, a)
  end.

Definition syn_payload (neg sg : bool) (r : list N) : option syn :=
  let '(ds, rest) := span_digits r in
  match rest with [] => Some (SynNaN neg sg (digits_value ds)) | _ => None end.

(* mpd_qset_string on the ASCII form: sign, then nan / snan / inf / infinity, or
   digits [. digits] [e [sign] digits] with at least one coefficient digit *)
Definition dec_syntax (a : list N) : option syn :=
  let '(neg, r) := split_sign a in
  match starts_with [110; 97; 110]%N r with
  | Some rest => syn_payload neg false rest
  | None =>
  match starts_with [115; 110; 97; 110]%N r with
  | Some rest => syn_payload neg true rest
  | None =>
  match starts_with [105; 110; 102]%N r with
  | Some rest =>
      match rest with
      | [] => Some (SynInf neg)
      | _ => match starts_with [105; 110; 105; 116; 121]%N rest with
             | Some [] => Some (SynInf neg)
             | _ => None
             end
      end
  | None =>
      let '(ip, r1) := span_digits r in
      let '(fp, r2) := match r1 with 46%N :: r1' => span_digits r1' | _ => ([], r1) end in
      match ip ++ fp with
      | [] => None
      | cd =>
          match r2 with
          | [] => Some (SynNum neg (digits_value cd) (- zlen fp))
          | x :: r3 =>
              if N.eqb (lower_ascii x) 101%N then
                let '(eneg, r4) := split_sign r3 in
                let '(ed, r5) := span_digits r4 in
                match ed, r5 with
                | _ :: _, [] => Some (SynNum neg (digits_value cd)
                                             ((if eneg then - digits_value ed else digits_value ed) - zlen fp))
                | _, _ => None
                end
              else None
          end
      end
  end end end.

(* Context(prec=p).create_decimal(str) *)
Definition create_decimal (p : Z) (s : list N) : res dec :=
  match map_opt dec_ascii s with
  | None => RErr XInvalidOp
  | Some a =>
      match dec_syntax a with
      | None => RErr XInvalidOp
      | Some (SynNum neg c e) => dec_fix p neg c e
      | Some (SynInf neg) => ROk (DInf neg)
      | Some (SynNaN neg sg pl) =>
          if (negb (pl =? 0)) && (p <? ndig pl) then RErr XInvalidOp else ROk (DNaN neg sg pl)
      end
  end.

(* DecimalFactory.new_factory(p, s)(text)   (orso/tools.py DecimalFactory.__call__) *)
Definition decimal_factory (p s : Z) (text : list N) : res dec :=
  if (p <? 1) || (dec_max_prec <? p) then RErr XValue else       (* decimal.Context(prec=...) *)
  let text1 := if str_isdigit text
               then text ++ 46%N :: repeat 48%N (Z.to_nat (Z.min s isdigit_pad_cap)) else text in
  dor dv <- create_decimal p text1 ;
  match dec_quantize p (- Z.min s safe_scale_cap) dv with
  | ROk r => ROk r
  | RErr XInvalidOp => ROk dv                                    (* except decimal.InvalidOperation *)
  | RErr e => RErr e
  end.

(* int(Decimal): toward zero *)
Definition int_of_dec (d : dec) : res Z :=
  match d with
  | DNaN _ _ _ => RErr XValue
  | DInf _ => RErr XOverflow
  | DFin neg c e =>
      let a := if 0 <=? e then c * 10 ^ e else if ndig c <? - e then 0 else c / 10 ^ (- e) in
      ROk (if neg then - a else a)
  end.

(* ------------------------------------------------------------------ text helpers *)
Fixpoint drop_space (s : list N) : list N :=
  match s with c :: r => if in_space c then drop_space r else s | [] => [] end.
(* str.strip() *)
Definition py_strip (s : list N) : list N := rev (drop_space (rev (drop_space s))).

Definition upper1 (c : N) : list N :=
  if (c <? 128)%N then [upper_ascii c]
  else match find (fun e => N.eqb (fst e) c) upper_special with
       | Some e => snd e
       | None => [c]        (* the true upper-casing contains a non-ASCII character; so does this *)
       end.
(* str.upper(), exact as far as comparison with an ASCII word goes *)
Definition py_upper (s : list N) : list N := flat_map upper1 s.
(* bytes.upper() *)
Definition bytes_upper (b : list N) : list N := map upper_ascii b.

Definition in_boolean_strings (is_bytes : bool) (w : list N) : bool :=
  existsb (fun e => Bool.eqb (fst e) is_bytes && nlist_eqb (snd e) w) boolean_strings.

(* str.encode("utf-8"): lone surrogates cannot be encoded *)
Definition utf8_encode_strict (s : list N) : res (list N) :=
  if forallb scalar s then ROk (utf8_encode s) else RErr XValue.
Definition utf8_decode_strict (b : list N) : res (list N) :=
  match utf8_decode b with Some s => ROk s | None => RErr XValue end.

(* x[:n] after "if n:" *)
Definition py_prefix {A} (n : option Z) (l : list A) : list A :=
  match n with
  | None => l
  | Some n => if n =? 0 then l
              else if n <? 0 then firstn (Z.to_nat (zlen l + n)) l
              else firstn (Z.to_nat n) l
  end.

Definition d6 (n : Z) : list N :=
  [dig (n / 100000); dig ((n / 10000) mod 10); dig ((n / 1000) mod 10); dig ((n / 100) mod 10); dig ((n / 10) mod 10); dig (n mod 10)].
(* str(datetime.datetime) *)
Definition render_datetime (y m d h mi s us : Z) : list N :=
  render_date y m d ++ [cSp] ++ d2 h ++ [cColon] ++ d2 mi ++ [cColon] ++ d2 s
  ++ (if us =? 0 then [] else cDot :: d6 us).

(* the UTC offset as datetime.isoformat prints it: sign, hours, minutes, seconds only when not zero *)
Definition render_offset (off : Z) : list N :=
  let a := Z.abs off in
  (if off <? 0 then 45%N else 43%N) :: d2 (a / 3600) ++ [cColon] ++ d2 ((a / 60) mod 60)
  ++ (if a mod 60 =? 0 then [] else cColon :: d2 (a mod 60)).
(* str(datetime.datetime) of a zone-aware value *)
Definition render_aware (y m d h mi s us off : Z) : list N :=
  render_datetime y m d h mi s us ++ render_offset off.

Definition to_c08 (x : pyval) : value :=
  match x with
  | PInt z => VInt z
  | PFloat f => VFloat (fl_of_bits f)
  | PStr s => VStr s
  | PBytes b => VBytes b
  | PDate y m d => VDate y m d
  | PDatetime y m d h mi s us => VDatetime y m d h mi s us
  | PAware y m d h mi s us _ => VDatetime y m d h mi s us     (* type(x) is datetime.datetime, naive or aware *)
  | _ => VOther                      (* bool (type(x) is not int), Decimal, containers *)
  end.

(* ------------------------------------------------------------------ type names *)
(* A column type name as OrsoTypes.from_name reads it (orso/types.py from_name / _parse_type):
   a member name, VARCHAR[n], BLOB[n], DECIMAL(p,s) or ARRAY<member>.  The text of the name is
   produced by the harness from this structure (upper or lower case); the regular expressions
   of _parse_type are not modelled. *)
Inductive tname :=
| TNPlain (t : otype)
| TNVarchar (n : Z)
| TNBlob (n : Z)
| TNDecimal (p s : Z)
| TNArray (et : otype).

(* OrsoTypes.from_name(name) = (type, length, precision, scale, element_type); ValueError for a
   DECIMAL outside 0 <= s <= p <= max (regenerated) and for a forbidden element type (generated
   from the prefixes from_name rejects); the bare name ARRAY has VARCHAR elements *)
Definition is_array (t : otype) : bool := match t with T_ARRAY => true | _ => false end.
Definition from_name (n : tname) : res (otype * kwargs) :=
  match n with
  | TNPlain t => ROk (t, if is_array t then mkkw None None None (Some T_VARCHAR) else nokw)
  | TNVarchar n => ROk (T_VARCHAR, mkkw (Some n) None None None)
  | TNBlob n => ROk (T_BLOB, mkkw (Some n) None None None)
  | TNDecimal p s =>
      if (p <? 0) || (name_max_precision <? p) || (s <? 0) || (name_max_scale <? s) || (p <? s) then RErr XValue
      else ROk (T_DECIMAL, mkkw None (Some p) (Some s) None)
  | TNArray et => if array_element_forbidden et then RErr XValue else ROk (T_ARRAY, mkkw None None None (Some et))
  end.

Definition orelse {A} (a b : option A) : option A := match a with Some _ => a | None => b end.
(* FlatColumn.__init__: "if self.length is None: self.length = _length" etc. - what the
   constructor was given wins, what the name says fills the rest *)
Definition merge_kw (k kn : kwargs) : kwargs :=
  mkkw (orelse (kw_length k) (kw_length kn)) (orelse (kw_precision k) (kw_precision kn))
       (orelse (kw_scale k) (kw_scale kn)) (orelse (kw_element k) (kw_element kn)).

(* one operation of a session (a sequence of calls in one process) and what it returns *)
Inductive op :=
| OResolve (n : tname)                                   (* OrsoTypes.from_name(name) *)
| ODeclare (n : tname) (k : kwargs) (x : pyval)          (* FlatColumn(type=name, **k, default=x).default *)
| OCast (col : bool) (t : otype) (k : kwargs) (x : pyval). (* FlatColumn(type=t, **k, default=x).default / t.parse(x, **k) *)
Inductive outcome := OutName (r : res (otype * kwargs)) | OutVal (r : res pyval).

(* ------------------------------------------------------------------ the parsers *)
Section Parse.
Variable float_of_text : list N -> res N.        (* float(s), s a str *)
Variable float_of_bytes : list N -> res N.       (* float(b), b bytes *)
Variable repr_float : N -> list N.               (* repr(x) = str(x) of a float *)
Variable json_loads : bool -> list N -> res pyval.   (* orjson.loads of a str (false) / of bytes (true) *)
Variable json_dumps : pyval -> res (list N).     (* orjson.dumps of a list / tuple / set *)
Variable str_container : pyval -> list N.        (* str(x) of a list / tuple / set *)

(* str(x) *)
Definition py_str (x : pyval) : res (list N) :=
  match x with
  | PNone => ROk [78; 111; 110; 101]%N
  | PBool true => ROk [84; 114; 117; 101]%N
  | PBool false => ROk [70; 97; 108; 115; 101]%N
  | PInt z => str_of_int z
  | PFloat f => ROk (repr_float f)
  | PStr s => ROk s
  | PDate y m d => ROk (render_date y m d)
  | PDatetime y m d h mi s us => ROk (render_datetime y m d h mi s us)
  | PAware y m d h mi s us off => ROk (render_aware y m d h mi s us off)
  | PDecimal d => ROk (dec_str d)
  | PBytes _ | PList _ | PTuple _ | PSet _ => ROk (str_container x)
  end.

(* parse_boolean: (x if isinstance(x, (bytes, str)) else str(x)).upper() in BOOLEAN_STRINGS *)
Definition parse_boolean (x : pyval) : res pyval :=
  match x with
  | PBytes b => ROk (PBool (in_boolean_strings true (bytes_upper b)))
  | _ => dor s <- py_str x ; ROk (PBool (in_boolean_strings false (py_upper s)))
  end.

Definition is_container (x : pyval) : bool :=
  match x with PList _ | PTuple _ | PSet _ => true | _ => false end.

(* parse_bytes *)
Definition parse_bytes (k : kwargs) (x : pyval) : res pyval :=
  dor v <- (if is_container x then json_dumps x
         else match x with
              | PBytes b => ROk b
              | _ => dor s <- py_str x ; utf8_encode_strict s
              end) ;
  ROk (PBytes (py_prefix (kw_length k) v)).

(* parse_varchar *)
Definition parse_varchar (k : kwargs) (x : pyval) : res pyval :=
  dor v <- (match x with PBytes b => utf8_decode_strict b | _ => py_str x end) ;
  ROk (PStr (py_prefix (kw_length k) v)).

(* parse_integer: int(x) *)
Definition parse_integer (x : pyval) : res pyval :=
  dor z <- (match x with
         | PBool b => ROk (if b then 1 else 0)
         | PInt z => ROk z
         | PFloat f => of_result (int_of_float (fl_of_bits f))
         | PStr s => of_result (py_int s)
         | PBytes b => py_int_bytes b
         | PDecimal d => int_of_dec d
         | _ => RErr XType
         end) ;
  ROk (PInt z).

(* parse_double: float(x) *)
Definition parse_double (x : pyval) : res pyval :=
  dor f <- (match x with
         | PBool b => ROk (if b then 4607182418800017408%N else 0%N)
         | PInt z => float_of_int z
         | PFloat f => ROk f
         | PStr s => float_of_text s
         | PBytes b => float_of_bytes b
         | PDecimal (DNaN _ true _) => RErr XValue
         | PDecimal (DNaN neg false _) => float_of_text ((if neg then [45%N] else []) ++ [110; 97; 110]%N)
         | PDecimal d => float_of_text (dec_str d)
         | _ => RErr XType
         end) ;
  ROk (PFloat f).

(* parse_date / parse_timestamp: parse_iso, None -> ValueError *)
Definition parse_date (x : pyval) : res pyval :=
  dor t <- of_result (cast_date (to_c08 x)) ; let '(y, m, d) := t in ROk (PDate y m d).
(* parse_iso on a native datetime.datetime is value.replace(microsecond=0): every other attribute
   of the value - its tzinfo in particular - is kept.  Model/C08's date-times carry no zone (its
   VDatetime stands for naive and aware values alike), so the zone of a native zone-aware input is
   carried across here; every other input (text, bytes, numbers, dates) gives a naive date-time. *)
Definition keep_zone (x r : pyval) : pyval :=
  match x, r with
  | PAware _ _ _ _ _ _ _ off, PDatetime y m d h mi s us => PAware y m d h mi s us off
  | _, _ => r
  end.
Definition parse_timestamp (x : pyval) : res pyval :=
  dor t <- of_result (cast_timestamp (to_c08 x)) ;
  let '(y, m, d, h, mi, s, us) := t in ROk (keep_zone x (PDatetime y m d h mi s us)).

(* parse_decimal *)
Definition parse_decimal (k : kwargs) (x : pyval) : res pyval :=
  let s := match kw_scale k with None => default_scale | Some z => z end in
  let p := match kw_precision k with None => default_precision | Some z => z end in
  dor text <- (match x with
            | PBool _ | PInt _ | PFloat _ | PDecimal _ => py_str x
            | PBytes b => utf8_decode_strict b
            | PStr t => ROk t
            | _ => RErr XAttribute            (* .strip() on a date / list / tuple / set *)
            end) ;
  dor d <- decimal_factory p s (py_strip text) ;
  ROk (PDecimal d).

(* iterating a value *)
Definition py_iter (x : pyval) : res (list pyval) :=
  match x with
  | PList l | PTuple l | PSet l => ROk l
  | PStr s => ROk (map (fun c => PStr [c]) s)
  | PBytes b => ROk (map (fun c => PInt (Z.of_N c)) b)
  | _ => RErr XType
  end.

(* the part of parse_array before the element type is looked at *)
Definition array_items (x : pyval) : res (list pyval) :=
  dor y <- (if is_container x then ROk x
         else match x with
              | PStr s => json_loads false s
              | PBytes b => json_loads true b
              | _ => RErr XValue            (* orjson.loads of anything else: JSONDecodeError *)
              end) ;
  py_iter y.

(* every parser except parse_array *)
Definition parse_scalar (pn : pname) (k : kwargs) (x : pyval) : res pyval :=
  match pn with
  | P_parse_boolean => parse_boolean x
  | P_parse_bytes => parse_bytes k x
  | P_parse_date => parse_date x
  | P_parse_timestamp => parse_timestamp x
  | P_parse_decimal => parse_decimal k x
  | P_parse_double => parse_double x
  | P_parse_integer => parse_integer x
  | P_parse_varchar => parse_varchar k x
  | P_parse_null => ROk PNone
  | P_parse_array => dor l <- array_items x ; ROk (PList l)     (* parse_array without an element type *)
  | P_parse_time | P_parse_interval => RErr XUnmodelled
  end.

(* element_type.parse(v): OrsoTypes.parse with no keyword arguments *)
Definition parse_elem (et : otype) (v : pyval) : res pyval :=
  match v with
  | PNone => ROk PNone
  | _ => match parser_table et with
         | None => RErr XKey
         | Some pn => parse_scalar pn nokw v
         end
  end.

(* OrsoTypes.<t>.parse(x, **k) *)
Definition parse (t : otype) (k : kwargs) (x : pyval) : res pyval :=
  match x with
  | PNone => ROk PNone
  | _ =>
      match parser_table t with
      | None => RErr XKey
      | Some P_parse_array =>
          dor l <- array_items x ;
          match kw_element k with
          | None => ROk (PList l)
          | Some et => dor l' <- mapM (parse_elem et) l ; ROk (PList l')
          end
      | Some pn => parse_scalar pn k x
      end
  end.

(* FlatColumn(type=t, length=, precision=, scale=, element_type=, default=x).default
   (orso/schema.py FlatColumn.__init__): a DECIMAL column first fills in a missing precision
   (decimal.getcontext().prec) and a missing scale (int(0.75 * precision)); then every
   default other than None of a typed column is cast with the column's own length,
   precision, scale and element type, any exception re-raised as ValueError; an untyped
   column (_MISSING_TYPE) keeps its default. *)
Definition untyped (t : otype) : bool := match t with T__MISSING_TYPE => true | _ => false end.

Definition column_kwargs (t : otype) (k : kwargs) : kwargs :=
  match t with
  | T_DECIMAL =>
      let p := match kw_precision k with Some p => p | None => context_prec end in
      let s := match kw_scale k with Some s => s | None => Z.quot (column_scale_num * p) column_scale_den end in
      mkkw (kw_length k) (Some p) (Some s) (kw_element k)
  | _ => k
  end.

Definition column_default (t : otype) (k : kwargs) (x : pyval) : res pyval :=
  match x with
  | PNone => ROk PNone
  | _ => if untyped t then ROk x
         else match parse t (column_kwargs t k) x with ROk r => ROk r | RErr _ => RErr XValue end
  end.

(* FlatColumn(type=<name>, **k, default=x).default: the name is resolved (its ValueError
   leaves the constructor), the parameters it carries fill those the constructor was not
   given, and the default is cast as for any typed column *)
Definition column_named (n : tname) (k : kwargs) (x : pyval) : res pyval :=
  match from_name n with
  | RErr _ => RErr XValue
  | ROk (t, kn) => column_default t (merge_kw k kn) x
  end.

(* A session.  Every operation is a function of its own arguments: nothing is carried from
   one operation to the next (no state), so a session is the map of its operations. *)
Definition run_op (o : op) : outcome :=
  match o with
  | OResolve n => OutName (from_name n)
  | ODeclare n k x => OutVal (column_named n k x)
  | OCast col t k x => OutVal (if col then column_default t k x else parse t k x)
  end.
Definition run_session (l : list op) : list outcome := map run_op l.

End Parse.

(* ------------------------------------------------------------------ specification side *)
(* (used by the statements of Props/C07.v; the casts above do not depend on them) *)
(* the blanks int() / float() skip in ASCII text: space, \t \n \v \f \r *)
Definition blank (c : N) : bool := ((c =? 32) || ((9 <=? c) && (c <=? 13)))%N.
(* a is a prefix of b *)
Definition prefix {A} (a b : list A) : Prop := exists c, b = a ++ c.
(* the value types the property names *)
Definition value_types : list otype :=
  [T_BOOLEAN; T_INTEGER; T_DOUBLE; T_DECIMAL; T_VARCHAR; T_BLOB; T_DATE; T_TIMESTAMP; T_ARRAY].
(* floats that repr() can denote: everything except NaNs with a non-default payload or sign *)
Definition float_canonical (f : N) : bool :=
  negb ((f_exp f =? 2047) && negb (f_man f =? 0)) || N.eqb f 9221120237041090560.
(* DECIMAL(p, s) *)
Definition dec_kw (p s : Z) : kwargs := mkkw None (Some p) (Some s) None.
(* the fraction str(datetime) prints: nothing for whole seconds, else six digits *)
Definition frac_of (us : Z) : list N := if us =? 0 then [] else d6 us.

(* ------------------------------------------------------------------ correspondence *)
(* per-case oracle tables: what CPython / orjson returned on the arguments this case needs *)
Record otab := mkotab {
  ot_ftext : list (list N * res N);
  ot_fbytes : list (list N * res N);
  ot_repr : list (N * list N);
  ot_loads : list (bool * list N * res pyval);
  ot_dumps : list (pyval * res (list N));
  ot_strc : list (pyval * list N) }.

Definition lookup {K V} (eqb : K -> K -> bool) (k : K) (l : list (K * V)) (dflt : V) : V :=
  match find (fun e => eqb (fst e) k) l with Some e => snd e | None => dflt end.

Definition o_ftext (o : otab) (s : list N) : res N := lookup nlist_eqb s (ot_ftext o) (RErr XOther).
Definition o_fbytes (o : otab) (s : list N) : res N := lookup nlist_eqb s (ot_fbytes o) (RErr XOther).
Definition o_repr (o : otab) (f : N) : list N := lookup N.eqb f (ot_repr o) [].
Definition o_loads (o : otab) (b : bool) (s : list N) : res pyval :=
  lookup (fun a c => Bool.eqb (fst a) (fst c) && nlist_eqb (snd a) (snd c)) (b, s) (ot_loads o) (RErr XOther).
Definition o_dumps (o : otab) (x : pyval) : res (list N) := lookup pyval_eqb x (ot_dumps o) (RErr XOther).
Definition o_strc (o : otab) (x : pyval) : list N := lookup pyval_eqb x (ot_strc o) [].

Definition parse_with (o : otab) := parse (o_ftext o) (o_fbytes o) (o_repr o) (o_loads o) (o_dumps o) (o_strc o).
Definition column_with (o : otab) := column_default (o_ftext o) (o_fbytes o) (o_repr o) (o_loads o) (o_dumps o) (o_strc o).
Definition str_with (o : otab) := py_str (o_repr o) (o_strc o).

(* a cast case: via FlatColumn?, type, kwargs, input, oracle tables, observed outcome *)
Definition cast_case := (bool * otype * kwargs * pyval * otab * res pyval)%type.
Definition c07_run (c : cast_case) : res pyval :=
  let '(col, t, k, x, o, _) := c in if col then column_with o t k x else parse_with o t k x.
Definition c07_check (c : cast_case) : bool :=
  let '(_, _, _, _, _, obs) := c in res_eqb (c07_run c) obs.
Definition c07_show (c : cast_case) := c07_run c.

(* The environment of a cast: the decimal context of the calling thread (decimal.getcontext()):
   precision, Emax, Emin, rounding mode (0 = ROUND_HALF_EVEN, 1 = ROUND_DOWN, 2 = ROUND_UP,
   3 = ROUND_HALF_UP), trap set (0 = none, 1 = the default three, 2 = all), clamp.
   The casts work in a context of their own (Context(prec=precision, ROUND_HALF_EVEN)) and, since
   056ea2a (F-C07-6 fixed), build the quantum from its digits, so nothing is read from the
   environment - with ONE exception, by design: a DECIMAL column declared without precision takes
   the caller's precision (FlatColumn.__init__: decimal.getcontext().prec).  [c07_run_env] is the
   cast with that precision filled in from the environment; under [default_env] it is [c07_run]. *)
Record denv := mkenv { env_prec : Z; env_emax : Z; env_emin : Z; env_round : N; env_traps : N; env_clamp : bool }.
Definition default_env : denv := mkenv context_prec dec_emax dec_emin 0 1 false.
Definition reads_env_prec (c : cast_case) : bool :=
  let '(col, t, k, _, _, _) := c in
  col && otype_eqb t T_DECIMAL && match kw_precision k with None => true | Some _ => false end.
Definition c07_run_env (e : denv) (c : cast_case) : res pyval :=
  let '(col, t, k, x, o, obs) := c in
  if reads_env_prec c
  then c07_run (col, t, mkkw (kw_length k) (Some (env_prec e)) (kw_scale k) (kw_element k), x, o, obs)
  else c07_run c.
Definition env_case := (denv * cast_case)%type.
Definition c07_check_env (ec : env_case) : bool :=
  let '(e, c) := ec in let '(_, _, _, _, _, obs) := c in res_eqb (c07_run_env e c) obs.
Definition c07_show_env (ec : env_case) := c07_run_env (fst ec) (snd ec).

(* a rendering case: the specification-side str(v) against what CPython printed *)
Definition c07_check_str (c : pyval * otab * res (list N)) : bool :=
  let '(v, o, obs) := c in
  match str_with o v, obs with
  | ROk a, ROk b => nlist_eqb a b
  | RErr e, RErr f => xn_eqb e f
  | _, _ => false
  end.
Definition c07_show_str (c : pyval * otab * res (list N)) := let '(v, o, _) := c in str_with o v.

(* a session case: the operations in order, the union of their oracle tables, the observed outcomes *)
Definition kwargs_eqb (a b : kwargs) : bool :=
  let oz (x y : option Z) := match x, y with Some p, Some q => p =? q | None, None => true | _, _ => false end in
  oz (kw_length a) (kw_length b) && oz (kw_precision a) (kw_precision b) && oz (kw_scale a) (kw_scale b)
  && match kw_element a, kw_element b with Some p, Some q => otype_eqb p q | None, None => true | _, _ => false end.
Definition outcome_eqb (a b : outcome) : bool :=
  match a, b with
  | OutVal x, OutVal y => res_eqb x y
  | OutName (ROk (t, k)), OutName (ROk (t', k')) => otype_eqb t t' && kwargs_eqb k k'
  | OutName (RErr e), OutName (RErr f) => xn_eqb e f
  | _, _ => false
  end.
Fixpoint outcomes_eqb (a b : list outcome) : bool :=
  match a, b with [], [] => true | x :: r, y :: s => outcome_eqb x y && outcomes_eqb r s | _, _ => false end.
Definition session_with (o : otab) := run_session (o_ftext o) (o_fbytes o) (o_repr o) (o_loads o) (o_dumps o) (o_strc o).
Definition session_case := (list op * otab * list outcome)%type.
Definition c07_check_session (c : session_case) : bool :=
  let '(ops, o, obs) := c in outcomes_eqb (session_with o ops) obs.
Definition c07_show_session (c : session_case) := let '(ops, o, _) := c in session_with o ops.

(* compact literals for the generated files *)
Definition kw (l p s : option Z) (e : option otype) : kwargs := mkkw l p s e.
Definition notab : otab := mkotab [] [] [] [] [] [].
Definition pdec (neg : bool) (c e : Z) : pyval := PDecimal (DFin neg c e).
(* text packed big-endian in base 2^21 (Model/C08.v unpack) *)
Definition tx (len v : N) : list N := unpack len v.
(* a big integer from 960-bit limbs, most significant first *)
Definition zcat (l : list Z) : Z := fold_left (fun a c => a * 2 ^ 960 + c) l 0.
Definition bx (len v : N) : list N :=
  fst (N.iter len (fun st => (N.land (snd st) 255 :: fst st, N.shiftr (snd st) 8)) ([], v)).
