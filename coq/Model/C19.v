(* C19 - executable models of the two memoising decorators of orso/tools.py.
   No proofs here: this file must keep running when a proof breaks.

   single_item_cache   (orso/tools.py, def wrapper inside single_item_cache)
       current_time = time.time()
       last_args, last_kwargs, last_result, last_time = cache["entry"]
       if last_args == args and last_kwargs == kwargs
          and current_time - last_time <= valid_for_seconds:  return last_result
       result = func( *args, **kwargs)
       cache["entry"] = (args, kwargs, result, current_time)
       return result
   lru_cache_with_expiry (def wrapper inside lru_cache_with_expiry)
       current_time = time.time();  key = (args, frozenset(kwargs.items()))
       expired_keys = [k for k,(ts,_) in cache.items() if current_time - ts > valid]
       for k in expired_keys: del cache[k]
       entry = cache.get(key)
       if entry is not None and current_time - entry[0] <= valid: cache.move_to_end(key); return entry[1]
       result = func(..); cache.pop(key, None); cache[key] = (current_time, result)     (pop: since 962d1ca, F-C19-3)
       if len(cache) > max_size: cache.popitem(last=False)
       return result

   Arguments are an abstract type A; two argument packs are "equal" for either cache
   exactly when their keys (key : A -> K) are equal.  For the single-item cache this is
   tuple == and dict ==; for the LRU cache the key is literally
   (args, frozenset(kwargs.items())); both are the relation "same positional values,
   same keyword/value pairs in any order" (concrete instance at the end of the file).
   The wrapped function is f : A -> N -> R, the second argument being the number of
   invocations made before this one (so an impure f, and the harness's injective f
   ("result-for", args, kwargs, call_number), are instances).  The clock is an integer;
   the validity period is [Some v] or [None] for float("inf"). *)
From Coq Require Import List ZArith NArith Bool.
Import ListNotations.

(* current_time - last_time <= valid_for_seconds ;  "expired" in the LRU sweep is the negation *)
Definition fresh (valid : option Z) (now ts : Z) : bool :=
  match valid with None => true | Some v => (now - ts <=? v)%Z end.

Section Caches.
Variables A K R : Type.
Variable key : A -> K.
Variable keqb : K -> K -> bool.
Variable f : A -> N -> R.

Inductive event := Call (a : A) | Tick (d : N).

(* what one call did: its arguments, the clock value it read, whether it was served from the
   cache (f not invoked), and the value it returned *)
Record outcome := mkO { o_arg : A; o_now : Z; o_hit : bool; o_res : R }.

(* ------------------------------------------------------------------ *)
(* single_item_cache, sequential                                        *)
(* ------------------------------------------------------------------ *)
(* cache["entry"] = (args, kwargs, result, time); the initial (None, None, None, 0) never
   compares equal to an argument tuple and is modelled as None *)
Record sic_st := mkS { s_entry : option (A * R * Z); s_now : Z; s_calls : N }.

Definition sic_init (t0 : Z) : sic_st := mkS None t0 0.

Definition sic_miss (s : sic_st) (a : A) : sic_st * outcome :=
  let r := f a (s_calls s) in
  (mkS (Some (a, r, s_now s)) (s_now s) (N.succ (s_calls s)), mkO a (s_now s) false r).

Definition sic_call (valid : option Z) (s : sic_st) (a : A) : sic_st * outcome :=
  match s_entry s with
  | Some (la, lr, lt) =>
      if keqb (key la) (key a) && fresh valid (s_now s) lt
      then (s, mkO a (s_now s) true lr)
      else sic_miss s a
  | None => sic_miss s a
  end.

Definition sic_tick (s : sic_st) (d : N) : sic_st :=
  mkS (s_entry s) (s_now s + Z.of_N d) (s_calls s).

Fixpoint sic_run (valid : option Z) (s : sic_st) (h : list event) : sic_st * list outcome :=
  match h with
  | [] => (s, [])
  | Tick d :: r => sic_run valid (sic_tick s d) r
  | Call a :: r => let '(s1, o) := sic_call valid s a in
                   let '(s2, os) := sic_run valid s1 r in (s2, o :: os)
  end.

(* ---- the specification, written over the history only ("the last call only") ---- *)
(* most recent invocation of f in a trace given newest-first *)
Fixpoint last_miss (rev_tr : list outcome) : option outcome :=
  match rev_tr with
  | [] => None
  | o :: r => if o_hit o then last_miss r else Some o
  end.

Definition is_miss (o : outcome) : bool := negb (o_hit o).
Definition count_miss (tr : list outcome) : N := N.of_nat (length (filter is_miss tr)).

Definition sic_expect (valid : option Z) (past : list outcome) (a : A) (now : Z) : outcome :=
  match last_miss (rev past) with
  | Some p =>
      if keqb (key (o_arg p)) (key a) && fresh valid now (o_now p)
      then mkO a now true (o_res p)
      else mkO a now false (f a (count_miss past))
  | None => mkO a now false (f a (count_miss past))
  end.

Fixpoint sic_spec (valid : option Z) (now : Z) (past : list outcome) (h : list event) : list outcome :=
  match h with
  | [] => []
  | Tick d :: r => sic_spec valid (now + Z.of_N d) past r
  | Call a :: r => let o := sic_expect valid past a now in
                   o :: sic_spec valid now (past ++ [o]) r
  end.

(* ------------------------------------------------------------------ *)
(* lru_cache_with_expiry, sequential                                    *)
(* ------------------------------------------------------------------ *)
(* the OrderedDict, oldest first: key -> (timestamp, result) *)
Definition items := list (K * (Z * R)).
Record lru_st := mkL { l_items : items; l_now : Z; l_calls : N }.

Definition lru_init (t0 : Z) : lru_st := mkL [] t0 0.

Definition lru_live (valid : option Z) (now : Z) (it : items) : items :=
  filter (fun e => fresh valid now (fst (snd e))) it.
Definition lru_find (k : K) (it : items) : option (K * (Z * R)) :=
  find (fun e => keqb (fst e) k) it.
Definition lru_remove (k : K) (it : items) : items :=
  filter (fun e => negb (keqb (fst e) k)) it.
(* len(cache) > max_size  ->  popitem(last=False) *)
Definition lru_trim (max_size : nat) (it : items) : items :=
  if Nat.ltb max_size (length it) then tl it else it.

(* cache[key] = v : an existing key keeps its position, a new key goes to the end *)
Definition lru_set (k : K) (v : Z * R) (it : items) : items :=
  if existsb (fun e => keqb (fst e) k) it
  then map (fun e => if keqb (fst e) k then (fst e, v) else e) it
  else it ++ [(k, v)].

(* cache.pop(key, None); cache[key] = v : the key goes to the most-recent end whether or not it was held
   (since 962d1ca; before, a held key kept its position: lru_set, finding F-C19-3) *)
Definition lru_put (k : K) (v : Z * R) (it : items) : items := lru_remove k it ++ [(k, v)].

Definition lru_call (max_size : nat) (valid : option Z) (s : lru_st) (a : A) : lru_st * outcome :=
  let now := l_now s in
  let k := key a in
  let live := lru_live valid now (l_items s) in           (* expiry sweep *)
  let miss :=                                              (* func(..); cache.pop(key, None); cache[key] = ..; trim *)
    let r := f a (l_calls s) in
    (mkL (lru_trim max_size (lru_put k (now, r) live)) now (N.succ (l_calls s)), mkO a now false r) in
  match lru_find k live with                               (* entry = cache.get(key) *)
  | Some e =>
      if fresh valid now (fst (snd e))                     (* age of the entry checked on the hit path *)
      then (mkL (lru_remove k live ++ [e]) now (l_calls s), mkO a now true (snd (snd e)))
      else miss                                            (* stale entry: recompute and overwrite *)
  | None => miss
  end.

Definition lru_tick (s : lru_st) (d : N) : lru_st :=
  mkL (l_items s) (l_now s + Z.of_N d) (l_calls s).

(* the trace also records the cache content after every call (the harness reads the real
   OrderedDict out of the wrapper's closure) *)
Fixpoint lru_run (max_size : nat) (valid : option Z) (s : lru_st) (h : list event)
  : lru_st * list (outcome * items) :=
  match h with
  | [] => (s, [])
  | Tick d :: r => lru_run max_size valid (lru_tick s d) r
  | Call a :: r => let '(s1, o) := lru_call max_size valid s a in
                   let '(s2, os) := lru_run max_size valid s1 r in (s2, (o, l_items s1) :: os)
  end.

(* history-only notions used by the LRU theorems *)
(* 1-based position in the trace of the last call whose key is k; 0 if there is none *)
Fixpoint last_use_from (k : K) (tr : list outcome) (i : nat) (acc : nat) : nat :=
  match tr with
  | [] => acc
  | o :: r => last_use_from k r (S i) (if keqb (key (o_arg o)) k then S i else acc)
  end.
Definition last_use (k : K) (tr : list outcome) : nat := last_use_from k tr 0 0.

(* most recent invocation of f for key k, in a trace given newest-first *)
Fixpoint last_miss_for (k : K) (rev_tr : list outcome) : option outcome :=
  match rev_tr with
  | [] => None
  | o :: r => if negb (o_hit o) && keqb (key (o_arg o)) k then Some o else last_miss_for k r
  end.

(* ------------------------------------------------------------------ *)
(* single_item_cache, concurrent: one atomic step per source line       *)
(* ------------------------------------------------------------------ *)
Inductive pc :=
| PTime                                        (* current_time = time.time() *)
| PRead (now : Z)                              (* last_args, ..., last_time = cache["entry"] *)
| PCmp (now : Z) (e : option (A * R * Z))      (* the three-line condition (thread-local) *)
| PRetHit (now ts : Z) (r : R)                 (* return last_result *)
| PCall (now : Z)                              (* result = func( *args, **kwargs) *)
| PWrite (now : Z) (r : R)                     (* cache["entry"] = (args, kwargs, result, current_time) *)
| PRetMiss (now : Z) (r : R)                   (* return result *)
| PDone (now : Z) (hit : option Z) (r : R).    (* returned r; hit = Some (timestamp of the entry used) *)

Record thread := mkT { t_arg : A; t_pc : pc }.

(* shared: the sequential state (entry, clock, invocation counter) + a ghost log of the
   invocations made so far: (arguments, clock value when f ran) *)
Record cstate := mkC { c_sh : sic_st; c_thr : list thread; c_log : list (A * Z) }.

Definition tstep (valid : option Z) (sh : sic_st) (log : list (A * Z)) (t : thread)
  : sic_st * list (A * Z) * thread :=
  let a := t_arg t in
  match t_pc t with
  | PTime => (sh, log, mkT a (PRead (s_now sh)))
  | PRead now => (sh, log, mkT a (PCmp now (s_entry sh)))
  | PCmp now e =>
      match e with
      | Some (la, lr, lt) =>
          if keqb (key la) (key a) && fresh valid now lt
          then (sh, log, mkT a (PRetHit now lt lr))
          else (sh, log, mkT a (PCall now))
      | None => (sh, log, mkT a (PCall now))
      end
  | PRetHit now ts r => (sh, log, mkT a (PDone now (Some ts) r))
  | PCall now =>
      (mkS (s_entry sh) (s_now sh) (N.succ (s_calls sh)), log ++ [(a, s_now sh)],
       mkT a (PWrite now (f a (s_calls sh))))
  | PWrite now r => (mkS (Some (a, r, now)) (s_now sh) (s_calls sh), log, mkT a (PRetMiss now r))
  | PRetMiss now r => (sh, log, mkT a (PDone now None r))
  | PDone _ _ _ => (sh, log, t)
  end.

Fixpoint upd {X : Type} (l : list X) (i : nat) (x : X) : list X :=
  match l, i with
  | [], _ => []
  | _ :: t, O => x :: t
  | h :: t, S j => h :: upd t j x
  end.

Inductive sched := SStep (i : nat) | STick (d : N).

Definition cstep (valid : option Z) (st : cstate) (e : sched) : cstate :=
  match e with
  | STick d => mkC (sic_tick (c_sh st) d) (c_thr st) (c_log st)
  | SStep i =>
      match nth_error (c_thr st) i with
      | Some t => let '(sh', log', t') := tstep valid (c_sh st) (c_log st) t in
                  mkC sh' (upd (c_thr st) i t') log'
      | None => st
      end
  end.

Definition crun (valid : option Z) (sch : list sched) (st : cstate) : cstate :=
  fold_left (cstep valid) sch st.

(* what a finished call returned *)
Definition returned (t : thread) : option R :=
  match t_pc t with PDone _ _ r => Some r | _ => None end.

(* ---- macro steps used to replay the scheduler's runs: the scheduler parks a thread in
   front of every line that touches shared state (clock, cache, f) and lets the
   thread-local lines that follow run with it ---- *)
Definition pc_kind (p : pc) : N :=
  match p with
  | PTime => 0 | PRead _ => 1 | PCall _ => 2 | PWrite _ _ => 3
  | PCmp _ _ | PRetHit _ _ _ | PRetMiss _ _ => 4
  | PDone _ _ _ => 5
  end%N.

Definition drain (valid : option Z) (i : nat) (st : cstate) : cstate :=
  match nth_error (c_thr st) i with
  | Some t => if N.eqb (pc_kind (t_pc t)) 4 then cstep valid st (SStep i) else st
  | None => st
  end.

Definition cmacro (valid : option Z) (st : cstate) (i : nat) : cstate :=
  drain valid i (drain valid i (cstep valid st (SStep i))).

End Caches.

Arguments Call {A}. Arguments Tick {A}.
Arguments mkO {A R}. Arguments o_arg {A R}. Arguments o_now {A R}. Arguments o_hit {A R}. Arguments o_res {A R}.
Arguments mkS {A R}. Arguments s_entry {A R}. Arguments s_now {A R}. Arguments s_calls {A R}.
Arguments sic_init {A R}. Arguments sic_miss {A R}. Arguments sic_call {A K R}. Arguments sic_tick {A R}.
Arguments sic_run {A K R}. Arguments last_miss {A R}. Arguments is_miss {A R}. Arguments count_miss {A R}.
Arguments sic_expect {A K R}. Arguments sic_spec {A K R}.
Arguments mkL {K R}. Arguments l_items {K R}. Arguments l_now {K R}. Arguments l_calls {K R}.
Arguments lru_init {K R}. Arguments lru_live {K R}. Arguments lru_find {K R}. Arguments lru_remove {K R}.
Arguments lru_trim {K R}. Arguments lru_set {K R}. Arguments lru_put {K R}. Arguments lru_call {A K R}. Arguments lru_tick {K R}. Arguments lru_run {A K R}.
Arguments last_use_from {A K R}. Arguments last_use {A K R}. Arguments last_miss_for {A K R}.
Arguments PTime {A R}. Arguments PRead {A R}. Arguments PCmp {A R}. Arguments PRetHit {A R}.
Arguments PCall {A R}. Arguments PWrite {A R}. Arguments PRetMiss {A R}. Arguments PDone {A R}.
Arguments mkT {A R}. Arguments t_arg {A R}. Arguments t_pc {A R}.
Arguments mkC {A R}. Arguments c_sh {A R}. Arguments c_thr {A R}. Arguments c_log {A R}.
Arguments tstep {A K R}. Arguments cstep {A K R}. Arguments crun {A K R}. Arguments returned {A R}.
Arguments pc_kind {A R}. Arguments drain {A K R}. Arguments cmacro {A K R}.

(* kinds of the shared-access lines of the wrapper in source order, as the model has them:
   clock read, cache read, call of f, cache write.  Gen/C19_Shape.v holds the same list
   derived from the AST of the live source; Props/C19.v states they are equal. *)
Definition sic_model_shape : list N := [0; 1; 2; 3]%N.

(* ------------------------------------------------------------------ *)
(* the wrapper as it was before commit 78920c2 (finding F-C19-1): four   *)
(* slots written one by one, each slot read on its own source line       *)
(* ------------------------------------------------------------------ *)
Section OldWrapper.
Variables P W R : Type.                (* positional tuple, keyword dict, result *)
Variable peqb : P -> P -> bool.
Variable weqb : W -> W -> bool.
Variable f : P -> W -> N -> R.

Record slots := mkSl { sl_args : option P; sl_kwargs : option W; sl_result : option R; sl_time : Z }.
Record old_sh := mkOS { os_slots : slots; os_now : Z; os_calls : N }.

Inductive opc :=
| OTime                         (* current_time = time.time() *)
| OCmpArgs (now : Z)            (* cache["last_args"] == args *)
| OCmpKw (now : Z)              (* and cache["last_kwargs"] == kwargs *)
| OCmpTime (now : Z)            (* and current_time - cache["last_time"] <= valid_for_seconds *)
| ORetRes                       (* return cache["last_result"] *)
| OCall (now : Z)               (* result = func( *args, **kwargs) *)
| OWArgs (now : Z) (r : R)      (* cache["last_args"] = args *)
| OWKw (now : Z) (r : R)        (* cache["last_kwargs"] = kwargs *)
| OWRes (now : Z) (r : R)       (* cache["last_result"] = result *)
| OWTime (now : Z) (r : R)      (* cache["last_time"] = current_time *)
| ORet (r : R)                  (* return result *)
| ODone (r : option R).         (* returned (None = Python None from an empty slot) *)

Record othread := mkOT { ot_p : P; ot_w : W; ot_pc : opc }.

Definition opt_eqb {X : Type} (eqb : X -> X -> bool) (o : option X) (x : X) : bool :=
  match o with Some y => eqb y x | None => false end.

Definition otstep (valid : option Z) (sh : old_sh) (t : othread) : old_sh * othread :=
  let c := os_slots sh in
  let go p := (sh, mkOT (ot_p t) (ot_w t) p) in
  let wr c' p := (mkOS c' (os_now sh) (os_calls sh), mkOT (ot_p t) (ot_w t) p) in
  match ot_pc t with
  | OTime => go (OCmpArgs (os_now sh))
  | OCmpArgs now => if opt_eqb peqb (sl_args c) (ot_p t) then go (OCmpKw now) else go (OCall now)
  | OCmpKw now => if opt_eqb weqb (sl_kwargs c) (ot_w t) then go (OCmpTime now) else go (OCall now)
  | OCmpTime now => if fresh valid now (sl_time c) then go ORetRes else go (OCall now)
  | ORetRes => go (ODone (sl_result c))
  | OCall now => (mkOS c (os_now sh) (N.succ (os_calls sh)),
                  mkOT (ot_p t) (ot_w t) (OWArgs now (f (ot_p t) (ot_w t) (os_calls sh))))
  | OWArgs now r => wr (mkSl (Some (ot_p t)) (sl_kwargs c) (sl_result c) (sl_time c)) (OWKw now r)
  | OWKw now r => wr (mkSl (sl_args c) (Some (ot_w t)) (sl_result c) (sl_time c)) (OWRes now r)
  | OWRes now r => wr (mkSl (sl_args c) (sl_kwargs c) (Some r) (sl_time c)) (OWTime now r)
  | OWTime now r => wr (mkSl (sl_args c) (sl_kwargs c) (sl_result c) now) (ORet r)
  | ORet r => go (ODone (Some r))
  | ODone _ => (sh, t)
  end.

Definition ocstep (valid : option Z) (st : old_sh * list othread) (e : sched) : old_sh * list othread :=
  match e with
  | STick d => (mkOS (os_slots (fst st)) (os_now (fst st) + Z.of_N d) (os_calls (fst st)), snd st)
  | SStep i =>
      match nth_error (snd st) i with
      | Some t => let '(sh', t') := otstep valid (fst st) t in (sh', upd (snd st) i t')
      | None => st
      end
  end.

Definition ocrun (valid : option Z) (sch : list sched) (st : old_sh * list othread) :=
  fold_left (ocstep valid) sch st.

Definition old_init (t0 : Z) (calls : list (P * W)) : old_sh * list othread :=
  (mkOS (mkSl None None None 0) t0 0, map (fun c => mkOT (fst c) (snd c) OTime) calls).

Definition oreturned (t : othread) : option (option R) :=
  match ot_pc t with ODone r => Some r | _ => None end.
End OldWrapper.

Arguments mkSl {P W R}. Arguments mkOS {P W R}. Arguments mkOT {P W R}.
Arguments ot_p {P W R}. Arguments ot_w {P W R}. Arguments ot_pc {P W R}.
Arguments ODone {R}. Arguments OTime {R}.
Arguments otstep {P W R}. Arguments ocstep {P W R}. Arguments ocrun {P W R}.
Arguments old_init {P W R}. Arguments oreturned {P W R}.

(* ------------------------------------------------------------------ *)
(* lru_cache_with_expiry before commit 76447ff (finding F-C19-2), concurrent: the hit path is
   if key in cache: cache.move_to_end(key); return cache[key][1].  Kept as documentation. *)
(* lru_cache_with_expiry, concurrent.  Steps are finer than source lines *)
(* (the comprehension advances one item per step), so every line-level   *)
(* schedule is one of these schedules.  CPython's OrderedDict iterator    *)
(* raises RuntimeError when the dict changed since the iterator was made; *)
(* del / move_to_end / [] on a missing key and popitem on an empty dict   *)
(* raise KeyError.  Exceptions end the call ([LDone None]).               *)
(* ------------------------------------------------------------------ *)
Module LruOld.
Section LruConc.
Variables A K R : Type.
Variable key : A -> K.
Variable keqb : K -> K -> bool.
Variable f : A -> N -> R.

Notation items := (list (K * (Z * R))).
(* version: bumped by every mutation of the OrderedDict (od_state); ls_log is a ghost log of the
   invocations made so far: (arguments, clock value when f ran) *)
Record lsh := mkLS { ls_items : items; ls_ver : N; ls_now : Z; ls_calls : N; ls_log : list (A * Z) }.

Inductive lpc :=
| LTime                                            (* current_time = time.time() *)
| LKey (now : Z)                                   (* key = (args, frozenset(kwargs.items())) *)
| LIterNew (now : Z)                               (* iter(cache.items()) *)
| LIter (now : Z) (ver : N) (pos : nat) (acc : list K)   (* one next() of that iterator *)
| LDel (now : Z) (ks : list K)                     (* for k in expired_keys: del cache[k] *)
| LCheck (now : Z)                                 (* if key in cache *)
| LMove (now : Z)                                  (* cache.move_to_end(key) *)
| LGet (now : Z)                                   (* return cache[key][1] *)
| LCall (now : Z)                                  (* result = func(..) *)
| LStore (now : Z) (r : R)                         (* cache[key] = (current_time, result) *)
| LLen (r : R)                                     (* if len(cache) > max_size *)
| LPop (r : R)                                     (* cache.popitem(last=False) *)
| LRet (r : R)                                     (* return result *)
| LDone (r : option R).                            (* Some r = returned r, None = raised *)

Record lthread := mkLT { lt_arg : A; lt_pc : lpc }.

Definition has_key (k : K) (it : items) : bool := existsb (fun e => keqb (fst e) k) it.
Definition set_item (k : K) (v : Z * R) (it : items) : items :=
  if has_key k it then map (fun e => if keqb (fst e) k then (fst e, v) else e) it
  else it ++ [(k, v)].
Definition bump (sh : lsh) (it : items) : lsh := mkLS it (N.succ (ls_ver sh)) (ls_now sh) (ls_calls sh) (ls_log sh).

Definition ltstep (max_size : nat) (valid : option Z) (sh : lsh) (t : lthread) : lsh * lthread :=
  let a := lt_arg t in
  let k := key a in
  let go p := (sh, mkLT a p) in
  match lt_pc t with
  | LTime => go (LKey (ls_now sh))
  | LKey now => go (LIterNew now)
  | LIterNew now => go (LIter now (ls_ver sh) 0 [])
  | LIter now ver pos acc =>
      if negb (N.eqb ver (ls_ver sh)) then go (LDone None)          (* mutated during iteration *)
      else match nth_error (ls_items sh) pos with
           | Some e => go (LIter now ver (S pos)
                                 (if fresh valid now (fst (snd e)) then acc else acc ++ [fst e]))
           | None => go (LDel now acc)
           end
  | LDel now ks =>
      match ks with
      | [] => go (LCheck now)
      | k' :: rest =>
          if has_key k' (ls_items sh)
          then (bump sh (filter (fun e => negb (keqb (fst e) k')) (ls_items sh)), mkLT a (LDel now rest))
          else go (LDone None)                                       (* KeyError *)
      end
  | LCheck now => if has_key k (ls_items sh) then go (LMove now) else go (LCall now)
  | LMove now =>
      match find (fun e => keqb (fst e) k) (ls_items sh) with
      | Some e => (bump sh (filter (fun e => negb (keqb (fst e) k)) (ls_items sh) ++ [e]), mkLT a (LGet now))
      | None => go (LDone None)
      end
  | LGet now =>
      match find (fun e => keqb (fst e) k) (ls_items sh) with
      | Some e => go (LDone (Some (snd (snd e))))
      | None => go (LDone None)
      end
  | LCall now => (mkLS (ls_items sh) (ls_ver sh) (ls_now sh) (N.succ (ls_calls sh)) (ls_log sh ++ [(a, ls_now sh)]),
                  mkLT a (LStore now (f a (ls_calls sh))))
  | LStore now r => (bump sh (set_item k (now, r) (ls_items sh)), mkLT a (LLen r))
  | LLen r => if Nat.ltb max_size (length (ls_items sh)) then go (LPop r) else go (LRet r)
  | LPop r =>
      match ls_items sh with
      | [] => go (LDone None)
      | _ :: rest => (bump sh rest, mkLT a (LRet r))
      end
  | LRet r => go (LDone (Some r))
  | LDone _ => (sh, t)
  end.

Definition lcstep (max_size : nat) (valid : option Z) (st : lsh * list lthread) (e : sched)
  : lsh * list lthread :=
  match e with
  | STick d => (mkLS (ls_items (fst st)) (ls_ver (fst st)) (ls_now (fst st) + Z.of_N d) (ls_calls (fst st)) (ls_log (fst st)), snd st)
  | SStep i =>
      match nth_error (snd st) i with
      | Some t => let '(sh', t') := ltstep max_size valid (fst st) t in (sh', upd (snd st) i t')
      | None => st
      end
  end.

Definition lcrun (max_size : nat) (valid : option Z) (sch : list sched) (st : lsh * list lthread) :=
  fold_left (lcstep max_size valid) sch st.

Definition lreturned (t : lthread) : option R :=
  match lt_pc t with LDone (Some r) => Some r | _ => None end.
End LruConc.

Arguments mkLS {A K R}. Arguments ls_items {A K R}. Arguments ls_ver {A K R}. Arguments ls_now {A K R}. Arguments ls_calls {A K R}.
Arguments ls_log {A K R}.
Arguments mkLT {A K R}. Arguments lt_arg {A K R}. Arguments lt_pc {A K R}.
Arguments LTime {K R}. Arguments LDone {K R}. Arguments LKey {K R}. Arguments LIterNew {K R}.
Arguments LIter {K R}. Arguments LDel {K R}. Arguments LCheck {K R}. Arguments LMove {K R}. Arguments LGet {K R}.
Arguments LCall {K R}. Arguments LStore {K R}. Arguments LLen {K R}. Arguments LPop {K R}. Arguments LRet {K R}.
Arguments bump {A K R}.
Arguments ltstep {A K R}. Arguments lcstep {A K R}. Arguments lcrun {A K R}. Arguments lreturned {A K R}.
Arguments has_key {K R}. Arguments set_item {K R}.
Definition lru_old_model_shape : list N := [0; 1; 3; 1; 3; 1; 2; 3; 1; 3]%N.
End LruOld.

(* ------------------------------------------------------------------ *)
(* lru_cache_with_expiry as it is now, concurrent.  Steps are finer than *)
(* source lines (the comprehension advances one item per step), so every *)
(* line-level schedule is one of these schedules.  CPython's OrderedDict  *)
(* iterator raises RuntimeError when the dict changed since the iterator  *)
(* was made; del / move_to_end on a missing key and popitem on an empty   *)
(* dict raise KeyError.  Exceptions end the call ([LDone _ _ None]).      *)
(* ------------------------------------------------------------------ *)
Section LruConc.
Variables A K R : Type.
Variable key : A -> K.
Variable keqb : K -> K -> bool.
Variable f : A -> N -> R.

Notation items := (list (K * (Z * R))).
(* version: bumped by every mutation of the OrderedDict (od_state); ls_log is a ghost log of the
   invocations made so far: (arguments, clock value when f ran) *)
Record lsh := mkLS { ls_items : items; ls_ver : N; ls_now : Z; ls_calls : N; ls_log : list (A * Z) }.

Inductive lpc :=
| LTime                                            (* current_time = time.time() *)
| LKey (now : Z)                                   (* key = (args, frozenset(kwargs.items())) *)
| LIterNew (now : Z)                               (* iter(cache.items()) *)
| LIter (now : Z) (ver : N) (pos : nat) (acc : list K)   (* one next() of that iterator *)
| LDel (now : Z) (ks : list K)                     (* for k in expired_keys: del cache[k] *)
| LGetE (now : Z)                                  (* entry = cache.get(key) *)
| LCond (now : Z) (e : option (Z * R))             (* if entry is not None and current_time - entry[0] <= valid *)
| LMove (now : Z) (r : R)                          (* cache.move_to_end(key) *)
| LRetHit (now : Z) (r : R)                        (* return entry[1] *)
| LCall (now : Z)                                  (* result = func(..) *)
| LPopK (now : Z) (r : R)                          (* cache.pop(key, None) *)
| LStore (now : Z) (r : R)                         (* cache[key] = (current_time, result) *)
| LLen (now : Z) (r : R)                           (* if len(cache) > max_size *)
| LPop (now : Z) (r : R)                           (* cache.popitem(last=False) *)
| LRet (now : Z) (r : R)                           (* return result *)
| LDone (now : Z) (hit : bool) (r : option R).     (* Some r = returned r, None = raised *)

Record lthread := mkLT { lt_arg : A; lt_pc : lpc }.

Definition has_key (k : K) (it : items) : bool := existsb (fun e => keqb (fst e) k) it.
Definition set_item (k : K) (v : Z * R) (it : items) : items :=
  if has_key k it then map (fun e => if keqb (fst e) k then (fst e, v) else e) it
  else it ++ [(k, v)].
Definition bump (sh : lsh) (it : items) : lsh := mkLS it (N.succ (ls_ver sh)) (ls_now sh) (ls_calls sh) (ls_log sh).

Definition ltstep (max_size : nat) (valid : option Z) (sh : lsh) (t : lthread) : lsh * lthread :=
  let a := lt_arg t in
  let k := key a in
  let go p := (sh, mkLT a p) in
  match lt_pc t with
  | LTime => go (LKey (ls_now sh))
  | LKey now => go (LIterNew now)
  | LIterNew now => go (LIter now (ls_ver sh) 0 [])
  | LIter now ver pos acc =>
      if negb (N.eqb ver (ls_ver sh)) then go (LDone now false None)  (* mutated during iteration *)
      else match nth_error (ls_items sh) pos with
           | Some e => go (LIter now ver (S pos)
                                 (if fresh valid now (fst (snd e)) then acc else acc ++ [fst e]))
           | None => go (LDel now acc)
           end
  | LDel now ks =>
      match ks with
      | [] => go (LGetE now)
      | k' :: rest =>
          if has_key k' (ls_items sh)
          then (bump sh (filter (fun e => negb (keqb (fst e) k')) (ls_items sh)), mkLT a (LDel now rest))
          else go (LDone now false None)                              (* KeyError *)
      end
  | LGetE now => go (LCond now (option_map snd (find (fun e => keqb (fst e) k) (ls_items sh))))
  | LCond now e =>
      match e with
      | Some (ts, r) => if fresh valid now ts then go (LMove now r) else go (LCall now)
      | None => go (LCall now)
      end
  | LMove now r =>
      match find (fun e => keqb (fst e) k) (ls_items sh) with
      | Some e => (bump sh (filter (fun e => negb (keqb (fst e) k)) (ls_items sh) ++ [e]), mkLT a (LRetHit now r))
      | None => go (LDone now true None)                              (* KeyError *)
      end
  | LRetHit now r => go (LDone now true (Some r))
  | LCall now => (mkLS (ls_items sh) (ls_ver sh) (ls_now sh) (N.succ (ls_calls sh)) (ls_log sh ++ [(a, ls_now sh)]),
                  mkLT a (LPopK now (f a (ls_calls sh))))
  | LPopK now r =>                                                    (* no mutation when the key is absent *)
      if has_key k (ls_items sh)
      then (bump sh (filter (fun e => negb (keqb (fst e) k)) (ls_items sh)), mkLT a (LStore now r))
      else go (LStore now r)
  | LStore now r => (bump sh (set_item k (now, r) (ls_items sh)), mkLT a (LLen now r))
  | LLen now r => if Nat.ltb max_size (length (ls_items sh)) then go (LPop now r) else go (LRet now r)
  | LPop now r =>
      match ls_items sh with
      | [] => go (LDone now false None)
      | _ :: rest => (bump sh rest, mkLT a (LRet now r))
      end
  | LRet now r => go (LDone now false (Some r))
  | LDone _ _ _ => (sh, t)
  end.

Definition lcstep (max_size : nat) (valid : option Z) (st : lsh * list lthread) (e : sched)
  : lsh * list lthread :=
  match e with
  | STick d => (mkLS (ls_items (fst st)) (ls_ver (fst st)) (ls_now (fst st) + Z.of_N d) (ls_calls (fst st)) (ls_log (fst st)), snd st)
  | SStep i =>
      match nth_error (snd st) i with
      | Some t => let '(sh', t') := ltstep max_size valid (fst st) t in (sh', upd (snd st) i t')
      | None => st
      end
  end.

Definition lcrun (max_size : nat) (valid : option Z) (sch : list sched) (st : lsh * list lthread) :=
  fold_left (lcstep max_size valid) sch st.

Definition lreturned (t : lthread) : option R :=
  match lt_pc t with LDone _ _ (Some r) => Some r | _ => None end.
End LruConc.

Arguments mkLS {A K R}. Arguments ls_items {A K R}. Arguments ls_ver {A K R}. Arguments ls_now {A K R}. Arguments ls_calls {A K R}.
Arguments ls_log {A K R}.
Arguments mkLT {A K R}. Arguments lt_arg {A K R}. Arguments lt_pc {A K R}.
Arguments LTime {K R}. Arguments LDone {K R}. Arguments LKey {K R}. Arguments LIterNew {K R}.
Arguments LIter {K R}. Arguments LDel {K R}. Arguments LGetE {K R}. Arguments LCond {K R}. Arguments LMove {K R}.
Arguments LRetHit {K R}. Arguments LCall {K R}. Arguments LPopK {K R}. Arguments LStore {K R}. Arguments LLen {K R}. Arguments LPop {K R}.
Arguments LRet {K R}. Arguments bump {A K R}.
Arguments ltstep {A K R}. Arguments lcstep {A K R}. Arguments lcrun {A K R}. Arguments lreturned {A K R}.
Arguments has_key {K R}. Arguments set_item {K R}.

(* kinds of the shared-access lines of the LRU wrapper in source order (0 clock, 1 cache
   read, 2 call of f, 3 cache write): items() sweep, del, cache.get(key), move_to_end,
   func, cache.pop(key, None), cache[key] = .., len(cache), popitem *)
Definition lru_model_shape : list N := [0; 1; 3; 1; 3; 2; 3; 3; 1; 3]%N.

(* ------------------------------------------------------------------ *)
(* concrete instance evaluated by the correspondence                    *)
(* ------------------------------------------------------------------ *)
(* argument pack: positional values, keyword (name, value) pairs in call order; values and
   names are identifiers of ==-classes of the harness's alphabet *)
Definition carg := (list Z * list (N * Z))%type.
Definition ckey := (list Z * list (N * Z))%type.
Definition cres := (carg * N)%type.           (* ("result-for", args, kwargs, call_number) *)

Fixpoint kw_insert (x : N * Z) (l : list (N * Z)) : list (N * Z) :=
  match l with
  | [] => [x]
  | y :: r => if (fst x <=? fst y)%N then x :: l else y :: kw_insert x r
  end.
Definition kw_sort (l : list (N * Z)) : list (N * Z) := fold_right kw_insert [] l.
(* (args, frozenset(kwargs.items())): keyword order does not matter, positional order does *)
Definition ckey_of (a : carg) : ckey := (fst a, kw_sort (snd a)).

Fixpoint list_eqb {X : Type} (eqb : X -> X -> bool) (a b : list X) : bool :=
  match a, b with
  | [], [] => true
  | x :: r, y :: s => eqb x y && list_eqb eqb r s
  | _, _ => false
  end.
Definition kwp_eqb (x y : N * Z) : bool := N.eqb (fst x) (fst y) && Z.eqb (snd x) (snd y).
Definition ckeqb (a b : ckey) : bool := list_eqb Z.eqb (fst a) (fst b) && list_eqb kwp_eqb (snd a) (snd b).
Definition carg_eqb (a b : carg) : bool := ckeqb a b.     (* literal comparison, order kept *)
Definition cres_eqb (a b : cres) : bool := carg_eqb (fst a) (fst b) && N.eqb (snd a) (snd b).
Definition cf (a : carg) (n : N) : cres := (a, n).

(* --- sequential streams --- *)
Fixpoint outs_eqb (m : list (@outcome carg cres)) (obs : list (bool * cres)) : bool :=
  match m, obs with
  | [], [] => true
  | o :: r, (h, v) :: s => Bool.eqb (o_hit o) h && cres_eqb (o_res o) v && outs_eqb r s
  | _, _ => false
  end.

(* case: (valid, initial clock, history, observed (hit, result) per call) *)
Definition c19_sic_check (c : option Z * Z * list (@event carg) * list (bool * cres)) : bool :=
  let '(valid, t0, h, obs) := c in
  outs_eqb (snd (sic_run ckey_of ckeqb cf valid (sic_init t0) h)) obs.
Definition c19_sic_show (c : option Z * Z * list (@event carg) * list (bool * cres)) :=
  let '(valid, t0, h, obs) := c in
  map (fun o => (o_hit o, o_res o)) (snd (sic_run ckey_of ckeqb cf valid (sic_init t0) h)).

Definition content (it : list (ckey * (Z * cres))) : list (ckey * Z) := map (fun e => (fst e, fst (snd e))) it.
Definition kz_eqb (x y : ckey * Z) : bool := ckeqb (fst x) (fst y) && Z.eqb (snd x) (snd y).

Fixpoint louts_eqb (m : list (@outcome carg cres * list (ckey * (Z * cres))))
                   (obs : list (bool * cres * list (ckey * Z))) : bool :=
  match m, obs with
  | [], [] => true
  | (o, it) :: r, (h, v, ks) :: s =>
      Bool.eqb (o_hit o) h && cres_eqb (o_res o) v && list_eqb kz_eqb (content it) ks && louts_eqb r s
  | _, _ => false
  end.

(* case: (max_size, valid, initial clock, history, observed (hit, result, cache keys oldest
   first with their timestamps) per call) *)
Definition c19_lru_check (c : nat * option Z * Z * list (@event carg) * list (bool * cres * list (ckey * Z))) : bool :=
  let '(mx, valid, t0, h, obs) := c in
  louts_eqb (snd (lru_run ckey_of ckeqb cf mx valid (lru_init t0) h)) obs.
Definition c19_lru_show (c : nat * option Z * Z * list (@event carg) * list (bool * cres * list (ckey * Z))) :=
  let '(mx, valid, t0, h, obs) := c in
  map (fun x => (o_hit (fst x), o_res (fst x), content (snd x))) (snd (lru_run ckey_of ckeqb cf mx valid (lru_init t0) h)).

(* --- concurrent stream: replay of a scheduler run --- *)
(* macro schedule entry: thread i executed a shared-access line of kind k (and the local
   lines after it), or the clock advanced *)
Inductive msched := MS (i : nat) (k : N) | MT (d : N).

Fixpoint mrun (valid : option Z) (st : @cstate carg cres) (ms : list msched) : option (@cstate carg cres) :=
  match ms with
  | [] => Some st
  | MT d :: r => mrun valid (cstep ckey_of ckeqb cf valid st (STick d)) r
  | MS i k :: r =>
      match nth_error (c_thr st) i with
      | Some t => if N.eqb (pc_kind (t_pc t)) k
                  then mrun valid (cmacro ckey_of ckeqb cf valid st i) r
                  else None                  (* the code did something else than the model at this step *)
      | None => None
      end
  end.

(* observed per thread: (f was invoked by this call, args part of the result, call number) *)
Definition thr_eqb (strict : bool) (t : @thread carg cres) (o : bool * cres) : bool :=
  match t_pc t with
  | PDone _ hit r =>
      Bool.eqb (match hit with Some _ => false | None => true end) (fst o)
      && carg_eqb (fst r) (fst (snd o)) && (negb strict || N.eqb (snd r) (snd (snd o)))
  | _ => false
  end.
Fixpoint thrs_eqb (strict : bool) (ts : list (@thread carg cres)) (obs : list (bool * cres)) : bool :=
  match ts, obs with
  | [], [] => true
  | t :: r, o :: s => thr_eqb strict t o && thrs_eqb strict r s
  | _, _ => false
  end.

(* case: (strict, valid, initial clock, sequential warm-up history, arguments of the threads,
   macro schedule as executed, observed per thread).  strict = false compares the
   arguments a result was computed for but not the call number (DataFrame.column_names) *)
Definition conc_final (c : bool * option Z * Z * list (@event carg) * list carg * list msched * list (bool * cres)) :=
  let '(strict, valid, t0, pre, args, ms, obs) := c in
  let s0 := fst (sic_run ckey_of ckeqb cf valid (sic_init t0) pre) in
  mrun valid (mkC s0 (map (fun a => mkT a PTime) args) []) ms.
Definition c19_conc_check (c : bool * option Z * Z * list (@event carg) * list carg * list msched * list (bool * cres)) : bool :=
  let '(strict, valid, t0, pre, args, ms, obs) := c in
  match conc_final c with
  | Some st => thrs_eqb strict (c_thr st) obs
  | None => false
  end.
Definition c19_conc_show (c : bool * option Z * Z * list (@event carg) * list carg * list msched * list (bool * cres)) :=
  match conc_final c with
  | Some st => Some (map (fun t => (pc_kind (t_pc t), returned t)) (c_thr st))
  | None => None
  end.

(* ------------------------------------------------------------------ *)
(* Round 3: the wrapped function as something that ACTS while the wrapper is inside it.          *)
(* A history is a forest: [XCall a body raises] is a call of the wrapper with arguments [a]; IF it  *)
(* invokes the wrapped function, that invocation first performs [body] (clock advances and further *)
(* calls of the same wrapper - re-entrant / recursive memoisation; an exception of a nested call is *)
(* caught by the function) and then raises ([raises = true]) or returns [f a n], n = number of      *)
(* invocations begun before.  A call served from the cache does not run its body.  The flat          *)
(* histories above are the forests whose bodies are empty and which never raise                      *)
(* (Proofs/C19_Reent.v).  The state carries the log of the invocations begun so far: (arguments,      *)
(* clock value at the invocation), so the invocation counter is the length of the log.              *)
(* ------------------------------------------------------------------ *)
Section Reentrant.
Variables A K R : Type.
Variable key : A -> K.
Variable keqb : K -> K -> bool.
Variable f : A -> N -> R.

Inductive xev :=
| XCall (a : A) (body : xevs) (raises : bool)
| XTick (d : N)
with xevs := XNil | XCons (e : xev) (r : xevs).

Fixpoint xl (l : list xev) : xevs := match l with [] => XNil | e :: r => XCons e (xl r) end.

(* what a call did: arguments, clock value read, served from the cache (wrapped function not
   invoked)?, value returned ([None] = the call raised) *)
Record xout := mkXO { xo_arg : A; xo_now : Z; xo_hit : bool; xo_res : option R }.

Definition inv_no (log : list (A * Z)) : N := N.of_nat (length log).

(* ---- single_item_cache ---- *)
Record sx_st := mkSX { sx_entry : option (A * R * Z); sx_now : Z; sx_log : list (A * Z) }.
Definition sx_init (t0 : Z) : sx_st := mkSX None t0 [].

Definition sx_lookup (valid : option Z) (s : sx_st) (a : A) : option R :=
  match sx_entry s with
  | Some (la, lr, lt) => if keqb (key la) (key a) && fresh valid (sx_now s) lt then Some lr else None
  | None => None
  end.

Fixpoint sicx_ev (valid : option Z) (e : xev) (s : sx_st) {struct e} : sx_st * list xout :=
  match e with
  | XTick d => (mkSX (sx_entry s) (sx_now s + Z.of_N d) (sx_log s), [])
  | XCall a body raises =>
      let now := sx_now s in
      match sx_lookup valid s a with
      | Some r => (s, [mkXO a now true (Some r)])
      | None =>
          let n := inv_no (sx_log s) in
          (* result = func(..): the invocation is logged, its body runs against the live cache *)
          let '(s2, tr) := sicx_run valid body (mkSX (sx_entry s) now (sx_log s ++ [(a, now)])) in
          if raises then (s2, tr ++ [mkXO a now false None])       (* nothing stored *)
          else (mkSX (Some (a, f a n, now)) (sx_now s2) (sx_log s2), tr ++ [mkXO a now false (Some (f a n))])
      end
  end
with sicx_run (valid : option Z) (l : xevs) (s : sx_st) {struct l} : sx_st * list xout :=
  match l with
  | XNil => (s, [])
  | XCons e r => let '(s1, t1) := sicx_ev valid e s in
                 let '(s2, t2) := sicx_run valid r s1 in (s2, t1 ++ t2)
  end.

(* ---- lru_cache_with_expiry ---- *)
Record lx_st := mkLX { lx_items : list (K * (Z * R)); lx_now : Z; lx_log : list (A * Z) }.
Definition lx_init (t0 : Z) : lx_st := mkLX [] t0 [].

(* entry = cache.get(key) after the sweep; usable when its own age is within the period *)
Definition lx_lookup (valid : option Z) (s : lx_st) (a : A) : option (K * (Z * R)) :=
  match lru_find keqb (key a) (lru_live valid (lx_now s) (lx_items s)) with
  | Some e => if fresh valid (lx_now s) (fst (snd e)) then Some e else None
  | None => None
  end.

(* the trace records, for every call at any depth, in order of completion, its outcome and the
   content of the cache when it completed *)
Fixpoint lrx_ev (mx : nat) (valid : option Z) (e : xev) (s : lx_st) {struct e}
  : lx_st * list (xout * list (K * (Z * R))) :=
  match e with
  | XTick d => (mkLX (lx_items s) (lx_now s + Z.of_N d) (lx_log s), [])
  | XCall a body raises =>
      let now := lx_now s in
      let k := key a in
      let live := lru_live valid now (lx_items s) in             (* expiry sweep *)
      match lx_lookup valid s a with
      | Some e' => let it := lru_remove keqb k live ++ [e'] in     (* move_to_end; return entry[1] *)
                   (mkLX it now (lx_log s), [(mkXO a now true (Some (snd (snd e'))), it)])
      | None =>
          let n := inv_no (lx_log s) in
          (* result = func(..): the sweep's deletions are done, nothing else has been touched *)
          let '(s2, tr) := lrx_run mx valid body (mkLX live now (lx_log s ++ [(a, now)])) in
          if raises then (s2, tr ++ [(mkXO a now false None, lx_items s2)])   (* nothing stored, nothing evicted *)
          else let it := lru_trim mx (lru_put keqb k (now, f a n) (lx_items s2)) in
               (mkLX it (lx_now s2) (lx_log s2), tr ++ [(mkXO a now false (Some (f a n)), it)])
      end
  end
with lrx_run (mx : nat) (valid : option Z) (l : xevs) (s : lx_st) {struct l}
  : lx_st * list (xout * list (K * (Z * R))) :=
  match l with
  | XNil => (s, [])
  | XCons e r => let '(s1, t1) := lrx_ev mx valid e s in
                 let '(s2, t2) := lrx_run mx valid r s1 in (s2, t1 ++ t2)
  end.

(* history-only notion for the forest theorems: a call USES its key when it returns a value (it was served
   from the cache, or it stored the value it computed); a call that raised used nothing.  1-based position, in a
   trace given in order of completion, of the last call that used key k; 0 if there is none *)
Definition xo_used (k : K) (o : xout) : bool :=
  keqb (key (xo_arg o)) k && match xo_res o with Some _ => true | None => false end.
Fixpoint xlast_from (k : K) (tr : list xout) (i : nat) (acc : nat) : nat :=
  match tr with
  | [] => acc
  | o :: r => xlast_from k r (S i) (if xo_used k o then S i else acc)
  end.
Definition xlast_use (k : K) (tr : list xout) : nat := xlast_from k tr 0 0.

(* the flat histories as forests *)
Fixpoint embed (h : list (@event A)) : xevs :=
  match h with
  | [] => XNil
  | Call a :: r => XCons (XCall a XNil false) (embed r)
  | Tick d :: r => XCons (XTick d) (embed r)
  end.
End Reentrant.

Arguments XCall {A}. Arguments XTick {A}. Arguments XNil {A}. Arguments XCons {A}. Arguments xl {A}.
Arguments mkXO {A R}. Arguments xo_arg {A R}. Arguments xo_now {A R}. Arguments xo_hit {A R}. Arguments xo_res {A R}.
Arguments inv_no {A}.
Arguments mkSX {A R}. Arguments sx_entry {A R}. Arguments sx_now {A R}. Arguments sx_log {A R}. Arguments sx_init {A R}.
Arguments sx_lookup {A K R}. Arguments sicx_ev {A K R}. Arguments sicx_run {A K R}.
Arguments mkLX {A K R}. Arguments lx_items {A K R}. Arguments lx_now {A K R}. Arguments lx_log {A K R}. Arguments lx_init {A K R}.
Arguments xo_used {A K R}. Arguments xlast_from {A K R}. Arguments xlast_use {A K R}.
Arguments lx_lookup {A K R}. Arguments lrx_ev {A K R}. Arguments lrx_run {A K R}. Arguments embed {A}.

(* --- correspondence streams for forests: observed per call at any depth, in order of completion,
   (served from the cache?, value returned or None when the call raised[, cache content]) --- *)
Definition ores_eqb (a b : option cres) : bool :=
  match a, b with
  | Some x, Some y => cres_eqb x y
  | None, None => true
  | _, _ => false
  end.

Fixpoint xouts_eqb (m : list (@xout carg cres)) (obs : list (bool * option cres)) : bool :=
  match m, obs with
  | [], [] => true
  | o :: r, (h, v) :: s => Bool.eqb (xo_hit o) h && ores_eqb (xo_res o) v && xouts_eqb r s
  | _, _ => false
  end.

Definition c19_sicx_check (c : option Z * Z * list (@xev carg) * list (bool * option cres)) : bool :=
  let '(valid, t0, h, obs) := c in
  xouts_eqb (snd (sicx_run ckey_of ckeqb cf valid (xl h) (sx_init t0))) obs.
Definition c19_sicx_show (c : option Z * Z * list (@xev carg) * list (bool * option cres)) :=
  let '(valid, t0, h, obs) := c in
  map (fun o => (xo_hit o, xo_res o)) (snd (sicx_run ckey_of ckeqb cf valid (xl h) (sx_init t0))).

Fixpoint lxouts_eqb (m : list (@xout carg cres * list (ckey * (Z * cres))))
                    (obs : list (bool * option cres * list (ckey * Z))) : bool :=
  match m, obs with
  | [], [] => true
  | (o, it) :: r, (h, v, ks) :: s =>
      Bool.eqb (xo_hit o) h && ores_eqb (xo_res o) v && list_eqb kz_eqb (content it) ks && lxouts_eqb r s
  | _, _ => false
  end.

Definition c19_lrx_check (c : nat * option Z * Z * list (@xev carg) * list (bool * option cres * list (ckey * Z))) : bool :=
  let '(mx, valid, t0, h, obs) := c in
  lxouts_eqb (snd (lrx_run ckey_of ckeqb cf mx valid (xl h) (lx_init t0))) obs.
Definition c19_lrx_show (c : nat * option Z * Z * list (@xev carg) * list (bool * option cres * list (ckey * Z))) :=
  let '(mx, valid, t0, h, obs) := c in
  map (fun x => (xo_hit (fst x), xo_res (fst x), content (snd x))) (snd (lrx_run ckey_of ckeqb cf mx valid (xl h) (lx_init t0))).

(* ------------------------------------------------------------------ *)
(* Round 5: SEVERAL decorated functions.  Every application of the decorator - bare, with options, *)
(* or through one configured decorator object applied to several functions - makes a wrapper with  *)
(* its own cache: the state of a program with n decorated functions is the list of their caches,    *)
(* a call of function j steps cache j only, the clock is common.  Generic in the per-function call  *)
(* step; the instances are sic_call and lru_call with function j's wrapped function.               *)
(* ------------------------------------------------------------------ *)
Section Multi.
Variables S A O : Type.
Variable call : nat -> S -> A -> S * O.     (* one call of decorated function j in its own cache state *)
Variable tick : S -> N -> S.

Inductive mev := MCall (j : nat) (a : A) | MTick (d : N).

(* one function alone *)
Fixpoint grun (j : nat) (s : S) (h : list (@event A)) : S * list O :=
  match h with
  | [] => (s, [])
  | Tick d :: r => grun j (tick s d) r
  | Call a :: r => let '(s1, o) := call j s a in
                   let '(s2, os) := grun j s1 r in (s2, o :: os)
  end.

Fixpoint multi_run (ss : list S) (h : list mev) : list S * list (nat * O) :=
  match h with
  | [] => (ss, [])
  | MTick d :: r => multi_run (map (fun s => tick s d) ss) r
  | MCall j a :: r =>
      match nth_error ss j with
      | Some s => let '(s1, o) := call j s a in
                  let '(ss2, os) := multi_run (upd ss j s1) r in (ss2, (j, o) :: os)
      | None => multi_run ss r
      end
  end.

(* what function j sees of a history: its own calls and every clock advance *)
Fixpoint mproj (j : nat) (h : list mev) : list (@event A) :=
  match h with
  | [] => []
  | MTick d :: r => Tick d :: mproj j r
  | MCall i a :: r => if Nat.eqb i j then Call a :: mproj j r else mproj j r
  end.
Definition outs_of (j : nat) (os : list (nat * O)) : list O :=
  map snd (filter (fun x => Nat.eqb (fst x) j) os).
End Multi.

Arguments MCall {A}. Arguments MTick {A}.
Arguments grun {S A O}. Arguments multi_run {S A O}. Arguments mproj {A}. Arguments outs_of {O}.

(* the instances: function j wraps [f j] *)
Definition msic_call {A K R : Type} (key : A -> K) (keqb : K -> K -> bool) (f : nat -> A -> N -> R) (valid : option Z)
  (j : nat) (s : @sic_st A R) (a : A) := sic_call key keqb (f j) valid s a.
Definition mlru_call {A K R : Type} (key : A -> K) (keqb : K -> K -> bool) (f : nat -> A -> N -> R) (mx : nat) (valid : option Z)
  (j : nat) (s : @lru_st K R) (a : A) :=
  let r := lru_call key keqb (f j) mx valid s a in (fst r, (snd r, l_items (fst r))).

(* --- correspondence: observed per call (function whose wrapped function produced the value, served from the
   cache?, value[, content of the called function's cache]) --- *)
Definition mcf (j : nat) (a : carg) (n : N) : cres := (a, n).

Fixpoint mouts_eqb (m : list (nat * @outcome carg cres)) (obs : list (nat * bool * cres)) : bool :=
  match m, obs with
  | [], [] => true
  | (j, o) :: r, (i, h, v) :: s => Nat.eqb j i && Bool.eqb (o_hit o) h && cres_eqb (o_res o) v && mouts_eqb r s
  | _, _ => false
  end.
Definition c19_msic_check (c : option Z * Z * nat * list (@mev carg) * list (nat * bool * cres)) : bool :=
  let '(valid, t0, n, h, obs) := c in
  mouts_eqb (snd (multi_run (msic_call ckey_of ckeqb mcf valid) sic_tick (repeat (sic_init t0) n) h)) obs.
Definition c19_msic_show (c : option Z * Z * nat * list (@mev carg) * list (nat * bool * cres)) :=
  let '(valid, t0, n, h, obs) := c in
  map (fun x => (fst x, o_hit (snd x), o_res (snd x))) (snd (multi_run (msic_call ckey_of ckeqb mcf valid) sic_tick (repeat (sic_init t0) n) h)).

Fixpoint mlouts_eqb (m : list (nat * (@outcome carg cres * list (ckey * (Z * cres)))))
                    (obs : list (nat * bool * cres * list (ckey * Z))) : bool :=
  match m, obs with
  | [], [] => true
  | (j, (o, it)) :: r, (i, h, v, ks) :: s =>
      Nat.eqb j i && Bool.eqb (o_hit o) h && cres_eqb (o_res o) v && list_eqb kz_eqb (content it) ks && mlouts_eqb r s
  | _, _ => false
  end.
Definition c19_mlru_check (c : nat * option Z * Z * nat * list (@mev carg) * list (nat * bool * cres * list (ckey * Z))) : bool :=
  let '(mx, valid, t0, n, h, obs) := c in
  mlouts_eqb (snd (multi_run (mlru_call ckey_of ckeqb mcf mx valid) lru_tick (repeat (lru_init t0) n) h)) obs.
Definition c19_mlru_show (c : nat * option Z * Z * nat * list (@mev carg) * list (nat * bool * cres * list (ckey * Z))) :=
  let '(mx, valid, t0, n, h, obs) := c in
  map (fun x => (fst x, o_hit (fst (snd x)), o_res (fst (snd x)), content (snd (snd x))))
      (snd (multi_run (mlru_call ckey_of ckeqb mcf mx valid) lru_tick (repeat (lru_init t0) n) h)).

(* ------------------------------------------------------------------ *)
(* Round 6: DataFrame.column_names / columncount as a SESSION over objects.  Schema objects (header  *)
(* lists, tuples, RelationSchema) are created, frames are built ON a schema object (the frame keeps   *)
(* the object, not a copy), a schema object may be changed in place, and the two cached properties are *)
(* looked up on frames.  Each property is a single-item cache shared by all frames and keyed by the    *)
(* FRAME (frames compare by identity): a lookup on the frame of the last lookup returns the value held *)
(* (computed when that frame was last asked - memoisation of a function that reads mutable state),     *)
(* any other lookup reads the frame's own schema object as it is now.  Column entries are identifiers  *)
(* of distinguishable values (1, 1.0, True, "1" are four different names).                            *)
(* ------------------------------------------------------------------ *)
Inductive dfop :=
| DSchema (vals : list Z)          (* a new schema object *)
| DFrame (s : nat)                 (* DataFrame(rows=[], schema=<object s>) *)
| DApp (s : nat) (v : Z)           (* in place: append a column *)
| DSet0 (s : nat) (v : Z)          (* in place: rename the first column *)
| DPop (s : nat)                   (* in place: drop the last column *)
| DNames (fr : nat)                (* <frame fr>.column_names *)
| DCount (fr : nat).               (* <frame fr>.columncount *)

Inductive dfout := ONames (l : list Z) | OCount (n : nat).

Record df_st := mkDF { d_sch : list (list Z); d_fr : list nat;
                       d_cn : option (nat * list Z); d_cc : option (nat * nat) }.
Definition df_init : df_st := mkDF [] [] None None.

(* the schema of frame fr as it is now *)
Definition df_schema (st : df_st) (fr : nat) : option (list Z) :=
  match nth_error (d_fr st) fr with
  | Some s => nth_error (d_sch st) s
  | None => None
  end.

Definition df_mut (st : df_st) (s : nat) (g : list Z -> list Z) : df_st :=
  match nth_error (d_sch st) s with
  | Some l => mkDF (upd (d_sch st) s (g l)) (d_fr st) (d_cn st) (d_cc st)
  | None => st
  end.

Definition df_step (st : df_st) (o : dfop) : df_st * list dfout :=
  match o with
  | DSchema vals => (mkDF (d_sch st ++ [vals]) (d_fr st) (d_cn st) (d_cc st), [])
  | DFrame s => if Nat.ltb s (length (d_sch st))
                then (mkDF (d_sch st) (d_fr st ++ [s]) (d_cn st) (d_cc st), []) else (st, [])
  | DApp s v => (df_mut st s (fun l => l ++ [v]), [])
  | DSet0 s v => (df_mut st s (fun l => match l with [] => [] | _ :: r => v :: r end), [])
  | DPop s => (df_mut st s (fun l => removelast l), [])
  | DNames fr =>
      match df_schema st fr with
      | None => (st, [])
      | Some cur =>
          match d_cn st with
          | Some (g, v) => if Nat.eqb g fr then (st, [ONames v])
                           else (mkDF (d_sch st) (d_fr st) (Some (fr, cur)) (d_cc st), [ONames cur])
          | None => (mkDF (d_sch st) (d_fr st) (Some (fr, cur)) (d_cc st), [ONames cur])
          end
      end
  | DCount fr =>
      match df_schema st fr with
      | None => (st, [])
      | Some cur =>
          match d_cc st with
          | Some (g, v) => if Nat.eqb g fr then (st, [OCount v])
                           else (mkDF (d_sch st) (d_fr st) (d_cn st) (Some (fr, length cur)), [OCount (length cur)])
          | None => (mkDF (d_sch st) (d_fr st) (d_cn st) (Some (fr, length cur)), [OCount (length cur)])
          end
      end
  end.

Fixpoint df_run (st : df_st) (ops : list dfop) : df_st * list dfout :=
  match ops with
  | [] => (st, [])
  | o :: r => let '(s1, o1) := df_step st o in let '(s2, o2) := df_run s1 r in (s2, o1 ++ o2)
  end.

Definition dfout_eqb (a b : dfout) : bool :=
  match a, b with
  | ONames x, ONames y => list_eqb Z.eqb x y
  | OCount x, OCount y => Nat.eqb x y
  | _, _ => false
  end.
Definition c19_dfs_check (c : list dfop * list dfout) : bool :=
  list_eqb dfout_eqb (snd (df_run df_init (fst c))) (snd c).
Definition c19_dfs_show (c : list dfop * list dfout) := snd (df_run df_init (fst c)).

(* the two properties without any cache: what the frame's own schema object spells now *)
Definition df_spec_step (st : df_st) (o : dfop) : df_st * list dfout :=
  match o with
  | DNames fr => match df_schema st fr with Some cur => (st, [ONames cur]) | None => (st, []) end
  | DCount fr => match df_schema st fr with Some cur => (st, [OCount (length cur)]) | None => (st, []) end
  | _ => df_step st o
  end.
Fixpoint df_spec (st : df_st) (ops : list dfop) : df_st * list dfout :=
  match ops with
  | [] => (st, [])
  | o :: r => let '(s1, o1) := df_spec_step st o in let '(s2, o2) := df_spec s1 r in (s2, o1 ++ o2)
  end.
Definition df_inplace (o : dfop) : bool :=
  match o with DApp _ _ | DSet0 _ _ | DPop _ => true | _ => false end.
