(* C08 - executable model of orso.tools.parse_iso (orso/tools.py, "def parse_iso" to the
   end of its try/except) and of the DATE / TIME / TIMESTAMP parsers built on it
   (orso/types.py parse_date / parse_time / parse_timestamp, OrsoTypes.parse).
   No proofs here.

   Text is [list N] (code points), bytes are [list N] (< 256); Python integers, lengths and
   indices are [Z].  Every step that can raise in CPython returns [result]; the model of
   the function body ([parse_iso_body]) therefore says WHICH exception escapes each path,
   and [parse_iso] wraps it in the handler list read from the live source
   (Gen/C08_Tables.v: [parse_iso_catches]).  The Unicode digit / space tables consulted by
   str.isdigit() and int() and the int() digit limit are regenerated from the running
   interpreter into the same file. *)
From Coq Require Import List ZArith NArith Bool.
From Orso Require Import Base.Civil Gen.C08_Tables.
Import ListNotations.
Open Scope Z_scope.

(* ------------------------------------------------------------------ results *)
Inductive result (A : Type) := Ok (a : A) | Raise (e : exn).
Arguments Ok {A}. Arguments Raise {A}.

Definition bind {A B} (r : result A) (f : A -> result B) : result B :=
  match r with Ok a => f a | Raise e => Raise e end.
Notation "'do' x <- r ; k" := (bind r (fun x => k)) (at level 200, x name, r at level 100, k at level 200).

Definition exn_eqb (a b : exn) : bool :=
  match a, b with
  | ValueError, ValueError | TypeError, TypeError | OverflowError, OverflowError
  | OSError, OSError | IndexError, IndexError | AttributeError, AttributeError => true
  | _, _ => false
  end.

(* Python's short-circuit [a and b] / [a or b] on conditions that may raise *)
Definition rand (a b : result bool) : result bool := match a with Ok true => b | _ => a end.
Definition ror (a b : result bool) : result bool := match a with Ok false => b | _ => a end.

(* a date-time: year, month, day, hour, minute, second, microsecond *)
Definition dt : Type := (Z * Z * Z * Z * Z * Z * Z)%type.

(* ------------------------------------------------------------------ str primitives *)
Definition zlen {A} (l : list A) : Z := Z.of_nat (length l).

(* value[i], i may be negative; IndexError outside *)
Definition py_idx (v : list N) (i : Z) : result N :=
  let n := zlen v in
  let j := if i <? 0 then i + n else i in
  if (j <? 0) || (n <=? j) then Raise IndexError else Ok (nth (Z.to_nat j) v 0%N).

(* value[a:b] for literal 0 <= a <= b (clamps like Python) *)
Definition py_slice (v : list N) (a b : Z) : list N := firstn (Z.to_nat (b - a)) (skipn (Z.to_nat a) v).
(* value[:-k] and value[-k:] for literal k > 0 *)
Definition drop_last (v : list N) (k : Z) : list N := firstn (Z.to_nat (zlen v - k)) v.
Definition take_last (v : list N) (k : Z) : list N := skipn (Z.to_nat (zlen v - k)) v.

Definition chr_is (v : list N) (i : Z) (c : N) : result bool := do x <- py_idx v i; Ok (N.eqb x c).
Definition chr_isnt (v : list N) (i : Z) (c : N) : result bool := do x <- py_idx v i; Ok (negb (N.eqb x c)).

Definition cZ : N := 90.  Definition cPlus : N := 43.  Definition cDash : N := 45.
Definition cColon : N := 58.  Definition cT : N := 84.  Definition cSp : N := 32.
Definition cDot : N := 46.

(* ------------------------------------------------------------------ Unicode tables *)
Definition in_ranges (t : list (N * N)) (c : N) : bool :=
  existsb (fun r => (fst r <=? c)%N && (c <=? snd r)%N) t.

(* decimal digit value (category Nd): the tables list the code point of each zero *)
Definition decimal_value (c : N) : option Z :=
  match find (fun z => (z <=? c)%N && (c <? z + 10)%N) nd_zeros with
  | Some z => Some (Z.of_N (c - z))
  | None => None
  end.

Definition is_digit_char (c : N) : bool :=
  match decimal_value c with Some _ => true | None => in_ranges digit_other c end.

(* str.isdigit() *)
Definition str_isdigit (s : list N) : bool :=
  match s with [] => false | _ => forallb is_digit_char s end.

(* int(str): _PyUnicode_TransformDecimalAndSpaceToASCII followed by PyLong_FromString(base 10) *)
Inductive cls := CSpace | CDigit (d : Z) | CPlus | CMinus | CUnder | CBad.

Definition classify (c : N) : cls :=
  if (c <? 127)%N then
    if (48 <=? c)%N && (c <=? 57)%N then CDigit (Z.of_N c - 48)
    else if ((9 <=? c)%N && (c <=? 13)%N) || (c =? 32)%N then CSpace
    else if (c =? 43)%N then CPlus
    else if (c =? 45)%N then CMinus
    else if (c =? 95)%N then CUnder
    else CBad
  else if in_ranges uni_space c then CSpace
  else match decimal_value c with Some d => CDigit d | None => CBad end.

Fixpoint skip_space (l : list cls) : list cls :=
  match l with CSpace :: r => skip_space r | _ => l end.

(* digits with single underscores between them: (number of digits, rest); the value is
   accumulated in a second pass, only when the digit count is within int()'s limit *)
Fixpoint int_scan (l : list cls) (cnt : Z) (prev_under : bool) : option (Z * list cls) :=
  match l with
  | CDigit d :: r => int_scan r (cnt + 1) false
  | CUnder :: r => if prev_under then None else int_scan r cnt true
  | _ => if prev_under then None else Some (cnt, l)
  end.

Fixpoint int_value (l : list cls) (acc : Z) : Z :=
  match l with
  | CDigit d :: r => int_value r (acc * 10 + d)
  | CUnder :: r => int_value r acc
  | _ => acc
  end.

Definition py_int (s : list N) : result Z :=
  let l := skip_space (map classify s) in
  let '(neg, l1) := match l with CPlus :: r => (false, r) | CMinus :: r => (true, r) | _ => (false, l) end in
  match l1 with
  | CDigit _ :: _ =>
      match int_scan l1 0 false with
      | Some (cnt, rest) =>
          match skip_space rest with
          | [] => if cnt >? int_max_str_digits then Raise ValueError
                  else let v := int_value l1 0 in Ok (if neg then - v else v)
          | _ => Raise ValueError
          end
      | None => Raise ValueError
      end
  | _ => Raise ValueError
  end.

(* ------------------------------------------------------------------ UTF-8 (bytes.decode("utf-8"), strict) *)
Definition cont (b : N) : bool := ((128 <=? b) && (b <? 192))%N.

Fixpoint utf8_decode (bs : list N) : option (list N) :=
  match bs with
  | [] => Some []
  | b0 :: r =>
    if (b0 <? 128)%N then option_map (cons b0) (utf8_decode r)
    else if ((194 <=? b0) && (b0 <? 224))%N then
      match r with
      | b1 :: r1 =>
          if cont b1 then option_map (cons ((b0 - 192) * 64 + (b1 - 128))%N) (utf8_decode r1) else None
      | _ => None
      end
    else if ((224 <=? b0) && (b0 <? 240))%N then
      match r with
      | b1 :: b2 :: r2 =>
          if cont b1 && cont b2 then
            let c := ((b0 - 224) * 4096 + (b1 - 128) * 64 + (b2 - 128))%N in
            if ((2048 <=? c) && negb ((55296 <=? c) && (c <? 57344)))%N
            then option_map (cons c) (utf8_decode r2) else None
          else None
      | _ => None
      end
    else if ((240 <=? b0) && (b0 <? 245))%N then
      match r with
      | b1 :: b2 :: b3 :: r3 =>
          if cont b1 && cont b2 && cont b3 then
            let c := ((b0 - 240) * 262144 + (b1 - 128) * 4096 + (b2 - 128) * 64 + (b3 - 128))%N in
            if ((65536 <=? c) && (c <? 1114112))%N
            then option_map (cons c) (utf8_decode r3) else None
          else None
      | _ => None
      end
    else None
  end.

(* str.encode("utf-8") of one scalar value / of a text (specification side) *)
Definition utf8_enc1 (c : N) : list N :=
  (if c <? 128 then [c]
   else if c <? 2048 then [192 + c / 64; 128 + c mod 64]
   else if c <? 65536 then [224 + c / 4096; 128 + (c / 64) mod 64; 128 + c mod 64]
   else [240 + c / 262144; 128 + (c / 4096) mod 64; 128 + (c / 64) mod 64; 128 + c mod 64])%N.
Definition utf8_encode (s : list N) : list N := flat_map utf8_enc1 s.

(* ------------------------------------------------------------------ datetime library *)
(* datetime.datetime(y, m, d, h, mi, s): range checks, ValueError outside *)
Definition mk_datetime (y m d h mi s : Z) : result dt :=
  if (1 <=? y) && (y <=? 9999) && (1 <=? m) && (m <=? 12) && (1 <=? d) && (d <=? dim y m)
     && (0 <=? h) && (h <? 24) && (0 <=? mi) && (mi <? 60) && (0 <=? s) && (s <? 60)
  then Ok (y, m, d, h, mi, s, 0) else Raise ValueError.

Definition int64_min : Z := - 9223372036854775808.
Definition int64_max : Z := 9223372036854775807.
Definition int32_min : Z := - 2147483648.
Definition int32_max : Z := 2147483647.

(* datetime.datetime.fromtimestamp(n, tz=utc).replace(tzinfo=None) for a Python int n:
   OverflowError when n does not fit time_t, OSError (EOVERFLOW) when gmtime_r cannot
   represent the year in struct tm (tm_year = year - 1900 is a C int), ValueError when
   the year is outside 1..9999. *)
Definition fromtimestamp_utc (n : Z) : result dt :=
  if (n <? int64_min) || (int64_max <? n) then Raise OverflowError else
  let days := n / 86400 in
  let sod := n mod 86400 in
  let '(y, m, d) := civil_from_days days in
  if (y - 1900 <? int32_min) || (int32_max <? y - 1900) then Raise OSError
  else if (y <? 1) || (9999 <? y) then Raise ValueError
  else Ok (y, m, d, sod / 3600, (sod / 60) mod 60, sod mod 60, 0).

(* a Python float: m * 2^e exactly, or not finite *)
Inductive fl := FNan | FInf | FFin (m e : Z).

(* int(float): truncation toward zero; ValueError on NaN, OverflowError on infinities
   (no longer used by parse_iso; C07 models int(x) with it) *)
Definition int_of_float (f : fl) : result Z :=
  match f with
  | FNan => Raise ValueError
  | FInf => Raise OverflowError
  | FFin m e => Ok (if 0 <=? e then m * 2 ^ e else Z.quot m (2 ^ (- e)))
  end.

(* math.floor(float): the floor, exactly; ValueError on NaN, OverflowError on infinities
   (math.floor of an int or a numpy.int64 is that integer) *)
Definition floor_of (m e : Z) : Z := if 0 <=? e then m * 2 ^ e else m / 2 ^ (- e).
Definition floor_of_float (f : fl) : result Z :=
  match f with
  | FNan => Raise ValueError
  | FInf => Raise OverflowError
  | FFin m e => Ok (floor_of m e)
  end.

(* ------------------------------------------------------------------ the string branch *)
Fixpoint take_until (c : N) (v : list N) : list N :=   (* value.split(c)[0] *)
  match v with
  | [] => []
  | x :: r => if N.eqb x c then [] else x :: take_until c r
  end.

(* the three offset-stripping arms; None = "return None" *)
Definition strip_offset (v : list N) : result (option (list N)) :=
  if existsb (N.eqb cPlus) v then
    let p := take_until cPlus v in
    if (10 <=? zlen p) && (zlen p <=? 28) then Ok (Some p) else Ok None
  else
    do c1 <- rand (Ok (16 <? zlen v)) (rand (chr_is v (-6) cDash) (chr_is v (-3) cColon));
    if c1 then Ok (Some (drop_last v 6)) else
    do c2 <- rand (Ok (16 <? zlen v))
                  (rand (chr_is v (-5) cDash)
                        (Ok (str_isdigit (filter (fun x => negb (N.eqb x cDash)) (take_last v 5)))));
    if c2 then Ok (Some (drop_last v 5)) else Ok (Some v).

(* the Z strip followed by the offset strip *)
Definition strip_suffix (v0 : list N) : result (option (list N)) :=
  do z <- chr_is v0 (-1) cZ;
  strip_offset (if z then drop_last v0 1 else v0).

(* datetime.datetime( * map(int, [value[:4], value[5:7], ...])) for the three accepted lengths *)
Definition fields_date (v : list N) : result (option dt) :=
  do y <- py_int (py_slice v 0 4); do m <- py_int (py_slice v 5 7); do d <- py_int (py_slice v 8 10);
  do r <- mk_datetime y m d 0 0 0; Ok (Some r).
Definition fields_minutes (v : list N) : result (option dt) :=
  do y <- py_int (py_slice v 0 4); do m <- py_int (py_slice v 5 7); do d <- py_int (py_slice v 8 10);
  do h <- py_int (py_slice v 11 13); do mi <- py_int (py_slice v 14 16);
  do r <- mk_datetime y m d h mi 0; Ok (Some r).
Definition fields_seconds (v : list N) : result (option dt) :=
  do y <- py_int (py_slice v 0 4); do m <- py_int (py_slice v 5 7); do d <- py_int (py_slice v 8 10);
  do h <- py_int (py_slice v 11 13); do mi <- py_int (py_slice v 14 16); do s <- py_int (py_slice v 17 19);
  do r <- mk_datetime y m d h mi s; Ok (Some r).

(* positional tests and field conversion on the stripped value *)
Definition parse_core (v : list N) : result (option dt) :=
  let n := zlen v in
  do bad <- ror (chr_isnt v 4 cDash) (chr_isnt v 7 cDash);
  if bad then Ok None else
  if n =? 10 then fields_date v
  else if 16 <=? n then
    do bad2 <- rand (do x <- py_idx v 10; Ok (negb (N.eqb x cT || N.eqb x cSp))) (chr_isnt v 13 cColon);
    if bad2 then Ok None else
    do six <- rand (Ok (19 <=? n)) (chr_is v 16 cColon);
    if six then fields_seconds v
    else if n =? 16 then fields_minutes v
    else Ok None
  else Ok None.

(* "if input_type == str and 10 <= len(value) <= 33: ..." then "return None" *)
Definition parse_text (v0 : list N) : result (option dt) :=
  if (10 <=? zlen v0) && (zlen v0 <=? 33) then
    do r <- strip_suffix v0;
    match r with None => Ok None | Some v => parse_core v end
  else Ok None.

(* ------------------------------------------------------------------ inputs *)
(* what int(value.astype("datetime64[s]").astype(numpy.int64)) gave (NumPy is a black box
   here): whole seconds since the epoch - NaT comes out as the smallest int64 - or the
   OverflowError NumPy raises when its unit conversion overflows *)
Inductive np_conv := NpSecs (n : Z) | NpOverflow.

(* what value.to_pydatetime() returned, for any other object that has the attribute *)
Inductive topy :=
| ToDatetime (y m d h mi s us : Z)         (* datetime.datetime exactly (pandas.Timestamp) *)
| ToDate (y m d : Z)                       (* datetime.date exactly *)
| ToOther.                                 (* anything else, e.g. pandas.NaT gives NaT *)

Inductive value :=
| VInt (n : Z)                             (* type int exactly *)
| VNpInt64 (n : Z)
| VFloat (f : fl)                          (* float *)
| VNpFloat64 (f : fl)
| VStr (s : list N)                        (* type str exactly *)
| VBytes (b : list N)                      (* bytes and subclasses (isinstance) *)
| VDate (y m d : Z)                        (* datetime.date exactly *)
| VDatetime (y m d h mi s us : Z)          (* datetime.datetime exactly, naive or aware *)
| VNpDatetime64 (c : np_conv)
| VToPy (r : topy)                         (* any other object with a to_pydatetime attribute *)
| VTime (h mi s us : Z)                    (* datetime.time and subclasses (isinstance): only the TIME cast treats it specially *)
| VOther.                                  (* None, bool, other numpy scalars, str / datetime subclasses, bytearray, containers, object() ... *)

Definition epoch_branch (n : Z) : result (option dt) :=
  do t <- fromtimestamp_utc n; Ok (Some t).

Definition str_branch (s : list N) : result (option dt) :=
  if str_isdigit s then (do n <- py_int s; epoch_branch n) else parse_text s.

Definition parse_iso_body (x : value) : result (option dt) :=
  match x with
  | VBytes b => match utf8_decode b with
                | None => Raise ValueError            (* UnicodeDecodeError is a ValueError *)
                | Some s => str_branch s
                end
  | VStr s => str_branch s
  | VInt n | VNpInt64 n => epoch_branch n
  | VFloat f | VNpFloat64 f => do n <- floor_of_float f; epoch_branch n
  | VNpDatetime64 (NpSecs n) => epoch_branch n
  | VNpDatetime64 NpOverflow => Raise OverflowError
  | VToPy (ToDatetime y m d h mi s us) => Ok (Some (y, m, d, h, mi, s, 0))
  | VToPy (ToDate y m d) => Ok (Some (y, m, d, 0, 0, 0, 0))
  | VToPy ToOther => Ok None
  | VDatetime y m d h mi s us => Ok (Some (y, m, d, h, mi, s, 0))
  | VDate y m d => Ok (Some (y, m, d, 0, 0, 0, 0))
  | VTime _ _ _ _ => Ok None
  | VOther => Ok None
  end.

(* try: ... except <parse_iso_catches>: return None *)
Definition caught (e : exn) : bool := parse_iso_catches_all || existsb (exn_eqb e) parse_iso_catches.

Definition parse_iso (x : value) : result (option dt) :=
  match parse_iso_body x with
  | Raise e => if caught e then Ok None else Raise e
  | r => r
  end.

(* ------------------------------------------------------------------ the casts (orso/types.py) *)
(* OrsoTypes.X.parse(value): None stays None (not modelled as a value here); otherwise
   parse_date / parse_timestamp / parse_time raise ValueError when parse_iso gave None. *)
Definition date_of (t : dt) : Z * Z * Z := let '(y, m, d, _, _, _, _) := t in (y, m, d).
Definition time_of (t : dt) : Z * Z * Z * Z := let '(_, _, _, h, mi, s, us) := t in (h, mi, s, us).
(* the three parsers applied to what parse_iso returned *)
Definition timestamp_of (r : result (option dt)) : result dt :=
  do o <- r; match o with None => Raise ValueError | Some t => Ok t end.
Definition dateval_of (r : result (option dt)) : result (Z * Z * Z) := do t <- timestamp_of r; Ok (date_of t).
Definition timeval_of (r : result (option dt)) : result (Z * Z * Z * Z) := do t <- timestamp_of r; Ok (time_of t).
Definition cast_timestamp (x : value) : result dt := timestamp_of (parse_iso x).
Definition cast_date (x : value) : result (Z * Z * Z) := dateval_of (parse_iso x).
(* parse_time: "if isinstance(x, datetime.time): return x" before parse_iso is consulted *)
Definition cast_time (x : value) : result (Z * Z * Z * Z) :=
  match x with
  | VTime h mi s us => Ok (h, mi, s, us)
  | _ => timeval_of (parse_iso x)
  end.

(* all four entry points on one input (parse_iso evaluated once) *)
Definition entry_points (x : value) :=
  let r := parse_iso x in
  (r, timestamp_of r, dateval_of r, match x with VTime h mi s us => Ok (h, mi, s, us) | _ => timeval_of r end).

(* ------------------------------------------------------------------ ISO renderings (specification side) *)
Definition dig (n : Z) : N := Z.to_N (48 + n).
Definition d2 (n : Z) : list N := [dig (n / 10); dig (n mod 10)].
Definition d4 (n : Z) : list N := [dig (n / 1000); dig ((n / 100) mod 10); dig ((n / 10) mod 10); dig (n mod 10)].

Inductive suffix :=
| SNone | SZ
| SPlus (colon : bool) (oh om : Z)
| SMinus (colon : bool) (oh om : Z).

Definition render_suffix (sf : suffix) : list N :=
  match sf with
  | SNone => []
  | SZ => [cZ]
  | SPlus c oh om => cPlus :: d2 oh ++ (if c then [cColon] else []) ++ d2 om
  | SMinus c oh om => cDash :: d2 oh ++ (if c then [cColon] else []) ++ d2 om
  end.

Definition render_date (y m d : Z) : list N := d4 y ++ [cDash] ++ d2 m ++ [cDash] ++ d2 d.
(* fraction: the digits after the point; no point when there are none *)
Definition render_frac (fr : list N) : list N := match fr with [] => [] | _ => cDot :: fr end.

(* YYYY-MM-DD<sep>HH:MM:SS[.ffffff][suffix] *)
Definition render_seconds (y m d h mi s : Z) (sep : N) (fr : list N) (sf : suffix) : list N :=
  render_date y m d ++ [sep] ++ d2 h ++ [cColon] ++ d2 mi ++ [cColon] ++ d2 s ++ render_frac fr ++ render_suffix sf.
(* YYYY-MM-DD<sep>HH:MM[suffix] *)
Definition render_minutes (y m d h mi : Z) (sep : N) (sf : suffix) : list N :=
  render_date y m d ++ [sep] ++ d2 h ++ [cColon] ++ d2 mi ++ render_suffix sf.
(* YYYY-MM-DD[suffix] *)
Definition render_dateonly (y m d : Z) (sf : suffix) : list N := render_date y m d ++ render_suffix sf.

(* Unicode scalar value (what UTF-8 can encode) *)
Definition scalar (c : N) : bool := ((c <? 55296) || ((57344 <=? c) && (c <? 1114112)))%N.

(* positional value of a string of ASCII digits *)
Definition dval (c : N) : Z := Z.of_N c - 48.
Definition digits_value (s : list N) : Z := fold_left (fun a c => a * 10 + dval c) s 0.

Definition valid_date (y m d : Z) : bool :=
  (1 <=? y) && (y <=? 9999) && (1 <=? m) && (m <=? 12) && (1 <=? d) && (d <=? dim y m).
Definition valid_time (h mi s : Z) : bool :=
  (0 <=? h) && (h <? 24) && (0 <=? mi) && (mi <? 60) && (0 <=? s) && (s <? 60).
Definition ascii_digit (c : N) : bool := ((48 <=? c) && (c <=? 57))%N.
Definition valid_suffix (sf : suffix) : bool :=
  match sf with
  | SPlus _ oh om | SMinus _ oh om => (0 <=? oh) && (oh <? 100) && (0 <=? om) && (om <? 100)
  | _ => true
  end.

Definition is_time (x : value) : bool := match x with VTime _ _ _ _ => true | _ => false end.
Definition is_sep (x : N) : bool := N.eqb x cT || N.eqb x cSp.
Definition not_minus (sf : suffix) : bool := match sf with SMinus _ _ _ => false | _ => true end.
(* a valid calendar date-time with whole seconds *)
Definition valid_dt (t : dt) : bool :=
  let '(y, m, d, h, mi, s, us) := t in valid_date y m d && valid_time h mi s && (us =? 0).
(* whole seconds of the instant i * num / den seconds after the epoch (datetime64 of a fixed-length unit) *)
Definition instant_floor (num den i : Z) : Z := (i * num) / den.

(* the positional shape test of parse_core, as a predicate on the stripped value *)
Definition shape_ok (v : list N) : bool :=
  let at_ (i : nat) (c : N) := N.eqb (nth i v 0%N) c in
  at_ 4%nat cDash && at_ 7%nat cDash &&
  ((zlen v =? 10) ||
   ((at_ 10%nat cT || at_ 10%nat cSp || at_ 13%nat cColon) &&
    ((zlen v =? 16) || ((19 <=? zlen v) && at_ 16%nat cColon)))).

(* seconds since 1970-01-01T00:00:00 UTC of a civil date-time *)
Definition epoch_of (t : dt) : Z :=
  let '(y, m, d, h, mi, s, _) := t in days_from_civil y m d * 86400 + h * 3600 + mi * 60 + s.
Definition min_epoch : Z := - 62135596800.      (* 0001-01-01T00:00:00 *)
Definition max_epoch : Z := 253402300799.       (* 9999-12-31T23:59:59 *)

(* ------------------------------------------------------------------ correspondence checks *)
Definition dt_eqb (a b : dt) : bool :=
  let '(y, m, d, h, mi, s, us) := a in let '(y', m', d', h', mi', s', us') := b in
  (y =? y') && (m =? m') && (d =? d') && (h =? h') && (mi =? mi') && (s =? s') && (us =? us').

Definition odt_eqb (a b : option dt) : bool :=
  match a, b with None, None => true | Some x, Some y => dt_eqb x y | _, _ => false end.

(* observed outcome of a call: returned value or escaped exception *)
Definition res_eqb (a b : result (option dt)) : bool :=
  match a, b with Ok x, Ok y => odt_eqb x y | Raise e, Raise f => exn_eqb e f | _, _ => false end.

Definition cast_eqb (a b : result dt) : bool :=
  match a, b with Ok x, Ok y => dt_eqb x y | Raise e, Raise f => exn_eqb e f | _, _ => false end.

Fixpoint text_eqb (a b : list N) : bool :=
  match a, b with [] , [] => true | x :: r, y :: s => N.eqb x y && text_eqb r s | _, _ => false end.

(* observation of the four entry points on one input:
   parse_iso, TIMESTAMP.parse, DATE.parse (date part), TIME.parse (time part) *)
Definition obs : Type := (result (option dt) * result dt * result (Z * Z * Z) * result (Z * Z * Z * Z))%type.

Definition date_res_eqb (a b : result (Z * Z * Z)) : bool :=
  match a, b with
  | Ok (y, m, d), Ok (y', m', d') => (y =? y') && (m =? m') && (d =? d')
  | Raise e, Raise f => exn_eqb e f | _, _ => false end.
Definition time_res_eqb (a b : result (Z * Z * Z * Z)) : bool :=
  match a, b with
  | Ok (h, mi, s, us), Ok (h', mi', s', us') => (h =? h') && (mi =? mi') && (s =? s') && (us =? us')
  | Raise e, Raise f => exn_eqb e f | _, _ => false end.

(* compact literals for the generated cases files: a text of [len] code points packed
   big-endian in base 2^21, and the two most common shapes of an observation *)
Definition unpack_step (st : list N * N) : list N * N :=
  (N.land (snd st) 2097151 :: fst st, N.shiftr (snd st) 21).
Definition unpack (len v : N) : list N := fst (N.iter len unpack_step ([], v)).
Definition obs_dt (y m d h mi s us : Z) : obs :=
  (Ok (Some (y, m, d, h, mi, s, us)), Ok (y, m, d, h, mi, s, us), Ok (y, m, d), Ok (h, mi, s, us)).
Definition obs_none : obs := (Ok None, Raise ValueError, Raise ValueError, Raise ValueError).
Definition obs_gen (a : result (option dt)) (b : result dt) (c : result (Z * Z * Z)) (d : result (Z * Z * Z * Z)) : obs :=
  (a, b, c, d).
Definition vcase (x : value) (o : obs) : value * obs := (x, o).
Definition unpacks (l : list (N * N)) : list N := flat_map (fun p => unpack (fst p) (snd p)) l.
(* same in base 2^8 (texts below U+0100, bytes), chained in short chunks: u8 len v rest *)
Definition unpack8_step (st : list N * N) : list N * N :=
  (N.land (snd st) 255 :: fst st, N.shiftr (snd st) 8).
Definition u8 (len v : N) (rest : list N) : list N := fst (N.iter len unpack8_step ([], v)) ++ rest.
Definition u21 (len v : N) (rest : list N) : list N := unpack len v ++ rest.

Definition c08_check (c : value * obs) : bool :=
  let '(x, (o1, o2, o3, o4)) := c in
  let '(r1, r2, r3, r4) := entry_points x in
  res_eqb r1 o1 && cast_eqb r2 o2 && date_res_eqb r3 o3 && time_res_eqb r4 o4.

Definition c08_show (c : value * obs) :=
  let '(x, _) := c in (parse_iso_body x, parse_iso x, cast_timestamp x).

(* an ISO case also ties the specification-side renderer to what CPython's isoformat()
   (plus the harness's suffix) produced: kind 0 = seconds form, 1 = minutes, 2 = date only *)
Definition render_kind (k : Z) (f : dt) (sep : N) (fr : list N) (sf : suffix) : list N :=
  let '(y, m, d, h, mi, s, _) := f in
  if k =? 0 then render_seconds y m d h mi s sep fr sf
  else if k =? 1 then render_minutes y m d h mi sep sf
  else render_dateonly y m d sf.

Definition c08_check_iso (c : Z * dt * N * list N * suffix * bool * list N * obs) : bool :=
  let '(k, f, sep, fr, sf, as_bytes, text, o) := c in
  text_eqb (render_kind k f sep fr sf) text &&
  c08_check (if as_bytes then VBytes (utf8_encode text) else VStr text, o).

Definition c08_show_iso (c : Z * dt * N * list N * suffix * bool * list N * obs) :=
  let '(k, f, sep, fr, sf, as_bytes, text, o) := c in
  (render_kind k f sep fr sf, parse_iso (if as_bytes then VBytes (utf8_encode text) else VStr text)).

Definition iso_case (k y m d h mi s : Z) (sep : N) (fr : list N) (sf : suffix) (as_bytes : bool) (text : list N) (o : obs)
  : Z * dt * N * list N * suffix * bool * list N * obs :=
  (k, (y, m, d, h, mi, s, 0), sep, fr, sf, as_bytes, text, o).

(* the exhaustive day sweep sends the fields and a polynomial hash of the text CPython
   rendered instead of the text itself (the text is re-rendered here and must hash alike) *)
Definition text_hash (t : list N) : N :=
  fold_left (fun a c => N.land (a * 1000003 + c) 1099511627775) t 0%N.
Definition digits_step (st : list N * Z) : list N * Z := (dig (snd st mod 10) :: fst st, snd st / 10).
Definition digits_of (len : N) (v : Z) : list N := fst (N.iter len digits_step ([], v)).
(* one sweep case in small numbers: form, date, second of day, separator (0 = T, 1 = space),
   fraction length and value, suffix kind (0 none, 1 Z, 2 +hh:mm, 3 +hhmm, 4 -hh:mm, 5 -hhmm)
   and offset, bytes?, hash; the observation is the expected one for the form (the harness
   uses this form only when the implementation returned exactly that, the general form otherwise) *)
Definition isoh_case (k y m d sod sep : Z) (frlen : N) (frv sk oh om : Z) (as_bytes : bool) (hash : N)
  : Z * dt * N * list N * suffix * bool * N * obs :=
  let h := sod / 3600 in let mi := (sod / 60) mod 60 in let s := sod mod 60 in
  let sf := if sk =? 0 then SNone else if sk =? 1 then SZ
            else if sk =? 2 then SPlus true oh om else if sk =? 3 then SPlus false oh om
            else if sk =? 4 then SMinus true oh om else SMinus false oh om in
  let o := if k =? 0 then obs_dt y m d h mi s 0 else if k =? 1 then obs_dt y m d h mi 0 0 else obs_dt y m d 0 0 0 0 in
  (k, (y, m, d, h, mi, s, 0), if sep =? 0 then cT else cSp, digits_of frlen frv, sf, as_bytes, hash, o).
Definition c08_check_isoh (c : Z * dt * N * list N * suffix * bool * N * obs) : bool :=
  let '(k, f, sep, fr, sf, as_bytes, hash, o) := c in
  let text := render_kind k f sep fr sf in
  N.eqb (text_hash text) hash &&
  c08_check (if as_bytes then VBytes (utf8_encode text) else VStr text, o).
Definition c08_show_isoh (c : Z * dt * N * list N * suffix * bool * N * obs) :=
  let '(k, f, sep, fr, sf, as_bytes, hash, o) := c in
  let text := render_kind k f sep fr sf in
  (text, text_hash text, parse_iso (if as_bytes then VBytes (utf8_encode text) else VStr text)).

(* the modelled library function on its own: datetime.fromtimestamp(n, tz=utc) *)
Definition c08_check_fromts (c : Z * result dt) : bool :=
  let '(n, o) := c in cast_eqb (fromtimestamp_utc n) o.
Definition c08_show_fromts (c : Z * result dt) := let '(n, _) := c in fromtimestamp_utc n.

(* int(str) and str.isdigit() on their own *)
Definition int_case (s : list N) (isd : bool) (o : result Z) : list N * bool * result Z := (s, isd, o).
Definition utf8_case (b : list N) (ok : bool) (s : list N) : list N * option (list N) :=
  (b, if ok then Some s else None).
Definition c08_check_int (c : list N * bool * result Z) : bool :=
  let '(s, isd, o) := c in
  Bool.eqb (str_isdigit s) isd &&
  match py_int s, o with Ok a, Ok b => a =? b | Raise e, Raise f => exn_eqb e f | _, _ => false end.
Definition c08_show_int (c : list N * bool * result Z) := let '(s, _, _) := c in (str_isdigit s, py_int s).

(* bytes.decode("utf-8") on its own *)
Definition c08_check_utf8 (c : list N * option (list N)) : bool :=
  let '(b, o) := c in
  match utf8_decode b, o with Some s, Some t => text_eqb s t | None, None => true | _, _ => false end.
Definition c08_show_utf8 (c : list N * option (list N)) := let '(b, _) := c in utf8_decode b.
