(* Exact-rational instance of the distogram model: the instance the theorems are about. *)
From Coq Require Import QArith ZArith List Bool.
From Orso Require Import Model.C13.
Import ListNotations.

Definition Qltb (a b : Q) : bool := negb (Qle_bool b a).
Definition Qtrunc (x : Q) : Z := Z.quot (Qnum x) (Zpos (Qden x)).

Definition QA : arith Q :=
  mkArith Q Qplus Qminus Qmult Qdiv inject_Z Qltb Qle_bool Qeq_bool Qtrunc.

(* ---- comparison helpers for the correspondence (values compared with Qeq) ---- *)
Definition qopt_eqb (a b : option Q) : bool :=
  match a, b with Some x, Some y => Qeq_bool x y | None, None => true | _, _ => false end.
Fixpoint qlist_eqb (a b : list Q) : bool :=
  match a, b with [] , [] => true | x :: r, y :: s => Qeq_bool x y && qlist_eqb r s | _, _ => false end.
Fixpoint qbins_eqb (a b : list (Q * Z)) : bool :=
  match a, b with
  | [], [] => true
  | (x, f) :: r, (y, g) :: s => Qeq_bool x y && Z.eqb f g && qbins_eqb r s
  | _, _ => false
  end.
Definition qext_eqb (a b : ext) : bool :=
  match a, b with Inf, Inf => true | Fin x, Fin y => Qeq_bool x y | _, _ => false end.

(* observable state: bins, min, max, cache (diffs and min_diff compared only when the cache exists) *)
Definition qobs := (list (Q * Z) * option Q * option Q * option (list Q * @ext Q))%type.
Definition qst_eqb (s : @st Q) (o : qobs) : bool :=
  let '(b, mn, mx, c) := o in
  qbins_eqb (bins s) b && qopt_eqb (hmin s) mn && qopt_eqb (hmax s) mx &&
  match diffs s, c with
  | None, None => true
  | Some d, Some (d', m') => qlist_eqb d d' && qext_eqb (min_diff s) m'
  | _, _ => false
  end.

(* ---- correspondence: programs and the implementation's observations (exact arithmetic) ---- *)
Inductive qo := QoState (o : qobs) | QoNone | QoNum (x : Q) | QoRaise.

Definition q_obs_eqb (m : @obs Q) (o : qo) : bool :=
  match m, o with
  | BState s, QoState o => qst_eqb s o
  | BAns ANone, QoNone => true
  | BAns (AInt z), QoNum x => Qeq_bool (inject_Z z) x
  | BAns (ANum y), QoNum x => Qeq_bool y x
  | BAns AErr, QoRaise => true
  | BRaise, QoRaise => true
  | _, _ => false
  end.
Fixpoint q_all2 (a : list (@obs Q)) (b : list qo) : bool :=
  match a, b with [], [] => true | x :: r, y :: s => q_obs_eqb x y && q_all2 r s | _, _ => false end.
Definition c13_check_q (c : list (@op Q) * list qo) : bool :=
  q_all2 (run_prog QA [] (fst c)) (snd c).
Definition show_q (s : @st Q) :=
  (map (fun b => (Qred (fst b), snd b)) (bins s), option_map Qred (hmin s), option_map Qred (hmax s),
   option_map (map Qred) (diffs s), match min_diff s with Inf => Inf | Fin x => Fin (Qred x) end).
Definition c13_show_q (c : list (@op Q) * list qo) :=
  map (fun o => match o with BState s => Some (show_q s) | _ => None end) (run_prog QA [] (fst c)).
