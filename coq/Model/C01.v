(* C01 - executable model of the row byte format.
     orso/row.py        Row.as_bytes (lines 144-176), Row.from_bytes (127-137), HEADER_* constants (44-46)
     orso/compute/compiled.pyx   from_bytes_cython (lines 41-72)
     ormsgpack.packb / unpackb   (Rust; modelled here as the msgpack wire format with ormsgpack's choices)
   No proofs here: this file must keep running when a proof breaks.
   Bytes are [list N] (each element < 256 in everything the harness produces). *)
From Coq Require Import List NArith ZArith Bool.
From Orso Require Import Gen.C01_RowFmt.
Import ListNotations.
Open Scope N_scope.

Definition bytes := list N.

(* ---------------------------------------------------------------------------------- *)
(* values                                                                             *)
(* ---------------------------------------------------------------------------------- *)
Inductive mval :=
| MNil
| MBool (b : bool)
| MInt (z : Z)
| MFloat (bits : N)                      (* IEEE-754 binary64 pattern: NaN payloads, -0.0 are just bits *)
| MStr (s : bytes)                       (* UTF-8 bytes of the text *)
| MBin (s : bytes)
| MArr (l : list mval)
| MMap (kvs : list (bytes * mval)).      (* insertion-ordered; keys are text (UTF-8 bytes) *)

Inductive exn := DataError | ValueError | TypeError | OtherError.
Inductive result (A : Type) := Ok (a : A) | Raise (e : exn).
Arguments Ok {A}. Arguments Raise {A}.

Definition len {A} (l : list A) : N := N.of_nat (length l).

(* ---------------------------------------------------------------------------------- *)
(* big-endian integers                                                                *)
(* ---------------------------------------------------------------------------------- *)
Fixpoint be (n : nat) (x : N) : bytes :=       (* int.to_bytes(n, "big") *)
  match n with
  | O => []
  | S k => (x / 256 ^ N.of_nat k) mod 256 :: be k x
  end.

Fixpoint rd (n : nat) (bs : bytes) (acc : N) : option (N * bytes) :=
  match n with
  | O => Some (acc, bs)
  | S k => match bs with
           | [] => None
           | b :: r => rd k r (acc * 256 + b)
           end
  end.

(* first n bytes, if there are that many; recursion on the list so that a huge announced
   length on a short input costs nothing *)
Fixpoint take (l : bytes) (n : N) : option (bytes * bytes) :=
  if n =? 0 then Some ([], l)
  else match l with
       | [] => None
       | b :: r => match take r (N.pred n) with
                   | Some (p, q) => Some (b :: p, q)
                   | None => None
                   end
       end.

Fixpoint has (l : bytes) (n : N) : bool :=     (* at least n bytes remain *)
  if n =? 0 then true
  else match l with
       | [] => false
       | _ :: r => has r (N.pred n)
       end.

(* ---------------------------------------------------------------------------------- *)
(* strict UTF-8 validity (what Rust's str::from_utf8 accepts)                         *)
(* ---------------------------------------------------------------------------------- *)
Definition in_rng (lo hi b : N) : bool := (lo <=? b) && (b <=? hi).

Fixpoint utf8_valid (l : bytes) : bool :=
  match l with
  | [] => true
  | b0 :: r0 =>
    if b0 <? 128 then utf8_valid r0
    else match r0 with
    | [] => false
    | b1 :: r1 =>
      if in_rng 194 223 b0 then in_rng 128 191 b1 && utf8_valid r1
      else match r1 with
      | [] => false
      | b2 :: r2 =>
        if b0 =? 224 then in_rng 160 191 b1 && in_rng 128 191 b2 && utf8_valid r2
        else if in_rng 225 236 b0 || in_rng 238 239 b0 then in_rng 128 191 b1 && in_rng 128 191 b2 && utf8_valid r2
        else if b0 =? 237 then in_rng 128 159 b1 && in_rng 128 191 b2 && utf8_valid r2
        else match r2 with
        | [] => false
        | b3 :: r3 =>
          if b0 =? 240 then in_rng 144 191 b1 && in_rng 128 191 b2 && in_rng 128 191 b3 && utf8_valid r3
          else if in_rng 241 243 b0 then in_rng 128 191 b1 && in_rng 128 191 b2 && in_rng 128 191 b3 && utf8_valid r3
          else if b0 =? 244 then in_rng 128 143 b1 && in_rng 128 191 b2 && in_rng 128 191 b3 && utf8_valid r3
          else false
        end
      end
    end
  end.

(* ---------------------------------------------------------------------------------- *)
(* the writer: ormsgpack.packb                                                        *)
(* ---------------------------------------------------------------------------------- *)
Definition pack_int (z : Z) : bytes :=
  if (0 <=? z)%Z then
    let n := Z.to_N z in
    if n <? 128 then [n]
    else if n <? 256 then 204 :: be 1 n
    else if n <? 65536 then 205 :: be 2 n
    else if n <? 4294967296 then 206 :: be 4 n
    else 207 :: be 8 n
  else if (-32 <=? z)%Z then [Z.to_N (256 + z)]
  else if (-128 <=? z)%Z then 208 :: be 1 (Z.to_N (256 + z))
  else if (-32768 <=? z)%Z then 209 :: be 2 (Z.to_N (65536 + z))
  else if (-2147483648 <=? z)%Z then 210 :: be 4 (Z.to_N (4294967296 + z))
  else 211 :: be 8 (Z.to_N (18446744073709551616 + z)).

Definition str_hdr (n : N) : bytes :=
  if n <? 32 then [160 + n]
  else if n <? 256 then 217 :: be 1 n
  else if n <? 65536 then 218 :: be 2 n
  else 219 :: be 4 n.

Definition bin_hdr (n : N) : bytes :=
  if n <? 256 then 196 :: be 1 n
  else if n <? 65536 then 197 :: be 2 n
  else 198 :: be 4 n.

Definition arr_hdr (n : N) : bytes :=
  if n <? 16 then [144 + n]
  else if n <? 65536 then 220 :: be 2 n
  else 221 :: be 4 n.

Definition map_hdr (n : N) : bytes :=
  if n <? 16 then [128 + n]
  else if n <? 65536 then 222 :: be 2 n
  else 223 :: be 4 n.

Definition pack_str (s : bytes) : bytes := str_hdr (len s) ++ s.

Fixpoint pack (v : mval) : bytes :=
  match v with
  | MNil => [192]
  | MBool false => [194]
  | MBool true => [195]
  | MInt z => pack_int z
  | MFloat b => 203 :: be 8 b                   (* float64 always *)
  | MStr s => pack_str s
  | MBin s => bin_hdr (len s) ++ s
  | MArr l => arr_hdr (len l) ++ flat_map pack l
  | MMap kvs => map_hdr (len kvs) ++ flat_map (fun kv => pack_str (fst kv) ++ pack (snd kv)) kvs
  end.

(* ---------------------------------------------------------------------------------- *)
(* the reader: ormsgpack.unpackb (first object; every msgpack format accepted)        *)
(* ---------------------------------------------------------------------------------- *)
Definition two_compl (bits : N) (u : N) : Z :=       (* u < 2^bits read as a signed integer *)
  if u <? 2 ^ (bits - 1) then Z.of_N u else (Z.of_N u - Z.of_N (2 ^ bits))%Z.

(* float32 bit pattern -> the float64 pattern of the same number (what `f32 as f64` gives on
   this platform: signalling NaNs come back quiet, payload kept) *)
Definition f32_to_f64 (u : N) : N :=
  let s := (u / 2147483648) mod 2 in
  let e := (u / 8388608) mod 256 in
  let m := u mod 8388608 in
  let sign := s * 9223372036854775808 in
  if e =? 255 then
    if m =? 0 then sign + 2047 * 4503599627370496
    else sign + 2047 * 4503599627370496 + N.lor (m * 536870912) 2251799813685248
  else if e =? 0 then
    if m =? 0 then sign
    else let k := N.log2 m in
         sign + (k + 874) * 4503599627370496 + (m - 2 ^ k) * 2 ^ (52 - k)
  else sign + (e + 896) * 4503599627370496 + m * 536870912.

Definition unpack_str_body (n : N) (r : bytes) : option (bytes * bytes) :=
  match take r n with
  | Some (s, r') => if utf8_valid s then Some (s, r') else None
  | None => None
  end.

(* a text object in any of its four encodings (used for map keys: ormsgpack refuses other key types) *)
Definition unpack_str (bs : bytes) : option (bytes * bytes) :=
  match bs with
  | [] => None
  | b :: r =>
    if (160 <=? b) && (b <? 192) then unpack_str_body (b - 160) r
    else if b =? 217 then match rd 1 r 0 with Some (n, r') => unpack_str_body n r' | None => None end
    else if b =? 218 then match rd 2 r 0 with Some (n, r') => unpack_str_body n r' | None => None end
    else if b =? 219 then match rd 4 r 0 with Some (n, r') => unpack_str_body n r' | None => None end
    else None
  end.

Inductive hdr := HArr (n : N) (r : bytes) | HMap (n : N) (r : bytes) | HScalar | HErr.

Definition container_hdr (b : N) (r : bytes) : hdr :=
  if (128 <=? b) && (b <? 144) then HMap (b - 128) r
  else if (144 <=? b) && (b <? 160) then HArr (b - 144) r
  else if b =? 220 then match rd 2 r 0 with Some (n, r') => HArr n r' | None => HErr end
  else if b =? 221 then match rd 4 r 0 with Some (n, r') => HArr n r' | None => HErr end
  else if b =? 222 then match rd 2 r 0 with Some (n, r') => HMap n r' | None => HErr end
  else if b =? 223 then match rd 4 r 0 with Some (n, r') => HMap n r' | None => HErr end
  else HScalar.

Definition rd_uint (k : nat) (r : bytes) : option (mval * bytes) :=
  match rd k r 0 with Some (u, r') => Some (MInt (Z.of_N u), r') | None => None end.

Definition rd_sint (k : nat) (r : bytes) : option (mval * bytes) :=
  match rd k r 0 with Some (u, r') => Some (MInt (two_compl (8 * N.of_nat k) u), r') | None => None end.

Definition rd_bin (k : nat) (r : bytes) : option (mval * bytes) :=
  match rd k r 0 with
  | Some (n, r') => match take r' n with Some (s, r'') => Some (MBin s, r'') | None => None end
  | None => None
  end.

(* everything that is not an array or a map; b is the format byte, r what follows it *)
Definition unpack_scalar (b : N) (r : bytes) : option (mval * bytes) :=
  if b <? 128 then Some (MInt (Z.of_N b), r)                         (* positive fixint *)
  else if (160 <=? b) && (b <? 192) then                              (* fixstr *)
    match unpack_str_body (b - 160) r with Some (s, r') => Some (MStr s, r') | None => None end
  else if b =? 192 then Some (MNil, r)
  else if b =? 194 then Some (MBool false, r)
  else if b =? 195 then Some (MBool true, r)
  else if b =? 196 then rd_bin 1 r
  else if b =? 197 then rd_bin 2 r
  else if b =? 198 then rd_bin 4 r
  else if b =? 202 then match rd 4 r 0 with Some (u, r') => Some (MFloat (f32_to_f64 u), r') | None => None end
  else if b =? 203 then match rd 8 r 0 with Some (u, r') => Some (MFloat u, r') | None => None end
  else if b =? 204 then rd_uint 1 r
  else if b =? 205 then rd_uint 2 r
  else if b =? 206 then rd_uint 4 r
  else if b =? 207 then rd_uint 8 r
  else if b =? 208 then rd_sint 1 r
  else if b =? 209 then rd_sint 2 r
  else if b =? 210 then rd_sint 4 r
  else if b =? 211 then rd_sint 8 r
  else if (b =? 217) || (b =? 218) || (b =? 219) then
    match unpack_str (b :: r) with Some (s, r') => Some (MStr s, r') | None => None end
  else if (224 <=? b) && (b <? 256) then Some (MInt (Z.of_N b - 256), r)   (* negative fixint *)
  else None.    (* 0xc1 reserved, ext 8/16/32 (0xc7-0xc9), fixext (0xd4-0xd8): errors; arrays/maps handled by the caller *)

Section Many.
  Variable rec : bytes -> option (mval * bytes).

  Fixpoint many (n : nat) (bs : bytes) : option (list mval * bytes) :=
    match n with
    | O => Some ([], bs)
    | S k => match rec bs with
             | Some (v, bs') => match many k bs' with
                                | Some (vs, bs'') => Some (v :: vs, bs'')
                                | None => None
                                end
             | None => None
             end
    end.

  Fixpoint many_kv (n : nat) (bs : bytes) : option (list (bytes * mval) * bytes) :=
    match n with
    | O => Some ([], bs)
    | S k => match unpack_str bs with
             | Some (key, bs1) =>
               match rec bs1 with
               | Some (v, bs') => match many_kv k bs' with
                                  | Some (vs, bs'') => Some ((key, v) :: vs, bs'')
                                  | None => None
                                  end
               | None => None
               end
             | None => None
             end
    end.
End Many.

(* fuel = how many nested values may still be opened; every value, scalar or not, costs one *)
Fixpoint unpack (fuel : nat) (bs : bytes) : option (mval * bytes) :=
  match fuel with
  | O => None
  | S f =>
    match bs with
    | [] => None
    | b :: r =>
      match container_hdr b r with
      | HArr n r' =>
          if has r' n        (* every element takes at least one byte: a larger count cannot succeed *)
          then match many (unpack f) (N.to_nat n) r' with
               | Some (vs, r'') => Some (MArr vs, r'')
               | None => None
               end
          else None
      | HMap n r' =>
          if has r' n
          then match many_kv (unpack f) (N.to_nat n) r' with
               | Some (kvs, r'') => Some (MMap kvs, r'')
               | None => None
               end
          else None
      | HScalar => unpack_scalar b r
      | HErr => None
      end
    end
  end.

Definition dec_fuel : nat := N.to_nat dec_limit.

(* ---------------------------------------------------------------------------------- *)
(* well-formedness, depth                                                             *)
(* ---------------------------------------------------------------------------------- *)
Definition int_ok (z : Z) : bool := ((-9223372036854775808 <=? z) && (z <? 18446744073709551616))%Z.
Definition len_ok {A} (l : list A) : bool := len l <? 4294967296.

(* what packb can serialise: 64-bit integers, 64-bit float patterns, text and keys that are well-formed UTF-8
   (a Python str with a lone surrogate is refused); every length below 2^32 (longer objects cannot be built here) *)
Fixpoint wfb (v : mval) : bool :=
  match v with
  | MInt z => int_ok z
  | MFloat b => b <? 18446744073709551616
  | MStr s => utf8_valid s && len_ok s
  | MBin s => len_ok s
  | MArr l => len_ok l && forallb wfb l
  | MMap kvs => len_ok kvs && forallb (fun kv => utf8_valid (fst kv) && len_ok (fst kv) && wfb (snd kv)) kvs
  | _ => true
  end.

Definition wf (v : mval) : Prop := wfb v = true.

(* nesting counted in containers (what the encoder limits) and in values (what the decoder limits) *)
Fixpoint cdepth (v : mval) : N :=
  match v with
  | MArr l => 1 + fold_right (fun x m => N.max (cdepth x) m) 0 l
  | MMap kvs => 1 + fold_right (fun kv m => N.max (cdepth (snd kv)) m) 0 kvs
  | _ => 0
  end.

Fixpoint vdepth (v : mval) : nat :=
  match v with
  | MArr l => S (fold_right (fun x m => Nat.max (vdepth x) m) 1%nat l)
  | MMap kvs => S (fold_right (fun kv m => Nat.max (vdepth (snd kv)) m) 1%nat kvs)
  | _ => 1%nat
  end.

(* ---------------------------------------------------------------------------------- *)
(* Row.as_bytes                                                                       *)
(* ---------------------------------------------------------------------------------- *)
Definition size_ok (n : Z) : bool := negb (row_MAXIMUM_RECORD_SIZE <? n)%Z.    (* not (record_size > MAXIMUM_RECORD_SIZE) *)

Definition encode_row (ts : N) (row : list mval) : result bytes :=
  if negb (wfb (MArr row) && (cdepth (MArr row) <=? enc_container_limit))
  then Raise TypeError                                     (* packb: integer out of range / surrogates / recursion limit *)
  else
    let payload := pack (MArr row) in                      (* packb(tuple(self)) *)
    if size_ok (Z.of_N (len payload))
    then Ok (row_HEADER_PREFIX ++ be 4 (len payload) ++ be 8 ts ++ payload)
    else Raise DataError.

(* ---------------------------------------------------------------------------------- *)
(* from_bytes_cython                                                                  *)
(* ---------------------------------------------------------------------------------- *)
Inductive cell := CVal (v : mval) | CDate (x : mval).     (* CDate x = datetime.fromtimestamp(x) *)

Definition wrap32 (v : Z) : Z :=       (* a C int holding v modulo 2^32, widened to Py_ssize_t *)
  let u := (v mod 4294967296)%Z in
  if (u <? 2147483648)%Z then u else (u - 4294967296)%Z.

Definition byte_at (data : bytes) (i : nat) : N := nth i data 0.

(* (<unsigned char>p[2]) << 24 | (<unsigned char>p[3]) << 16 | ... evaluated on promoted ints *)
Definition record_size (data : bytes) : Z :=
  wrap32 (Z.of_N (fold_left (fun acc f => N.lor acc (N.shiftl (byte_at data (fst f)) (snd f))) pyx_length_fields 0)).

Fixpoint bytes_eqb (a b : bytes) : bool :=
  match a, b with
  | [], [] => true
  | x :: r, y :: s => (x =? y) && bytes_eqb r s
  | _, _ => false
  end.

Definition is_numeric (x : mval) : bool :=
  match x with MInt _ | MFloat _ | MBool _ => true | _ => false end.

(* isinstance(item, list) and len(item) == 2 and item[0] == "__datetime__" *)
Definition dt_form (it : mval) : option mval :=
  match it with
  | MArr [MStr s; x] => if bytes_eqb s pyx_datetime_tag then Some x else None
  | _ => None
  end.

Definition rewrite_item (it : mval) : result cell :=
  match dt_form it with
  | Some x => if is_numeric x then Ok (CDate x) else Raise TypeError
  | None => Ok (CVal it)
  end.

Fixpoint post (items : list mval) : result (list cell) :=
  match items with
  | [] => Ok []
  | it :: r =>
    match rewrite_item it with
    | Raise e => Raise e
    | Ok c => match post r with
              | Ok cs => Ok (c :: cs)
              | Raise e => Raise e
              end
    end
  end.

Definition version_ok (data : bytes) : bool :=
  N.land (byte_at data pyx_version_offset) pyx_VERSION_MASK =? pyx_VERSION_VALUE.

Definition decode_row (data : bytes) : result (list cell) :=
  let n := Z.of_nat (length data) in
  if (n <? pyx_HEADER_SIZE)%Z || negb (version_ok data) then Raise DataError
  else if negb (record_size data =? n - pyx_HEADER_SIZE)%Z then Raise DataError
  else match unpack dec_fuel (skipn (Z.to_nat pyx_HEADER_SIZE) data) with    (* unpackb(data[HEADER_SIZE:]) *)
       | None => Raise ValueError                  (* MsgpackDecodeError *)
       | Some (MArr items, _) => post items        (* bytes after the first object are ignored by unpackb *)
       | Some (_, _) => Raise TypeError            (* cdef list raw_tuple = <not a list>; iterating None *)
       end.

Definition no_datetime (row : list mval) : bool :=
  forallb (fun it => match dt_form it with Some _ => false | None => true end) row.

(* ---------------------------------------------------------------------------------- *)
(* the other entry points (round 5): row classes made by Row.create_class, the         *)
(* classmethod wrapper Row.from_bytes = cls(from_bytes_cython(data)), the compiled     *)
(* decoder called directly                                                             *)
(* ---------------------------------------------------------------------------------- *)
Inductive row_cls :=
| Base                                             (* orso.row.Row: _fields is None *)
| Made (nfields : N) (tuples_only : bool)          (* Row.create_class(names, tuples_only): _fields has nfields names *)
| Cython.                                          (* no class at all: from_bytes_cython(data) / the plain tuple *)

(* Row.__new__(cls, data) with data a tuple: tuple.__new__(cls, data); the field names play no part
   (they matter for dict arguments only, which from_bytes never passes) *)
Definition row_new {A} (c : row_cls) (values : list A) : list A := values.

(* cls.from_bytes(data) = cls(from_bytes_cython(data)) *)
Definition from_bytes_cls (c : row_cls) (data : bytes) : result (list cell) :=
  match decode_row data with
  | Ok cs => Ok (row_new c cs)
  | Raise e => Raise e
  end.

(* cls(values).as_bytes: packb(tuple(self)) - the width of a row is the number of values it holds *)
Definition encode_row_cls (c : row_cls) (ts : N) (row : list mval) : result bytes := encode_row ts (row_new c row).

(* the variant the model must be able to tell apart: pad with nulls up to the number of field names *)
Definition cls_nfields (c : row_cls) : nat := match c with Made n _ => N.to_nat n | _ => O end.
Definition from_bytes_padded (c : row_cls) (data : bytes) : result (list cell) :=
  match decode_row data with
  | Ok cs => Ok (cs ++ repeat (CVal MNil) (cls_nfields c - length cs))
  | Raise e => Raise e
  end.

(* ---------------------------------------------------------------------------------- *)
(* comparison functions used by the correspondence files                              *)
(* ---------------------------------------------------------------------------------- *)
Fixpoint mval_eqb (a b : mval) : bool :=
  match a, b with
  | MNil, MNil => true
  | MBool x, MBool y => Bool.eqb x y
  | MInt x, MInt y => (x =? y)%Z
  | MFloat x, MFloat y => x =? y
  | MStr x, MStr y => bytes_eqb x y
  | MBin x, MBin y => bytes_eqb x y
  | MArr x, MArr y =>
      (fix go (x y : list mval) : bool :=
         match x, y with
         | [], [] => true
         | u :: r, w :: s => mval_eqb u w && go r s
         | _, _ => false
         end) x y
  | MMap x, MMap y =>
      (fix go (x y : list (bytes * mval)) : bool :=
         match x, y with
         | [], [] => true
         | u :: r, w :: s => bytes_eqb (fst u) (fst w) && mval_eqb (snd u) (snd w) && go r s
         | _, _ => false
         end) x y
  | _, _ => false
  end.

(* Python dict semantics for repeated keys: first position, last value *)
Fixpoint dict_set (k : bytes) (v : mval) (d : list (bytes * mval)) : list (bytes * mval) :=
  match d with
  | [] => [(k, v)]
  | (k', v') :: t => if bytes_eqb k k' then (k', v) :: t else (k', v') :: dict_set k v t
  end.

Fixpoint norm (v : mval) : mval :=
  match v with
  | MArr l => MArr (map norm l)
  | MMap kvs => MMap (fold_left (fun d kv => dict_set (fst kv) (norm (snd kv)) d) kvs [])
  | _ => v
  end.

Definition exn_eqb (a b : exn) : bool :=
  match a, b with
  | DataError, DataError | ValueError, ValueError | TypeError, TypeError | OtherError, OtherError => true
  | _, _ => false
  end.

(* what the harness saw: a datetime cell is recorded without its value; OSame stands for the
   reference outcome of the case (the original row for the plain decode, the plain decode's
   outcome for a mutated record) so that generated files stay small *)
Inductive ocell := OVal (v : mval) | ODate.
Inductive outcome := OOk (l : list ocell) | ORaise (e : exn) | OSame.

Definition cell_matches (c : cell) (o : ocell) : bool :=
  match c, o with
  | CVal v, OVal w => if mval_eqb v w then true else mval_eqb (norm v) w     (* norm only matters for repeated keys; lazy *)
  | CDate _, ODate => true
  | _, _ => false
  end.

Fixpoint cells_match (cs : list cell) (os : list ocell) : bool :=
  match cs, os with
  | [], [] => true
  | c :: r, o :: s => cell_matches c o && cells_match r s
  | _, _ => false
  end.

Definition resolve (ref o : outcome) : outcome := match o with OSame => ref | _ => o end.

Definition outcome_matches (m : result (list cell)) (o : outcome) : bool :=
  match m, o with
  | Ok cs, OOk os => cells_match cs os
  | Raise e, ORaise e' => exn_eqb e e'
  | _, _ => false
  end.

Definition is_data_error (m : result (list cell)) : bool :=
  match m with Raise DataError => true | _ => false end.

(* run-length helper so that large generated payloads stay small as text *)
Definition rep (n : N) (b : N) : bytes := N.iter n (cons b) [].

Definition flip_bit (b : N) (i : N) : N := N.lxor b (2 ^ i).

Fixpoint set_nth (l : bytes) (i : nat) (f : N -> N) : bytes :=
  match l, i with
  | [], _ => []
  | b :: r, O => f b :: r
  | b :: r, S j => b :: set_nth r j f
  end.

Definition flip_at (r : bytes) (i b : N) : bytes := set_nth r (N.to_nat i) (fun x => flip_bit x b).

(* polynomial digest used instead of a literal when an observed record is large and incompressible *)
Definition digest (l : bytes) : N :=        (* h := (257 h + b + 1) mod 2^61, shifts and masks only: cheap in the VM *)
  fold_left (fun h b => N.land (N.shiftl h 8 + h + b + 1) 2305843009213693951) l 0.

Inductive enc_obs := EBytes (r : bytes) | EHash (n : N) (h : N) | ERaise (e : exn).

Inductive mutation :=
| Via (c : row_cls) (m : mutation)      (* the mutated record handed to class c's from_bytes (Cython: to from_bytes_cython) *)
| EncVia (c : row_cls) (e : option enc_obs)   (* what cls(row).as_bytes gave; None = the very record of the base class *)
| Paths (cs : list row_cls)             (* through every one of these entry points: same record, same decoded row, and the
                                           sampled tears / extension / flips of [path_samples] all DataError *)
| Tear (k : N)                    (* keep the first k bytes *)
| TearAll                         (* every k < len: all observed as DataError *)
| Extend (s : bytes)
| Flip (byte : N) (bit : N)
| FlipMask (mask : N).            (* the 48 single-bit changes of bytes 0..5; bit 8*byte+bit of the mask set =
                                     observed DataError, clear = observed the reference outcome *)

Fixpoint apply_mut (r : bytes) (m : mutation) : bytes :=
  match m with
  | Via _ m' => apply_mut r m'
  | Tear k => firstn (N.to_nat k) r
  | Extend s => r ++ s
  | Flip i b => flip_at r i b
  | TearAll | FlipMask _ | EncVia _ _ | Paths _ => r
  end.

(* the mutated records every second entry point is shown: tears at 0, 1, 13, 14, 15 and len-1 (those below len),
   one appended zero byte, flips of bits 4 and 7 of byte 0, bit 0 of byte 2, bits 0 and 7 of byte 5 *)
Definition path_samples (r : bytes) : list bytes :=
  map (fun k => firstn k r) (filter (fun k => Nat.ltb k (length r)) [0; 1; 13; 14; 15; length r - 1]%nat)
  ++ [r ++ [0]] ++ map (fun ib => flip_at r (fst ib) (snd ib)) [(0, 4); (0, 7); (2, 0); (5, 0); (5, 7)].

Definition enc_matches (m : result bytes) (base : bytes) (e : option enc_obs) : bool :=
  match m, e with
  | Ok r1, None => bytes_eqb r1 base
  | Ok r1, Some (EBytes r') => bytes_eqb r1 r'
  | Ok r1, Some (EHash n h) => (len r1 =? n) && (digest r1 =? h)
  | Raise x, Some (ERaise x') => exn_eqb x x'
  | _, _ => false
  end.

Definition mut_matches (ts : N) (row : list mval) (ref : outcome) (r : bytes) (mo : mutation * outcome) : bool :=
  match fst mo with
  | Via c m => outcome_matches (from_bytes_cls c (apply_mut r m)) (resolve ref (snd mo))
  | EncVia c e => enc_matches (encode_row_cls c ts row) r e
  | Paths cs =>
      forallb (fun c => enc_matches (encode_row_cls c ts row) r None &&
                        outcome_matches (from_bytes_cls c r) ref &&
                        forallb (fun x => is_data_error (from_bytes_cls c x)) (path_samples r)) cs
  | TearAll => forallb (fun k => is_data_error (decode_row (firstn k r))) (seq 0 (length r))
  | FlipMask mask =>
      forallb (fun idx => outcome_matches (decode_row (flip_at r (idx / 8) (idx mod 8)))
                                          (if N.testbit mask idx then ORaise DataError else ref))
              (map N.of_nat (seq 0 48))
  | m => outcome_matches (decode_row (apply_mut r m)) (resolve ref (snd mo))
  end.

(* compact literals for the few huge generated values *)
Definition repv (n : N) (v : mval) : list mval := N.iter n (cons v) [].
Definition key_of (i : N) : bytes :=
  [107; 97 + (i / 4096) mod 16; 97 + (i / 256) mod 16; 97 + (i / 16) mod 16; 97 + i mod 16].
Definition seq_map (n : N) : list (bytes * mval) :=      (* {key_of 0: 0, ..., key_of (n-1): n-1} *)
  snd (N.iter n (fun st => let i := N.pred (fst st) in (i, (key_of i, MInt (Z.of_N i)) :: snd st)) (n, [])).

Definition nest_arr (n : N) (v : mval) : mval := N.iter n (fun x => MArr [x]) v.
Definition nest_map (n : N) (v : mval) : mval := N.iter n (fun x => MMap [([107], x)]) v.

(* a row case: timestamp, row, what as_bytes returned (or raised), what from_bytes returned on it,
   and the observed outcome of from_bytes on each mutated record *)
Definition row_case := (N * list mval * enc_obs * outcome * list (mutation * outcome))%type.

Definition c01_check_row (c : row_case) : bool :=
  let '(ts, row, enc, dec, muts) := c in
  let dec := resolve (OOk (map OVal row)) dec in
  match encode_row ts row, enc with
  | Ok r, EBytes r' => bytes_eqb r r' && outcome_matches (decode_row r') dec && forallb (mut_matches ts row dec r') muts
  | Ok r, EHash n h => (len r =? n) && (digest r =? h) && outcome_matches (decode_row r) dec && forallb (mut_matches ts row dec r) muts
  | Raise e, ERaise e' => exn_eqb e e'
  | _, _ => false
  end.

Definition c01_show_row (c : row_case) :=
  let '(ts, row, enc, dec, muts) := c in
  let dec := resolve (OOk (map OVal row)) dec in
  match encode_row ts row with
  | Ok r => (if len r <? 4096 then Ok r else Ok [len r; digest r],
             Some (match decode_row r with Ok cs => if len r <? 4096 then Ok cs else Ok [] | Raise e => Raise e end,
                   map (fun mo => (fst mo, mut_matches ts row dec r mo)) muts))
  | Raise e => (Raise e, None)
  end.

Definition c01_check_raw (c : bytes * outcome) : bool := outcome_matches (decode_row (fst c)) (snd c).
Definition c01_show_raw (c : bytes * outcome) := decode_row (fst c).

(* cap boundary: payload length and whether as_bytes accepted it *)
Definition c01_check_cap (c : Z * bool) : bool := Bool.eqb (size_ok (fst c)) (snd c).
Definition c01_show_cap (c : Z * bool) := size_ok (fst c).
