(* C11 - executable model of the Arrow interchange.  No proofs here.

   (a) rows:   orso/converters.py  _RowsIterator (23-69), from_arrow (89-126), to_arrow (72-86);
               compiled.process_table (compiled.pyx 173-196) and pyarrow.Table.from_arrays are
               ORACLES (Section variables): the model never looks inside a table.
   (b) types:  orso/schema.py FlatColumn.from_arrow (218-261), arrow_field (290-319), the schema-level
               converters (715-731) and orso/tools.py arrow_type_map (588-646), as lookups in the
               tables regenerated into Gen/C11_ArrowMap.v on every run. *)
From Coq Require Import List NArith ZArith Bool.
From Orso Require Import Gen.C11_ArrowMap.
Import ListNotations.

Inductive exn := ValueError | TypeError | AttributeError | OtherError.
Inductive result (A : Type) := Ok (a : A) | Raise (e : exn).
Arguments Ok {A}. Arguments Raise {A}.

Definition bind {A B : Type} (r : result A) (f : A -> result B) : result B :=
  match r with Ok a => f a | Raise e => Raise e end.

(* ====================================================================================== *)
(* (a) the rows iterator                                                                    *)
(* ====================================================================================== *)
Section Stream.
Variable R : Type.                          (* a delivered row: row_factory(tuple) *)
Variable T : Type.                          (* an Arrow table *)
Variable process_table : T -> N -> list R.  (* compiled.process_table(table, row_factory, max_chunksize) *)

(* _RowsIterator: self.tables (not yet fetched), self.current_rows (not yet delivered),
   self.rows_processed, self.batch_size, self.max_size (None = float("inf")) *)
Record iter := mkIt { tabs : list T; cur : list R; done : nat; bsz : N; cap : option N }.

(* the `while row is None` loop: take tables until one yields a row *)
Fixpoint fetch (ts : list T) (b : N) : option (R * list R * list T) :=
  match ts with
  | [] => None
  | t :: rest => match process_table t b with
                 | [] => fetch rest b
                 | r :: rs => Some (r, rs, rest)
                 end
  end.

Definition capped (s : iter) : bool :=
  match cap s with Some c => (c <=? N.of_nat (done s))%N | None => false end.

(* __next__ : None = StopIteration *)
Definition next (s : iter) : option R * iter :=
  if capped s then (None, s)
  else match cur s with
       | r :: rs => (Some r, mkIt (tabs s) rs (S (done s)) (bsz s) (cap s))
       | [] => match fetch (tabs s) (bsz s) with
               | None => (None, mkIt [] [] (done s) (bsz s) (cap s))
               | Some (r, rs, rest) => (Some r, mkIt rest rs (S (done s)) (bsz s) (cap s))
               end
       end.

(* k successive calls of next() *)
Fixpoint nexts (k : nat) (s : iter) : list (option R) :=
  match k with
  | 0 => []
  | S k' => let '(o, s') := next s in o :: nexts k' s'
  end.

(* what a for loop / list() collects: rows until the first StopIteration *)
Fixpoint drain (fuel : nat) (s : iter) : list R :=
  match fuel with
  | 0 => []
  | S f => match next s with
           | (Some r, s') => r :: drain f s'
           | (None, _) => []
           end
  end.

(* from_arrow(tables, size): `if size:` (None and 0 are falsy) -> BATCH_SIZE = min(size, BATCH_SIZE), cap = size;
   otherwise cap = inf.  An empty table list gives iter([]), which is the iterator over no tables. *)
Definition from_arrow_iter (tables : list T) (size : option N) : iter :=
  match size with
  | Some n => if (n =? 0)%N then mkIt tables [] 0 c11_batch_size None
              else mkIt tables [] 0 (N.min n c11_batch_size) (Some n)
  | None => mkIt tables [] 0 c11_batch_size None
  end.

End Stream.

Arguments mkIt {R T}. Arguments tabs {R T}. Arguments cur {R T}. Arguments done {R T}.
Arguments bsz {R T}. Arguments cap {R T}. Arguments fetch {R T}. Arguments capped {R T}.
Arguments next {R T}. Arguments nexts {R T}. Arguments drain {R T}. Arguments from_arrow_iter {R T}.

(* ---------- the iterator as an object consumed in several steps (Round 3) ----------
   _RowsIterator.__iter__ returns self, so next(it), itertools.islice(it, k), a for loop left with break and
   list(it) all advance the SAME position.  A session is a sequence of such steps on one iterator object. *)
Inductive iop :=
| INext              (* next(it, None), also next(iter(it), None) *)
| ITake (k : nat)    (* list(itertools.islice(it, k)); a for loop left with break after k rows *)
| IDrain.            (* list(it); a for loop run to the end *)

Section IterSession.
Variable R : Type.
Variable T : Type.
Variable process_table : T -> N -> list R.

(* at most k calls of next(), stopping at the first StopIteration: the rows delivered and the iterator afterwards *)
Fixpoint take_n (k : nat) (s : iter R T) : list R * iter R T :=
  match k with
  | 0 => ([], s)
  | S k' => match next process_table s with
            | (Some r, s') => let '(l, s'') := take_n k' s' in (r :: l, s'')
            | (None, s') => ([], s')
            end
  end.

(* enough next() calls to exhaust the iterator *)
Definition ifuel (s : iter R T) : nat :=
  S (length (cur s) + length (concat (map (fun t => process_table t (bsz s)) (tabs s)))).

Definition istep (s : iter R T) (op : iop) : list R * iter R T :=
  match op with
  | INext => take_n 1 s
  | ITake k => take_n k s
  | IDrain => take_n (ifuel s) s
  end.

(* what each step of the session delivers *)
Fixpoint irun (s : iter R T) (ops : list iop) : list (list R) :=
  match ops with
  | [] => []
  | op :: r => let '(l, s') := istep s op in l :: irun s' r
  end.

End IterSession.

Arguments take_n {R T}. Arguments ifuel {R T}. Arguments istep {R T}. Arguments irun {R T}.

(* ---------- the caller's list of tables converted more than once (Round 6) ----------
   from_arrow(tables, size) walks a list through iter(tables): the caller's list is only read.  A session converts the
   SAME list several times (a capped preview, then everything; two frames over one list), each conversion consumed by
   its own steps; the state threaded through is the caller's list itself. *)
Section ListSession.
Variable R : Type.
Variable T : Type.
Variable process_table : T -> N -> list R.

(* one conversion: what its steps deliver, and the caller's list afterwards *)
Definition lstep (tables : list T) (op : option N * list iop) : list (list R) * list T :=
  (irun process_table (from_arrow_iter tables (fst op)) (snd op), tables).

(* per conversion: the rows delivered by each step, and how many tables the caller's list still holds *)
Fixpoint lrun (tables : list T) (ops : list (option N * list iop)) : list (list (list R) * nat) :=
  match ops with
  | [] => []
  | op :: r => let '(o, tables') := lstep tables op in (o, length tables') :: lrun tables' r
  end.

End ListSession.

Arguments lstep {R T}. Arguments lrun {R T}.

(* what the property promises for a session over the rows E still to come: every step takes the next rows, in order *)
Definition ispec_step {R : Type} (rest : list R) (op : iop) : list R * list R :=
  match op with
  | INext => (firstn 1 rest, skipn 1 rest)
  | ITake k => (firstn k rest, skipn k rest)
  | IDrain => (rest, [])
  end.

Fixpoint ispec {R : Type} (rest : list R) (ops : list iop) : list (list R) :=
  match ops with
  | [] => []
  | op :: r => let '(l, rest') := ispec_step rest op in l :: ispec rest' r
  end.

(* what the property promises: the first `size` rows (all of them for None; 0 is read as None by `if size`) *)
Definition limit {A : Type} (size : option N) (l : list A) : list A :=
  match size with
  | Some n => if (n =? 0)%N then l else firstn (N.to_nat n) l
  | None => l
  end.

(* ---------- to_arrow ---------- *)
Section Transpose.
Variable C : Type.   (* a cell *)

(* one step of zip: put the cells of a row in front of the columns; stops at the shorter *)
Fixpoint zip_cons (r : list C) (cols : list (list C)) : list (list C) :=
  match r, cols with
  | x :: r', c :: cs => (x :: c) :: zip_cons r' cs
  | _, _ => []
  end.

Definition zip_from (w : nat) (rows : list (list C)) : list (list C) :=
  fold_right zip_cons (repeat [] w) rows.

(* Python list(zip( *rows )): as many columns as the shortest row has cells; no row -> no column.
   The same function reads a table's rows across its columns (itertuples). *)
Definition zip_star (rows : list (list C)) : list (list C) :=
  match rows with
  | [] => []
  | r :: _ => zip_from (length r) rows
  end.

(* DataFrame.head(size) as to_arrow calls it: only for size is not None and size >= 0 *)
Definition head (size : option Z) (rows : list (list C)) : list (list C) :=
  match size with
  | Some z => if (0 <=? z)%Z then firstn (Z.to_nat z) rows else rows
  | None => rows
  end.

(* the arrays handed to pyarrow.Table.from_arrays: rowcount == 0 -> one empty list per column *)
Definition to_arrow_cols (rows : list (list C)) (ncols : nat) (size : option Z) : list (list C) :=
  match head size rows with
  | [] => repeat [] ncols
  | r :: rs => zip_star (r :: rs)
  end.

End Transpose.

Arguments zip_cons {C}. Arguments zip_from {C}. Arguments zip_star {C}. Arguments head {C}. Arguments to_arrow_cols {C}.

(* ---------- the frame as an object with state: repeated use of ONE DataFrame ----------
   orso/dataframe.py: a DataFrame holds its rows either as a list or as a one-shot iterator (what from_arrow
   returns, or a generator handed to the constructor).  materialize() (184-189) replaces the iterator by
   list(iterator); rowcount (418-421), slice (245-253, hence head) materialize first.  to_arrow (converters
   72-86) reaches the rows only through head() / rowcount, so it leaves the frame materialized.  The cursor
   used by fetchone/fetchmany/fetchall is NOT modelled (it shares the iterator of a lazy frame). *)
(* the calls made on the frame: DataFrame.arrow(size), .rowcount, .materialize() *)
Inductive fop := OpArrow (size : option Z) | OpRowcount | OpMaterialize.

Section Frame.
Variable C : Type.                                   (* a cell *)
Variable T : Type.                                   (* an Arrow table *)
Variable process_table : T -> N -> list (list C).

Inductive frame :=
| FLazy (it : iter (list C) T)       (* self._rows is the rows iterator, not yet consumed *)
| FList (rows : list (list C)).      (* self._rows is a list *)

(* enough next() calls to exhaust the iterator: what is buffered plus what every pending table delivers *)
Definition fuel_of (s : iter (list C) T) : nat :=
  S (length (cur s) + length (concat (map (fun t => process_table t (bsz s)) (tabs s)))).

(* list(self._rows) on the iterator *)
Definition collect (s : iter (list C) T) : list (list C) := drain process_table (fuel_of s) s.

Definition materialize (f : frame) : frame :=
  match f with FLazy it => FList (collect it) | FList r => FList r end.

(* self._rows once materialize() has run *)
Definition frame_rows (f : frame) : list (list C) :=
  match f with FLazy it => collect it | FList r => r end.

(* `if dataset.rowcount == 0: [list() for each column] else list(zip( *dataset._rows))` *)
Definition arrays (rows : list (list C)) (ncols : nat) : list (list C) :=
  match rows with [] => repeat [] ncols | r :: rs => zip_star (r :: rs) end.

(* to_arrow(self, size) on the frame object: the frame afterwards and the arrays given to Table.from_arrays *)
Definition to_arrow_frame (f : frame) (ncols : nat) (size : option Z) : frame * list (list C) :=
  match size with
  | Some z =>
      if (0 <=? z)%Z then
        let f1 := materialize f in                                  (* head(size) -> slice(0, size): self.materialize() *)
        let d := FList (firstn (Z.to_nat z) (frame_rows f1)) in     (* the new, list-backed frame *)
        (f1, arrays (frame_rows (materialize d)) ncols)             (* d.rowcount, then zip( *d._rows) *)
      else
        let f1 := materialize f in (f1, arrays (frame_rows f1) ncols)
  | None => let f1 := materialize f in (f1, arrays (frame_rows f1) ncols)   (* dataset.rowcount materializes self *)
  end.

Inductive fout := OutTable (cols : list (list C)) | OutCount (n : nat) | OutNone.

Definition fstep (ncols : nat) (f : frame) (op : fop) : frame * fout :=
  match op with
  | OpArrow size => let '(f1, cols) := to_arrow_frame f ncols size in (f1, OutTable cols)
  | OpRowcount => let f1 := materialize f in (f1, OutCount (length (frame_rows f1)))
  | OpMaterialize => (materialize f, OutNone)
  end.

(* a sequence of calls on the same frame object: what each call returns *)
Fixpoint frun (ncols : nat) (f : frame) (ops : list fop) : list fout :=
  match ops with
  | [] => []
  | op :: r => let '(f1, o) := fstep ncols f op in o :: frun ncols f1 r
  end.

(* what the property promises for a frame holding the rows E, whatever was called before *)
Definition expected_out (E : list (list C)) (ncols : nat) (op : fop) : fout :=
  match op with
  | OpArrow size => OutTable (to_arrow_cols E ncols size)
  | OpRowcount => OutCount (length E)
  | OpMaterialize => OutNone
  end.

(* Round 3: the frame's column names are part of its state: a column of the frame's schema (or the caller's list of
   names, which the frame keeps by reference) may be renamed in place between two calls.  dataframe.py column_names
   (400-405) reads the schema as it is NOW. *)
Variable Nm : Type.

Inductive sop := SOp (op : fop) | SRename (j : nat) (nm : Nm).

Fixpoint set_nth (j : nat) (x : Nm) (l : list Nm) : list Nm :=
  match l, j with
  | [], _ => []
  | _ :: r, 0 => x :: r
  | y :: r, S j' => y :: set_nth j' x r
  end.

(* every step reports the column names in force and what the call returned *)
Fixpoint srun (f : frame) (names : list Nm) (ops : list sop) : list (list Nm * fout) :=
  match ops with
  | [] => []
  | SOp op :: r => let '(f1, o) := fstep (length names) f op in (names, o) :: srun f1 names r
  | SRename j nm :: r => (set_nth j nm names, OutNone) :: srun f (set_nth j nm names) r
  end.

(* the promise: a function of the rows E held, the names in force and the call alone *)
Fixpoint sspec (E : list (list C)) (names : list Nm) (ops : list sop) : list (list Nm * fout) :=
  match ops with
  | [] => []
  | SOp op :: r => (names, expected_out E (length names) op) :: sspec E names r
  | SRename j nm :: r => (set_nth j nm names, OutNone) :: sspec E (set_nth j nm names) r
  end.

End Frame.

Arguments SOp {Nm}. Arguments SRename {Nm}. Arguments set_nth {Nm}. Arguments srun {C T} _ {Nm}. Arguments sspec {C Nm}.
Arguments FLazy {C T}. Arguments FList {C T}. Arguments fuel_of {C T}. Arguments collect {C T}.
Arguments materialize {C T}. Arguments frame_rows {C T}. Arguments arrays {C}. Arguments to_arrow_frame {C T}.
Arguments OutTable {C}. Arguments OutCount {C}. Arguments OutNone {C}.
Arguments fstep {C T}. Arguments frun {C T}. Arguments expected_out {C}.

(* ====================================================================================== *)
(* (b) column typing                                                                        *)
(* ====================================================================================== *)
Inductive atype :=
| APrim (id : N)
| ADec (id : N) (p s : Z)
| AList (id : N) (v : atype).     (* any type with a value_type *)

Record afield := mkField { fname : list N; ftype : atype; fnullable : bool }.

(* the FlatColumn attributes the property speaks about, as they are after construction *)
Record column := mkCol { cname : list N; ctype : N; celem : option N; cprec : option Z; cscale : option Z; cnullable : bool }.

Fixpoint assoc {V : Type} (k : N) (l : list (N * V)) : option V :=
  match l with
  | [] => None
  | (k', v) :: r => if (k =? k')%N then Some v else assoc k r
  end.

Definition optN_eqb (a b : option N) : bool :=
  match a, b with
  | None, None => true
  | Some x, Some y => (x =? y)%N
  | _, _ => false
  end.

Fixpoint assoc_opt {V : Type} (k : option N) (l : list (option N * V)) : option V :=
  match l with
  | [] => None
  | (k', v) :: r => if optN_eqb k k' then Some v else assoc_opt k r
  end.

(* ---------- FlatColumn.arrow_field ---------- *)
Definition apply_arg (a : sel * prule) (p s : option Z) : result Z :=
  let x := match fst a with SelPrecision => p | SelScale => s end in
  match snd a, x with
  | RIsNone d, None => Ok d
  | RIsNone _, Some v => Ok v
  | ROr d, None => Ok d
  | ROr d, Some v => if (v =? 0)%Z then Ok d else Ok v
  | RDirect, Some v => Ok v
  | RDirect, None => Raise TypeError          (* pyarrow.decimal128(None, ...) *)
  end.

(* pyarrow.decimal128(p, s): precision must be 1..38 (pyarrow's own check, modelled by hand) *)
Definition decimal128 (id : N) (p s : Z) : result atype :=
  if ((1 <=? p) && (p <=? 38))%Z then Ok (ADec id p s) else Raise ValueError.

Definition dec_entry (id : N) (p s : option Z) : result atype :=
  bind (apply_arg dec_arg0 p s) (fun a0 => bind (apply_arg dec_arg1 p s) (fun a1 => decimal128 id a0 a1)).

Definition tm_atype (e : tm) (p s : option Z) : result atype :=
  match e with
  | TmPrim i => Ok (APrim i)
  | TmList i v => Ok (AList i (APrim v))
  | TmDecimal i => dec_entry i p s
  end.

Definition is_tm_decimal (e : tm) : option N := match e with TmDecimal i => Some i | _ => None end.

(* the type_map literal is built first, for every column: its decimal128(...) entry may raise *)
Definition eager_decimal (p s : option Z) : result unit :=
  if dec_eager then
    match assoc ty_DECIMAL top_table with
    | Some (TmDecimal i) => bind (dec_entry i p s) (fun _ => Ok tt)
    | _ => Ok tt
    end
  else Ok tt.

Definition arrow_type_of (t : N) (e : option N) (p s : option Z) : result atype :=
  bind (eager_decimal p s) (fun _ =>
    if (t =? ty_ARRAY)%N then
      match assoc_opt e elem_table with
      | Some en => bind (tm_atype en p s) (fun v => Ok (AList arrow_list_id v))
      | None => Raise OtherError
      end
    else
      match assoc t top_table with
      | Some en => tm_atype en p s
      | None => Raise OtherError
      end).

Definition arrow_field_named (nm : list N) (c : column) : result afield :=
  bind (arrow_type_of (ctype c) (celem c) (cprec c) (cscale c)) (fun a => Ok (mkField nm a arrow_field_nullable)).

Definition arrow_field (c : column) : result afield := arrow_field_named (cname c) c.

(* ---------- arrow_type_map / FlatColumn.from_arrow ---------- *)
Inductive native := NatNone | NatClass (c : N) | NatDecimal (p s : Z).

Definition atype_id (a : atype) : N := match a with APrim i => i | ADec i _ _ => i | AList i _ => i end.

Definition pick (sl : sel) (a : atype) : result Z :=
  match a with
  | ADec _ p s => Ok (match sl with SelPrecision => p | SelScale => s end)
  | _ => Raise AttributeError
  end.

Definition arrow_type_map (a : atype) : result native :=
  match assoc (atype_id a) atm_table with
  | None => Raise ValueError
  | Some AtmNone => Ok NatNone
  | Some (AtmClass c) => Ok (NatClass c)
  | Some (AtmDecimal sp ss) => bind (pick sp a) (fun p => bind (pick ss a) (fun s => Ok (NatDecimal p s)))
  end.

Definition native_is (n : native) (c : N) : bool := match n with NatClass c' => (c' =? c)%N | _ => false end.

(* PYTHON_TO_ORSO_MAP.get(native): a DecimalFactory instance is not a key *)
Definition py2orso (n : native) : option N :=
  match n with
  | NatNone => assoc_opt None py2orso_table
  | NatClass c => assoc_opt (Some c) py2orso_table
  | NatDecimal _ _ => None
  end.

(* (type, element type, precision, scale) chosen by FlatColumn.from_arrow *)
Definition from_arrow_type (mab : bool) (a : atype) : result (N * option N * option Z * option Z) :=
  bind (arrow_type_map a) (fun nt =>
    match nt with
    | NatDecimal p s => Ok (ty_DECIMAL, None, Some p, Some s)
    | _ =>
      if mab && native_is nt cls_dict then Ok (ty_BLOB, None, None, None)
      else if native_is nt cls_list then
        match a with
        | AList _ v => bind (arrow_type_map v) (fun ne => Ok (ty_ARRAY, py2orso ne, None, None))
        | _ => Raise AttributeError
        end
      else Ok (match py2orso nt with Some t => t | None => ty_VARCHAR end, None, None, None)
    end).

(* ---------- FlatColumn.__init__, "validate decimal properties" (schema.py 202-208) ----------
   For a DECIMAL column: `if self.precision is None: self.precision = getcontext().prec` (ctor_ctx_prec, probed
   on every run), `if self.scale is None: self.scale = int(0.75 * self.precision)`.  A precision / scale that
   was given is kept as it is.  Tied to the live constructor by the probe table ctor_dec_probes (Gen). *)
Definition ctor_decimal (p s : option Z) : option Z * option Z :=
  let p' := match p with Some v => v | None => ctor_ctx_prec end in
  (Some p', Some (match s with Some v => v | None => Z.quot (3 * p') 4 end)).

(* FlatColumn(name=, type=<member>, element_type=, precision=, scale=, nullable=): the attributes the object has *)
Definition flat_column (nm : list N) (t : N) (e : option N) (p s : option Z) (nl : bool) : column :=
  if (t =? ty_DECIMAL)%N then mkCol nm t e (fst (ctor_decimal p s)) (snd (ctor_decimal p s)) nl
  else mkCol nm t e p s nl.

(* the column object built from requested attributes (given as a record) *)
Definition construct (r : column) : column :=
  flat_column (cname r) (ctype r) (celem r) (cprec r) (cscale r) (cnullable r).

(* ---------- one FlatColumn OBJECT, modified in place between two reads (Round 3) ----------
   Attribute assignment (column.type = ..., column.precision = ...) does not go through __init__.  arrow_field is a
   property: it describes the attributes as they are when it is read, and so does
   convert_orso_schema_to_arrow_schema on a schema holding the object. *)
Inductive cop :=
| CSetType (t : N) | CSetElem (e : option N) | CSetPrec (p : option Z) | CSetScale (s : option Z)
| CSetName (nm : list N) | CSetNullable (b : bool)
| CCopy                        (* the object is replaced by copy.copy / copy.deepcopy / a pickle round trip of itself *)
| CField                       (* read column.arrow_field *)
| CSchema (use_ids : bool).    (* convert_orso_schema_to_arrow_schema(RelationSchema(columns=[column]), use_ids) *)

Definition capply (c : column) (op : cop) : column :=
  match op with
  | CSetType t => mkCol (cname c) t (celem c) (cprec c) (cscale c) (cnullable c)
  | CSetElem e => mkCol (cname c) (ctype c) e (cprec c) (cscale c) (cnullable c)
  | CSetPrec p => mkCol (cname c) (ctype c) (celem c) p (cscale c) (cnullable c)
  | CSetScale s => mkCol (cname c) (ctype c) (celem c) (cprec c) s (cnullable c)
  | CSetName nm => mkCol nm (ctype c) (celem c) (cprec c) (cscale c) (cnullable c)
  | CSetNullable b => mkCol (cname c) (ctype c) (celem c) (cprec c) (cscale c) b
  | CCopy | CField | CSchema _ => c
  end.

(* FlatColumn.from_arrow ends in the FlatColumn(...) constructor *)
Definition from_arrow_field (mab : bool) (f : afield) : result column :=
  bind (from_arrow_type mab (ftype f)) (fun '(t, e, p, s) => Ok (flat_column (fname f) t e p s (fnullable f))).

(* ---------- schema-level converters ---------- *)
Fixpoint mapM {A B : Type} (f : A -> result B) (l : list A) : result (list B) :=
  match l with
  | [] => Ok []
  | x :: r => bind (f x) (fun y => bind (mapM f r) (fun ys => Ok (y :: ys)))
  end.

(* convert_orso_schema_to_arrow_schema(schema, use_identities); a column comes with its identity *)
Definition orso_to_arrow_schema (use_ids : bool) (cols : list (list N * column)) : result (list afield) :=
  mapM (fun ic => arrow_field_named (if use_ids then fst ic else cname (snd ic)) (snd ic)) cols.

(* convert_arrow_schema_to_orso_schema / the schema from_arrow derives from the first table *)
Definition arrow_to_orso_schema (fs : list afield) : result (list column) := mapM (from_arrow_field false) fs.

(* what a read returns: the attributes in force, the name the field must carry, the field(s) *)
Definition cout (ident : list N) (c : column) (op : cop) : option (column * list N * result (list afield)) :=
  match op with
  | CField => Some (c, cname c, bind (arrow_field c) (fun f => Ok [f]))
  | CSchema ids => Some (c, if ids then ident else cname c, orso_to_arrow_schema ids [(ident, c)])
  | _ => None
  end.

Fixpoint crun (ident : list N) (c : column) (ops : list cop) : list (option (column * list N * result (list afield))) :=
  match ops with
  | [] => []
  | op :: r => cout ident c op :: crun ident (capply c op) r
  end.

(* ---------- the class of columns the typing clause of the property quantifies over ---------- *)
Definition all_types : list N := map fst c11_type_names.

(* the two types deliberately carried as binary, and the untyped placeholder *)
Definition excluded (t : N) : bool := ((t =? ty_STRUCT) || (t =? ty_JSONB) || (t =? ty_MISSING_TYPE))%N.

Definition is_none {A : Type} (o : option A) : bool := match o with None => true | Some _ => false end.

(* a column of a member type that is not excluded; ARRAY with an element type from_name accepts (not excluded);
   DECIMAL(p, s) with 1 <= p <= 38, 0 <= s <= p; every other type without element type, precision, scale *)
Definition roundtrippable (c : column) : bool :=
  existsb (N.eqb (ctype c)) all_types && negb (excluded (ctype c)) &&
  (if (ctype c =? ty_ARRAY)%N then
     match celem c with
     | Some e => existsb (N.eqb e) accepted_elems && negb (excluded e)
     | None => false
     end && is_none (cprec c) && is_none (cscale c)
   else if (ctype c =? ty_DECIMAL)%N then
     is_none (celem c) &&
     match cprec c, cscale c with
     | Some p, Some s => ((1 <=? p) && (p <=? 38) && (0 <=? s) && (s <=? p))%Z
     | _, _ => false
     end
   else is_none (celem c) && is_none (cprec c) && is_none (cscale c)).

(* ====================================================================================== *)
(* comparison functions used by the correspondence files                                    *)
(* ====================================================================================== *)
Inductive cell :=
| CNone
| CBool (b : bool)
| CInt (z : Z)
| CFloat (bits : N)            (* binary64 bit pattern; every NaN is 0x7FF8000000000000 *)
| CStr (s : list N)
| CBytes (b : list N)
| CTs (ns : Z)                 (* nanoseconds since 1970-01-01 *)
| CTz (ns : Z) (off : Z)       (* time-zone-aware instant: nanoseconds since 1970-01-01T00:00Z, UTC offset in seconds *)
| CDate (days : Z)
| CDec (unscaled exp : Z)      (* normalised: unscaled not divisible by 10, or 0 with exp 0 *)
| CList (l : list cell)
| COther (tag : N).            (* a value of an unexpected Python type *)

Fixpoint listN_eqb (a b : list N) : bool :=
  match a, b with
  | [], [] => true
  | x :: r, y :: s => (x =? y)%N && listN_eqb r s
  | _, _ => false
  end.

Definition is_nan (bits : N) : bool :=
  ((N.shiftr bits 52 mod 2048 =? 2047) && negb (bits mod 4503599627370496 =? 0))%N.

(* [cell_agree expected observed]: equal, except that an expected NaN may be observed as None *)
Fixpoint cell_agree (e o : cell) : bool :=
  match e, o with
  | CNone, CNone => true
  | CBool a, CBool b => Bool.eqb a b
  | CInt a, CInt b => (a =? b)%Z
  | CFloat a, CFloat b => (a =? b)%N
  | CFloat a, CNone => is_nan a
  | CStr a, CStr b => listN_eqb a b
  | CBytes a, CBytes b => listN_eqb a b
  | CTs a, CTs b => (a =? b)%Z
  | CTz a x, CTz b y => ((a =? b) && (x =? y))%Z
  | CDate a, CDate b => (a =? b)%Z
  | CDec a x, CDec b y => ((a =? b) && (x =? y))%Z
  | CList l1, CList l2 =>
      (fix go (l1 l2 : list cell) : bool :=
         match l1, l2 with
         | [], [] => true
         | x :: r, y :: s => cell_agree x y && go r s
         | _, _ => false
         end) l1 l2
  | _, _ => false
  end.

Fixpoint row_agree (e o : list cell) : bool :=
  match e, o with
  | [], [] => true
  | x :: r, y :: s => cell_agree x y && row_agree r s
  | _, _ => false
  end.

Fixpoint rows_agree (e o : list (list cell)) : bool :=
  match e, o with
  | [], [] => true
  | x :: r, y :: s => row_agree x y && rows_agree r s
  | _, _ => false
  end.

Fixpoint outs_agree (e o : list (option (list cell))) : bool :=
  match e, o with
  | [], [] => true
  | None :: r, None :: s => outs_agree r s
  | Some x :: r, Some y :: s => row_agree x y && outs_agree r s
  | _, _ => false
  end.

Definition optZ_eqb (a b : option Z) : bool :=
  match a, b with
  | None, None => true
  | Some x, Some y => (x =? y)%Z
  | _, _ => false
  end.

Fixpoint atype_eqb (a b : atype) : bool :=
  match a, b with
  | APrim i, APrim j => (i =? j)%N
  | ADec i p s, ADec j q t => ((i =? j)%N && (p =? q)%Z && (s =? t)%Z)
  | AList i v, AList j w => (i =? j)%N && atype_eqb v w
  | _, _ => false
  end.

Definition afield_eqb (a b : afield) : bool :=
  listN_eqb (fname a) (fname b) && atype_eqb (ftype a) (ftype b) && Bool.eqb (fnullable a) (fnullable b).

Definition column_eqb (a b : column) : bool :=
  listN_eqb (cname a) (cname b) && (ctype a =? ctype b)%N && optN_eqb (celem a) (celem b)
  && optZ_eqb (cprec a) (cprec b) && optZ_eqb (cscale a) (cscale b) && Bool.eqb (cnullable a) (cnullable b).

Definition exn_eqb (a b : exn) : bool :=
  match a, b with
  | ValueError, ValueError | TypeError, TypeError | AttributeError, AttributeError | OtherError, OtherError => true
  | _, _ => false
  end.

Definition result_eqb {A : Type} (eqb : A -> A -> bool) (a b : result A) : bool :=
  match a, b with
  | Ok x, Ok y => eqb x y
  | Raise e, Raise f => exn_eqb e f
  | _, _ => false
  end.

Fixpoint list_eqb {A : Type} (eqb : A -> A -> bool) (a b : list A) : bool :=
  match a, b with
  | [], [] => true
  | x :: r, y :: s => eqb x y && list_eqb eqb r s
  | _, _ => false
  end.

(* concrete instance 1: a table is the list of its rows; process_table returns them whatever the batch size
   (this IS the oracle premise of the theorems: the run checks it against the real process_table) *)
Definition pt_rows (t : list (list cell)) (_ : N) : list (list cell) := t.

(* (tables, size, number of next() calls, what each call returned, Arrow fields of the first table, Orso columns derived) *)
Definition stream_case : Type :=
  list (list (list cell)) * option N * nat * list (option (list cell)) * list afield * result (list column).

Definition c11_show_stream (c : stream_case) :=
  let '(tables, size, k, obs, fields, cols) := c in
  (nexts pt_rows k (from_arrow_iter tables size), arrow_to_orso_schema fields).

Definition c11_check_stream (c : stream_case) : bool :=
  let '(tables, size, k, obs, fields, cols) := c in
  outs_agree (nexts pt_rows k (from_arrow_iter tables size)) obs
  && result_eqb (list_eqb column_eqb) (arrow_to_orso_schema fields) cols.

(* process_table called directly with every batch size: each result must be the table's rows *)
Definition c11_check_batch (c : list (list cell) * list (list (list cell))) : bool :=
  let '(rows, obs) := c in forallb (rows_agree rows) obs.

(* concrete instance 2: a table is the list of its columns (Table.from_arrays keeps them); process_table reads
   rows across the columns *)
Definition pt_cols (t : list (list cell)) (_ : N) : list (list cell) := zip_star t.

(* (rows, column names, size given to arrow(), next() calls, observed, Arrow fields of the table, Orso columns after) *)
Definition roundtrip_case : Type :=
  list (list cell) * list (list N) * option Z * nat * list (option (list cell)) * list afield * result (list column).

Definition c11_show_roundtrip (c : roundtrip_case) :=
  let '(rows, names, size, k, obs, fields, cols) := c in
  nexts pt_cols k (from_arrow_iter [to_arrow_cols rows (length names) size] None).

Definition c11_check_roundtrip (c : roundtrip_case) : bool :=
  let '(rows, names, size, k, obs, fields, cols) := c in
  outs_agree (nexts pt_cols k (from_arrow_iter [to_arrow_cols rows (length names) size] None)) obs
  && list_eqb listN_eqb (map fname fields) names
  && result_eqb (list_eqb column_eqb) (arrow_to_orso_schema fields) cols
  && match cols with Ok cs => list_eqb listN_eqb (map cname cs) names | Raise _ => true end.

(* (column as constructed, observed arrow_field, observed FlatColumn.from_arrow of that field) *)
Definition c11_show_o2a (c : option column * column * result afield * result column) :=
  let '(req, col, f, back) := c in
  (match req with Some r => Some (construct r) | None => None end,
   arrow_field col, match f with Ok fl => from_arrow_field false fl | Raise e => Raise e end).

(* the typing clause itself, on what the implementation returned: a roundtrippable column comes back with the
   same type, element type, precision, scale and name (nullability is the Arrow field's) *)
Definition came_back_named (nm : list N) (col : column) (f : result afield) (back : result column) : bool :=
  if roundtrippable col then
    match f, back with
    | Ok fl, Ok b => listN_eqb (fname fl) nm &&
                     column_eqb b (mkCol nm (ctype col) (celem col) (cprec col) (cscale col) (fnullable fl))
    | _, _ => false
    end
  else true.

Definition came_back (col : column) (f : result afield) (back : result column) : bool :=
  came_back_named (cname col) col f back.

(* the same, column by column, for the schema-level converters (fields named after identities if asked) *)
Fixpoint came_back_all (use_ids : bool) (cols : list (list N * column)) (fs : list afield) (bs : list column) : bool :=
  match cols, fs, bs with
  | [], [], [] => true
  | ic :: cols', f :: fs', b :: bs' =>
      came_back_named (if use_ids then fst ic else cname (snd ic)) (snd ic) (Ok f) (Ok b) && came_back_all use_ids cols' fs' bs'
  | _, _, _ => false
  end.

(* the column the constructor was ASKED for (None: not expressible) next to the column it built: the constructor
   must build what the model says (a given precision / scale is kept), and the typing clause is applied to the
   requested attributes as well as to the constructed ones *)
Definition built_as_asked (req : option column) (col : column) : bool :=
  match req with Some r => column_eqb (construct r) col | None => true end.

Definition c11_check_o2a (c : option column * column * result afield * result column) : bool :=
  let '(req, col, f, back) := c in
  built_as_asked req col
  && result_eqb afield_eqb (arrow_field col) f
  && match f with Ok fl => result_eqb column_eqb (from_arrow_field false fl) back | Raise _ => true end
  && came_back col f back
  && match req with Some r => came_back (construct r) f back | None => true end.

Definition c11_show_a2o (c : bool * afield * result column) :=
  let '(mab, f, col) := c in from_arrow_field mab f.

Definition c11_check_a2o (c : bool * afield * result column) : bool :=
  let '(mab, f, col) := c in result_eqb column_eqb (from_arrow_field mab f) col.

(* (use identities, requested attributes per column, (identity, column as constructed) per column, fields, columns back) *)
Definition schema_case : Type := bool * list (option column) * list (list N * column) * result (list afield) * result (list column).

Definition c11_show_schema (c : schema_case) :=
  let '(ids, reqs, cols, fs, back) := c in
  (orso_to_arrow_schema ids cols, match fs with Ok l => arrow_to_orso_schema l | Raise e => Raise e end).

Fixpoint built_all (reqs : list (option column)) (cols : list (list N * column)) : bool :=
  match reqs, cols with
  | [], [] => true
  | r :: reqs', ic :: cols' => built_as_asked r (snd ic) && built_all reqs' cols'
  | _, _ => false
  end.

Definition c11_check_schema (c : schema_case) : bool :=
  let '(ids, reqs, cols, fs, back) := c in
  built_all reqs cols &&
  result_eqb (list_eqb afield_eqb) (orso_to_arrow_schema ids cols) fs
  && match fs with Ok l => result_eqb (list_eqb column_eqb) (arrow_to_orso_schema l) back | Raise _ => true end
  && match fs, back with
     | Ok l, Ok bs => came_back_all ids cols l bs
     | _, _ => negb (existsb (fun ic => roundtrippable (snd ic)) cols)
     end.

Definition batch_case : Type := list (list cell) * list (list (list cell)).
Definition o2a_case : Type := option column * column * result afield * result column.
Definition a2o_case : Type := bool * afield * result column.

(* ---------- repeated use of one frame ---------- *)
(* what was observed for each call: an exported table (its column names, num_rows, its rows read column by column),
   a row count, or nothing (materialize) *)
Inductive fobs := ObsTable (names : list (list N)) (nrows : N) (rows : list (list cell)) | ObsCount (n : N) | ObsNone.

Fixpoint all2 {A B : Type} (f : A -> B -> bool) (a : list A) (b : list B) : bool :=
  match a, b with
  | [], [] => true
  | x :: r, y :: t => f x y && all2 f r t
  | _, _ => false
  end.

Definition fout_agree (names : list (list N)) (m : fout cell) (o : fobs) : bool :=
  match m, o with
  | OutTable cols, ObsTable onames nrows rows =>
      list_eqb listN_eqb names onames
      && (N.of_nat (match cols with [] => 0 | c :: _ => length c end) =? nrows)%N
      && rows_agree (zip_star cols) rows
  | OutCount n, ObsCount k => (N.of_nat n =? k)%N
  | OutNone, ObsNone => true
  | _, _ => false
  end.

Definition sout_agree (m : list (list N) * fout cell) (o : fobs) : bool := fout_agree (fst m) (snd m) o.

(* (lazily backed?, the tables / the row lists the frame is built over, column names, the calls, what they returned) *)
Definition frameops_case : Type := bool * list (list (list cell)) * list (list N) * list (sop (list N)) * list fobs.

Definition frame_of (lazy : bool) (tables : list (list (list cell))) : frame cell (list (list cell)) :=
  if lazy then FLazy (from_arrow_iter tables None) else FList (concat tables).

Definition c11_show_frameops (c : frameops_case) :=
  let '(lazy, tables, names, ops, obs) := c in srun pt_rows (frame_of lazy tables) names ops.

Definition c11_check_frameops (c : frameops_case) : bool :=
  let '(lazy, tables, names, ops, obs) := c in
  all2 sout_agree (srun pt_rows (frame_of lazy tables) names ops) obs.

(* ---------- Round 3: the rows iterator consumed in several steps ---------- *)
(* (tables, size, the steps, the rows each step delivered) *)
Definition iterops_case : Type := list (list (list cell)) * option N * list iop * list (list (list cell)).

Definition c11_show_iterops (c : iterops_case) :=
  let '(tables, size, ops, obs) := c in irun pt_rows (from_arrow_iter tables size) ops.

Definition c11_check_iterops (c : iterops_case) : bool :=
  let '(tables, size, ops, obs) := c in all2 rows_agree (irun pt_rows (from_arrow_iter tables size) ops) obs.

(* ---------- Round 3: one column object modified in place ---------- *)
(* per step: nothing (an assignment), or what the read returned: the field(s) and the column(s) FlatColumn.from_arrow makes of them *)
Definition colops_case : Type :=
  list N * column * list cop * list (option (result (list afield) * result (list column))).

Definition cread_agree (m : option (column * list N * result (list afield)))
                       (o : option (result (list afield) * result (list column))) : bool :=
  match m, o with
  | None, None => true
  | Some (cur, nm, fs), Some (ofs, back) =>
      result_eqb (list_eqb afield_eqb) fs ofs
      && match ofs with
         | Ok [fl] => result_eqb (list_eqb column_eqb) (bind (from_arrow_field false fl) (fun b => Ok [b])) back
                      && came_back_named nm cur (Ok fl) (match back with Ok [b] => Ok b | Ok _ => Raise OtherError | Raise e => Raise e end)
         | Ok _ => false
         | Raise _ => negb (roundtrippable cur)
         end
  | _, _ => false
  end.

Definition c11_show_colops (c : colops_case) :=
  let '(ident, col, ops, obs) := c in crun ident col ops.

Definition c11_check_colops (c : colops_case) : bool :=
  let '(ident, col, ops, obs) := c in all2 cread_agree (crun ident col ops) obs.

(* ---------- Round 6: the caller's list of tables converted several times ---------- *)
(* (the tables, per conversion: size and steps, per conversion: the rows each step delivered and len(list) afterwards) *)
Definition listops_case : Type :=
  list (list (list cell)) * list (option N * list iop) * list (list (list (list cell)) * N).

Definition lout_agree (m : list (list (list cell)) * nat) (o : list (list (list cell)) * N) : bool :=
  all2 rows_agree (fst m) (fst o) && (N.of_nat (snd m) =? snd o)%N.

Definition c11_show_listops (c : listops_case) :=
  let '(tables, ops, obs) := c in lrun pt_rows tables ops.

Definition c11_check_listops (c : listops_case) : bool :=
  let '(tables, ops, obs) := c in all2 lout_agree (lrun pt_rows tables ops) obs.
