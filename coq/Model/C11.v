(* C11 - executable model of the Arrow interchange.  No proofs here.

   (a) rows:   orso/converters.py  _RowsIterator (23-69), from_arrow (89-126), to_arrow (72-86);
               compiled.process_table (compiled.pyx 173-196) and pyarrow.Table.from_arrays are
               ORACLES (Section variables): the model never looks inside a table.
   (b) types:  orso/schema.py FlatColumn.from_arrow (218-261), arrow_field (290-319), the schema-level
               converters (715-731) and orso/tools.py arrow_type_map (588-646), as lookups in the
               tables regenerated into Gen/C11_ArrowMap.v on every run. *)
From Coq Require Import List NArith ZArith Bool.
From Orso Require Import Gen.C11_ArrowMap.
Import ListNotations.

Inductive exn := ValueError | TypeError | AttributeError | OtherError.
Inductive result (A : Type) := Ok (a : A) | Raise (e : exn).
Arguments Ok {A}. Arguments Raise {A}.

Definition bind {A B : Type} (r : result A) (f : A -> result B) : result B :=
  match r with Ok a => f a | Raise e => Raise e end.

(* ====================================================================================== *)
(* (a) the rows iterator                                                                    *)
(* ====================================================================================== *)
Section Stream.
Variable R : Type.                          (* a delivered row: row_factory(tuple) *)
Variable T : Type.                          (* an Arrow table *)
Variable process_table : T -> N -> list R.  (* compiled.process_table(table, row_factory, max_chunksize) *)

(* _RowsIterator: self.tables (not yet fetched), self.current_rows (not yet delivered),
   self.rows_processed, self.batch_size, self.max_size (None = float("inf")) *)
Record iter := mkIt { tabs : list T; cur : list R; done : nat; bsz : N; cap : option N }.

(* the `while row is None` loop: take tables until one yields a row *)
Fixpoint fetch (ts : list T) (b : N) : option (R * list R * list T) :=
  match ts with
  | [] => None
  | t :: rest => match process_table t b with
                 | [] => fetch rest b
                 | r :: rs => Some (r, rs, rest)
                 end
  end.

Definition capped (s : iter) : bool :=
  match cap s with Some c => (c <=? N.of_nat (done s))%N | None => false end.

(* __next__ : None = StopIteration *)
Definition next (s : iter) : option R * iter :=
  if capped s then (None, s)
  else match cur s with
       | r :: rs => (Some r, mkIt (tabs s) rs (S (done s)) (bsz s) (cap s))
       | [] => match fetch (tabs s) (bsz s) with
               | None => (None, mkIt [] [] (done s) (bsz s) (cap s))
               | Some (r, rs, rest) => (Some r, mkIt rest rs (S (done s)) (bsz s) (cap s))
               end
       end.

(* k successive calls of next() *)
Fixpoint nexts (k : nat) (s : iter) : list (option R) :=
  match k with
  | 0 => []
  | S k' => let '(o, s') := next s in o :: nexts k' s'
  end.

(* what a for loop / list() collects: rows until the first StopIteration *)
Fixpoint drain (fuel : nat) (s : iter) : list R :=
  match fuel with
  | 0 => []
  | S f => match next s with
           | (Some r, s') => r :: drain f s'
           | (None, _) => []
           end
  end.

(* from_arrow(tables, size): `if size:` (None and 0 are falsy) -> BATCH_SIZE = min(size, BATCH_SIZE), cap = size;
   otherwise cap = inf.  An empty table list gives iter([]), which is the iterator over no tables. *)
Definition from_arrow_iter (tables : list T) (size : option N) : iter :=
  match size with
  | Some n => if (n =? 0)%N then mkIt tables [] 0 c11_batch_size None
              else mkIt tables [] 0 (N.min n c11_batch_size) (Some n)
  | None => mkIt tables [] 0 c11_batch_size None
  end.

End Stream.

Arguments mkIt {R T}. Arguments tabs {R T}. Arguments cur {R T}. Arguments done {R T}.
Arguments bsz {R T}. Arguments cap {R T}. Arguments fetch {R T}. Arguments capped {R T}.
Arguments next {R T}. Arguments nexts {R T}. Arguments drain {R T}. Arguments from_arrow_iter {R T}.

(* what the property promises: the first `size` rows (all of them for None; 0 is read as None by `if size`) *)
Definition limit {A : Type} (size : option N) (l : list A) : list A :=
  match size with
  | Some n => if (n =? 0)%N then l else firstn (N.to_nat n) l
  | None => l
  end.

(* ---------- to_arrow ---------- *)
Section Transpose.
Variable C : Type.   (* a cell *)

(* one step of zip: put the cells of a row in front of the columns; stops at the shorter *)
Fixpoint zip_cons (r : list C) (cols : list (list C)) : list (list C) :=
  match r, cols with
  | x :: r', c :: cs => (x :: c) :: zip_cons r' cs
  | _, _ => []
  end.

Definition zip_from (w : nat) (rows : list (list C)) : list (list C) :=
  fold_right zip_cons (repeat [] w) rows.

(* Python list(zip( *rows )): as many columns as the shortest row has cells; no row -> no column.
   The same function reads a table's rows across its columns (itertuples). *)
Definition zip_star (rows : list (list C)) : list (list C) :=
  match rows with
  | [] => []
  | r :: _ => zip_from (length r) rows
  end.

(* DataFrame.head(size) as to_arrow calls it: only for size is not None and size >= 0 *)
Definition head (size : option Z) (rows : list (list C)) : list (list C) :=
  match size with
  | Some z => if (0 <=? z)%Z then firstn (Z.to_nat z) rows else rows
  | None => rows
  end.

(* the arrays handed to pyarrow.Table.from_arrays: rowcount == 0 -> one empty list per column *)
Definition to_arrow_cols (rows : list (list C)) (ncols : nat) (size : option Z) : list (list C) :=
  match head size rows with
  | [] => repeat [] ncols
  | r :: rs => zip_star (r :: rs)
  end.

End Transpose.

Arguments zip_cons {C}. Arguments zip_from {C}. Arguments zip_star {C}. Arguments head {C}. Arguments to_arrow_cols {C}.

(* ====================================================================================== *)
(* (b) column typing                                                                        *)
(* ====================================================================================== *)
Inductive atype :=
| APrim (id : N)
| ADec (id : N) (p s : Z)
| AList (id : N) (v : atype).     (* any type with a value_type *)

Record afield := mkField { fname : list N; ftype : atype; fnullable : bool }.

(* the FlatColumn attributes the property speaks about, as they are after construction *)
Record column := mkCol { cname : list N; ctype : N; celem : option N; cprec : option Z; cscale : option Z; cnullable : bool }.

Fixpoint assoc {V : Type} (k : N) (l : list (N * V)) : option V :=
  match l with
  | [] => None
  | (k', v) :: r => if (k =? k')%N then Some v else assoc k r
  end.

Definition optN_eqb (a b : option N) : bool :=
  match a, b with
  | None, None => true
  | Some x, Some y => (x =? y)%N
  | _, _ => false
  end.

Fixpoint assoc_opt {V : Type} (k : option N) (l : list (option N * V)) : option V :=
  match l with
  | [] => None
  | (k', v) :: r => if optN_eqb k k' then Some v else assoc_opt k r
  end.

(* ---------- FlatColumn.arrow_field ---------- *)
Definition apply_arg (a : sel * prule) (p s : option Z) : result Z :=
  let x := match fst a with SelPrecision => p | SelScale => s end in
  match snd a, x with
  | RIsNone d, None => Ok d
  | RIsNone _, Some v => Ok v
  | ROr d, None => Ok d
  | ROr d, Some v => if (v =? 0)%Z then Ok d else Ok v
  | RDirect, Some v => Ok v
  | RDirect, None => Raise TypeError          (* pyarrow.decimal128(None, ...) *)
  end.

(* pyarrow.decimal128(p, s): precision must be 1..38 (pyarrow's own check, modelled by hand) *)
Definition decimal128 (id : N) (p s : Z) : result atype :=
  if ((1 <=? p) && (p <=? 38))%Z then Ok (ADec id p s) else Raise ValueError.

Definition dec_entry (id : N) (p s : option Z) : result atype :=
  bind (apply_arg dec_arg0 p s) (fun a0 => bind (apply_arg dec_arg1 p s) (fun a1 => decimal128 id a0 a1)).

Definition tm_atype (e : tm) (p s : option Z) : result atype :=
  match e with
  | TmPrim i => Ok (APrim i)
  | TmList i v => Ok (AList i (APrim v))
  | TmDecimal i => dec_entry i p s
  end.

Definition is_tm_decimal (e : tm) : option N := match e with TmDecimal i => Some i | _ => None end.

(* the type_map literal is built first, for every column: its decimal128(...) entry may raise *)
Definition eager_decimal (p s : option Z) : result unit :=
  if dec_eager then
    match assoc ty_DECIMAL top_table with
    | Some (TmDecimal i) => bind (dec_entry i p s) (fun _ => Ok tt)
    | _ => Ok tt
    end
  else Ok tt.

Definition arrow_type_of (t : N) (e : option N) (p s : option Z) : result atype :=
  bind (eager_decimal p s) (fun _ =>
    if (t =? ty_ARRAY)%N then
      match assoc_opt e elem_table with
      | Some en => bind (tm_atype en p s) (fun v => Ok (AList arrow_list_id v))
      | None => Raise OtherError
      end
    else
      match assoc t top_table with
      | Some en => tm_atype en p s
      | None => Raise OtherError
      end).

Definition arrow_field_named (nm : list N) (c : column) : result afield :=
  bind (arrow_type_of (ctype c) (celem c) (cprec c) (cscale c)) (fun a => Ok (mkField nm a arrow_field_nullable)).

Definition arrow_field (c : column) : result afield := arrow_field_named (cname c) c.

(* ---------- arrow_type_map / FlatColumn.from_arrow ---------- *)
Inductive native := NatNone | NatClass (c : N) | NatDecimal (p s : Z).

Definition atype_id (a : atype) : N := match a with APrim i => i | ADec i _ _ => i | AList i _ => i end.

Definition pick (sl : sel) (a : atype) : result Z :=
  match a with
  | ADec _ p s => Ok (match sl with SelPrecision => p | SelScale => s end)
  | _ => Raise AttributeError
  end.

Definition arrow_type_map (a : atype) : result native :=
  match assoc (atype_id a) atm_table with
  | None => Raise ValueError
  | Some AtmNone => Ok NatNone
  | Some (AtmClass c) => Ok (NatClass c)
  | Some (AtmDecimal sp ss) => bind (pick sp a) (fun p => bind (pick ss a) (fun s => Ok (NatDecimal p s)))
  end.

Definition native_is (n : native) (c : N) : bool := match n with NatClass c' => (c' =? c)%N | _ => false end.

(* PYTHON_TO_ORSO_MAP.get(native): a DecimalFactory instance is not a key *)
Definition py2orso (n : native) : option N :=
  match n with
  | NatNone => assoc_opt None py2orso_table
  | NatClass c => assoc_opt (Some c) py2orso_table
  | NatDecimal _ _ => None
  end.

(* (type, element type, precision, scale) chosen by FlatColumn.from_arrow *)
Definition from_arrow_type (mab : bool) (a : atype) : result (N * option N * option Z * option Z) :=
  bind (arrow_type_map a) (fun nt =>
    match nt with
    | NatDecimal p s => Ok (ty_DECIMAL, None, Some p, Some s)
    | _ =>
      if mab && native_is nt cls_dict then Ok (ty_BLOB, None, None, None)
      else if native_is nt cls_list then
        match a with
        | AList _ v => bind (arrow_type_map v) (fun ne => Ok (ty_ARRAY, py2orso ne, None, None))
        | _ => Raise AttributeError
        end
      else Ok (match py2orso nt with Some t => t | None => ty_VARCHAR end, None, None, None)
    end).

Definition from_arrow_field (mab : bool) (f : afield) : result column :=
  bind (from_arrow_type mab (ftype f)) (fun '(t, e, p, s) => Ok (mkCol (fname f) t e p s (fnullable f))).

(* ---------- schema-level converters ---------- *)
Fixpoint mapM {A B : Type} (f : A -> result B) (l : list A) : result (list B) :=
  match l with
  | [] => Ok []
  | x :: r => bind (f x) (fun y => bind (mapM f r) (fun ys => Ok (y :: ys)))
  end.

(* convert_orso_schema_to_arrow_schema(schema, use_identities); a column comes with its identity *)
Definition orso_to_arrow_schema (use_ids : bool) (cols : list (list N * column)) : result (list afield) :=
  mapM (fun ic => arrow_field_named (if use_ids then fst ic else cname (snd ic)) (snd ic)) cols.

(* convert_arrow_schema_to_orso_schema / the schema from_arrow derives from the first table *)
Definition arrow_to_orso_schema (fs : list afield) : result (list column) := mapM (from_arrow_field false) fs.

(* ---------- the class of columns the typing clause of the property quantifies over ---------- *)
Definition all_types : list N := map fst c11_type_names.

(* the two types deliberately carried as binary, and the untyped placeholder *)
Definition excluded (t : N) : bool := ((t =? ty_STRUCT) || (t =? ty_JSONB) || (t =? ty_MISSING_TYPE))%N.

Definition is_none {A : Type} (o : option A) : bool := match o with None => true | Some _ => false end.

(* a column of a member type that is not excluded; ARRAY with an element type from_name accepts (not excluded);
   DECIMAL(p, s) with 1 <= p <= 38, 0 <= s <= p; every other type without element type, precision, scale *)
Definition roundtrippable (c : column) : bool :=
  existsb (N.eqb (ctype c)) all_types && negb (excluded (ctype c)) &&
  (if (ctype c =? ty_ARRAY)%N then
     match celem c with
     | Some e => existsb (N.eqb e) accepted_elems && negb (excluded e)
     | None => false
     end && is_none (cprec c) && is_none (cscale c)
   else if (ctype c =? ty_DECIMAL)%N then
     is_none (celem c) &&
     match cprec c, cscale c with
     | Some p, Some s => ((1 <=? p) && (p <=? 38) && (0 <=? s) && (s <=? p))%Z
     | _, _ => false
     end
   else is_none (celem c) && is_none (cprec c) && is_none (cscale c)).

(* ====================================================================================== *)
(* comparison functions used by the correspondence files                                    *)
(* ====================================================================================== *)
Inductive cell :=
| CNone
| CBool (b : bool)
| CInt (z : Z)
| CFloat (bits : N)            (* binary64 bit pattern; every NaN is 0x7FF8000000000000 *)
| CStr (s : list N)
| CBytes (b : list N)
| CTs (ns : Z)                 (* nanoseconds since 1970-01-01 *)
| CDate (days : Z)
| CDec (unscaled exp : Z)      (* normalised: unscaled not divisible by 10, or 0 with exp 0 *)
| CList (l : list cell)
| COther (tag : N).            (* a value of an unexpected Python type *)

Fixpoint listN_eqb (a b : list N) : bool :=
  match a, b with
  | [], [] => true
  | x :: r, y :: s => (x =? y)%N && listN_eqb r s
  | _, _ => false
  end.

Definition is_nan (bits : N) : bool :=
  ((N.shiftr bits 52 mod 2048 =? 2047) && negb (bits mod 4503599627370496 =? 0))%N.

(* [cell_agree expected observed]: equal, except that an expected NaN may be observed as None *)
Fixpoint cell_agree (e o : cell) : bool :=
  match e, o with
  | CNone, CNone => true
  | CBool a, CBool b => Bool.eqb a b
  | CInt a, CInt b => (a =? b)%Z
  | CFloat a, CFloat b => (a =? b)%N
  | CFloat a, CNone => is_nan a
  | CStr a, CStr b => listN_eqb a b
  | CBytes a, CBytes b => listN_eqb a b
  | CTs a, CTs b => (a =? b)%Z
  | CDate a, CDate b => (a =? b)%Z
  | CDec a x, CDec b y => ((a =? b) && (x =? y))%Z
  | CList l1, CList l2 =>
      (fix go (l1 l2 : list cell) : bool :=
         match l1, l2 with
         | [], [] => true
         | x :: r, y :: s => cell_agree x y && go r s
         | _, _ => false
         end) l1 l2
  | _, _ => false
  end.

Fixpoint row_agree (e o : list cell) : bool :=
  match e, o with
  | [], [] => true
  | x :: r, y :: s => cell_agree x y && row_agree r s
  | _, _ => false
  end.

Fixpoint rows_agree (e o : list (list cell)) : bool :=
  match e, o with
  | [], [] => true
  | x :: r, y :: s => row_agree x y && rows_agree r s
  | _, _ => false
  end.

Fixpoint outs_agree (e o : list (option (list cell))) : bool :=
  match e, o with
  | [], [] => true
  | None :: r, None :: s => outs_agree r s
  | Some x :: r, Some y :: s => row_agree x y && outs_agree r s
  | _, _ => false
  end.

Definition optZ_eqb (a b : option Z) : bool :=
  match a, b with
  | None, None => true
  | Some x, Some y => (x =? y)%Z
  | _, _ => false
  end.

Fixpoint atype_eqb (a b : atype) : bool :=
  match a, b with
  | APrim i, APrim j => (i =? j)%N
  | ADec i p s, ADec j q t => ((i =? j)%N && (p =? q)%Z && (s =? t)%Z)
  | AList i v, AList j w => (i =? j)%N && atype_eqb v w
  | _, _ => false
  end.

Definition afield_eqb (a b : afield) : bool :=
  listN_eqb (fname a) (fname b) && atype_eqb (ftype a) (ftype b) && Bool.eqb (fnullable a) (fnullable b).

Definition column_eqb (a b : column) : bool :=
  listN_eqb (cname a) (cname b) && (ctype a =? ctype b)%N && optN_eqb (celem a) (celem b)
  && optZ_eqb (cprec a) (cprec b) && optZ_eqb (cscale a) (cscale b) && Bool.eqb (cnullable a) (cnullable b).

Definition exn_eqb (a b : exn) : bool :=
  match a, b with
  | ValueError, ValueError | TypeError, TypeError | AttributeError, AttributeError | OtherError, OtherError => true
  | _, _ => false
  end.

Definition result_eqb {A : Type} (eqb : A -> A -> bool) (a b : result A) : bool :=
  match a, b with
  | Ok x, Ok y => eqb x y
  | Raise e, Raise f => exn_eqb e f
  | _, _ => false
  end.

Fixpoint list_eqb {A : Type} (eqb : A -> A -> bool) (a b : list A) : bool :=
  match a, b with
  | [], [] => true
  | x :: r, y :: s => eqb x y && list_eqb eqb r s
  | _, _ => false
  end.

(* concrete instance 1: a table is the list of its rows; process_table returns them whatever the batch size
   (this IS the oracle premise of the theorems: the run checks it against the real process_table) *)
Definition pt_rows (t : list (list cell)) (_ : N) : list (list cell) := t.

(* (tables, size, number of next() calls, what each call returned, Arrow fields of the first table, Orso columns derived) *)
Definition stream_case : Type :=
  list (list (list cell)) * option N * nat * list (option (list cell)) * list afield * result (list column).

Definition c11_show_stream (c : stream_case) :=
  let '(tables, size, k, obs, fields, cols) := c in
  (nexts pt_rows k (from_arrow_iter tables size), arrow_to_orso_schema fields).

Definition c11_check_stream (c : stream_case) : bool :=
  let '(tables, size, k, obs, fields, cols) := c in
  outs_agree (nexts pt_rows k (from_arrow_iter tables size)) obs
  && result_eqb (list_eqb column_eqb) (arrow_to_orso_schema fields) cols.

(* process_table called directly with every batch size: each result must be the table's rows *)
Definition c11_check_batch (c : list (list cell) * list (list (list cell))) : bool :=
  let '(rows, obs) := c in forallb (rows_agree rows) obs.

(* concrete instance 2: a table is the list of its columns (Table.from_arrays keeps them); process_table reads
   rows across the columns *)
Definition pt_cols (t : list (list cell)) (_ : N) : list (list cell) := zip_star t.

(* (rows, column names, size given to arrow(), next() calls, observed, Arrow fields of the table, Orso columns after) *)
Definition roundtrip_case : Type :=
  list (list cell) * list (list N) * option Z * nat * list (option (list cell)) * list afield * result (list column).

Definition c11_show_roundtrip (c : roundtrip_case) :=
  let '(rows, names, size, k, obs, fields, cols) := c in
  nexts pt_cols k (from_arrow_iter [to_arrow_cols rows (length names) size] None).

Definition c11_check_roundtrip (c : roundtrip_case) : bool :=
  let '(rows, names, size, k, obs, fields, cols) := c in
  outs_agree (nexts pt_cols k (from_arrow_iter [to_arrow_cols rows (length names) size] None)) obs
  && list_eqb listN_eqb (map fname fields) names
  && result_eqb (list_eqb column_eqb) (arrow_to_orso_schema fields) cols
  && match cols with Ok cs => list_eqb listN_eqb (map cname cs) names | Raise _ => true end.

(* (column as constructed, observed arrow_field, observed FlatColumn.from_arrow of that field) *)
Definition c11_show_o2a (c : column * result afield * result column) :=
  let '(col, f, back) := c in
  (arrow_field col, match f with Ok fl => from_arrow_field false fl | Raise e => Raise e end).

(* the typing clause itself, on what the implementation returned: a roundtrippable column comes back with the
   same type, element type, precision, scale and name (nullability is the Arrow field's) *)
Definition came_back_named (nm : list N) (col : column) (f : result afield) (back : result column) : bool :=
  if roundtrippable col then
    match f, back with
    | Ok fl, Ok b => listN_eqb (fname fl) nm &&
                     column_eqb b (mkCol nm (ctype col) (celem col) (cprec col) (cscale col) (fnullable fl))
    | _, _ => false
    end
  else true.

Definition came_back (col : column) (f : result afield) (back : result column) : bool :=
  came_back_named (cname col) col f back.

(* the same, column by column, for the schema-level converters (fields named after identities if asked) *)
Fixpoint came_back_all (use_ids : bool) (cols : list (list N * column)) (fs : list afield) (bs : list column) : bool :=
  match cols, fs, bs with
  | [], [], [] => true
  | ic :: cols', f :: fs', b :: bs' =>
      came_back_named (if use_ids then fst ic else cname (snd ic)) (snd ic) (Ok f) (Ok b) && came_back_all use_ids cols' fs' bs'
  | _, _, _ => false
  end.

Definition c11_check_o2a (c : column * result afield * result column) : bool :=
  let '(col, f, back) := c in
  result_eqb afield_eqb (arrow_field col) f
  && match f with Ok fl => result_eqb column_eqb (from_arrow_field false fl) back | Raise _ => true end
  && came_back col f back.

Definition c11_show_a2o (c : bool * afield * result column) :=
  let '(mab, f, col) := c in from_arrow_field mab f.

Definition c11_check_a2o (c : bool * afield * result column) : bool :=
  let '(mab, f, col) := c in result_eqb column_eqb (from_arrow_field mab f) col.

Definition schema_case : Type := bool * list (list N * column) * result (list afield) * result (list column).

Definition c11_show_schema (c : schema_case) :=
  let '(ids, cols, fs, back) := c in
  (orso_to_arrow_schema ids cols, match fs with Ok l => arrow_to_orso_schema l | Raise e => Raise e end).

Definition c11_check_schema (c : schema_case) : bool :=
  let '(ids, cols, fs, back) := c in
  result_eqb (list_eqb afield_eqb) (orso_to_arrow_schema ids cols) fs
  && match fs with Ok l => result_eqb (list_eqb column_eqb) (arrow_to_orso_schema l) back | Raise _ => true end
  && match fs, back with
     | Ok l, Ok bs => came_back_all ids cols l bs
     | _, _ => negb (existsb (fun ic => roundtrippable (snd ic)) cols)
     end.

Definition batch_case : Type := list (list cell) * list (list (list cell)).
Definition o2a_case : Type := column * result afield * result column.
Definition a2o_case : Type := bool * afield * result column.
