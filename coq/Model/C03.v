(* C03 - executable model of the DataFrame operators (orso/dataframe.py) in two layers.

   SPEC layer (functions spec_...):  each operator on a plain ordered list of rows.
   CODE layer (functions code_...):  the operators the way dataframe.py writes them - materialize()
     first or not, Python slice clamping, the negative-offset step with its clamp at 0,
     select's index-gathering loop, distinct's seen-set loop, to_batches over
     range(0, rowcount, batch_size), collect() over the compiled collector's checks, lazily
     (generator) backed results, and CPython's list(x) protocol: iter(x), then the length hint
     len(x) (which materialises), then drain the iterator.
   A small step language (an operator applied to an earlier frame, optionally re-wrapped as a
   generator-backed frame) with run_code / run_spec.  No proofs here.

   Rows are lists over an abstract value type V (decidable equality veqb, a default only
   used for positions outside a ragged row - rectangular frames never reach it); column
   names are an abstract type Nm with equality nmeqb. *)
From Coq Require Import List ZArith Bool.
From Orso Require Import Base.PySlice.
Import ListNotations.

Inductive exn := ValueError | IndexError | TypeError.
Inductive result (A : Type) := Ok (a : A) | Raise (e : exn).
Arguments Ok {A}. Arguments Raise {A}.

Section Model.
Variable V : Type.
Variable veqb : V -> V -> bool.
Variable dflt : V.
Variable Nm : Type.
Variable nmeqb : Nm -> Nm -> bool.

Local Notation row := (list V).

Fixpoint row_eqb (a b : row) : bool :=
  match a, b with
  | [], [] => true
  | x :: r, y :: s => veqb x y && row_eqb r s
  | _, _ => false
  end.

(* what is asked of == on cell values: an equivalence.  It need NOT be identity: 1 == 1.0 == True
   in Python, yet the three are different values (round 5) *)
Definition veq_equiv : Prop :=
  (forall a, veqb a a = true) /\ (forall a b, veqb a b = veqb b a) /\
  (forall a b c, veqb a b = true -> veqb b c = true -> veqb a c = true).

Fixpoint names_eqb (a b : list Nm) : bool :=
  match a, b with
  | [], [] => true
  | x :: r, y :: s => nmeqb x y && names_eqb r s
  | _, _ => false
  end.

(* _schema: a list of names, or a RelationSchema object (its columns carry random
   identities, so two schema objects are equal only if they are the same object: id) *)
Inductive skind := Untyped | Typed (id : nat).
Record schema := mkS { kind : skind; names : list Nm }.

Definition schema_eqb (a b : schema) : bool :=
  match kind a, kind b with
  | Untyped, Untyped => names_eqb (names a) (names b)
  | Typed i, Typed j => Nat.eqb i j
  | _, _ => false
  end.

(* _rows: a list, or a one-shot generator (what it has yet to yield) *)
Inductive backing := Eager (l : list row) | Lazy (pending : list row).
Record frame := mkF { sch : schema; back : backing }.

Definition rows_of (b : backing) : list row := match b with Eager l => l | Lazy p => p end.
Definition is_lazy (b : backing) : bool := match b with Eager _ => false | Lazy _ => true end.

(* materialize(): if not isinstance(self._rows, list): self._rows = list(self._rows) *)
Definition mat (f : frame) : frame :=
  match back f with Eager _ => f | Lazy p => mkF (sch f) (Eager p) end.

(* iterating self._rows to the end: a list is left alone, a generator is spent *)
Definition drain (b : backing) : backing * list row :=
  match b with Eager l => (Eager l, l) | Lazy p => (Lazy [], p) end.

(* ====================================================================== *)
(* SPEC layer                                                              *)
(* ====================================================================== *)
Definition spec_head (k : Z) (l : list row) : list row := firstn (Z.to_nat k) l.

Definition spec_tail (k : Z) (l : list row) : list row :=
  skipn (length l - Nat.min (Z.to_nat k) (length l)) l.

(* a window of [len] rows (all remaining rows if omitted) starting at [offset]; a negative
   offset counts from the end and stops at the first row *)
Definition spec_start (offset : Z) (l : list row) : nat :=
  if (offset <? 0)%Z then length l - Nat.min (Z.to_nat (- offset)) (length l) else Z.to_nat offset.

Definition spec_slice (offset : Z) (len : option Z) (l : list row) : list row :=
  match len with
  | None => skipn (spec_start offset l) l
  | Some k => firstn (Z.to_nat k) (skipn (spec_start offset l) l)
  end.

Definition spec_query (p : row -> bool) (l : list row) : list row := filter p l.

Definition spec_filter (mask : list bool) (l : list row) : list row :=
  map fst (filter snd (combine l mask)).

Definition zmem (i : Z) (s : list Z) : bool := existsb (Z.eqb i) s.

Fixpoint positions (i : Z) (l : list row) : list (Z * row) :=
  match l with [] => [] | r :: t => (i, r) :: positions (i + 1)%Z t end.

Definition spec_take (idx : list Z) (l : list row) : list row :=
  map snd (filter (fun ir => zmem (fst ir) idx) (positions 0%Z l)).

Fixpoint index_of (a : Nm) (l : list Nm) : option nat :=
  match l with
  | [] => None
  | x :: r => if nmeqb x a then Some O else option_map S (index_of a r)
  end.

Fixpoint all_some {A : Type} (l : list (option A)) : option (list A) :=
  match l with
  | [] => Some []
  | None :: _ => None
  | Some x :: r => option_map (cons x) (all_some r)
  end.

Definition pick (r : row) (p : nat) : V := nth p r dflt.

(* requested columns, requested order: column j of the result is the source column named
   attrs[j]; ValueError if a requested name is not a column *)
Definition spec_select (attrs : list Nm) (src_names : list Nm) (l : list row) : result (list row) :=
  match all_some (map (fun a => index_of a src_names) attrs) with
  | None => Raise ValueError
  | Some ps => Ok (map (fun r => map (pick r) ps) l)
  end.

(* keep the first of each set of equal rows *)
Fixpoint spec_distinct (l : list row) : list row :=
  match l with
  | [] => []
  | x :: r => x :: filter (fun y => negb (row_eqb x y)) (spec_distinct r)
  end.

(* the same said literally: a row is kept iff no EARLIER row of the frame is equal to it - so the
   survivor of each set of equal rows is its first member itself, not just some member *)
Fixpoint spec_firsts (earlier : list row) (l : list row) : list row :=
  match l with
  | [] => []
  | x :: r => if existsb (row_eqb x) earlier then spec_firsts (earlier ++ [x]) r
              else x :: spec_firsts (earlier ++ [x]) r
  end.

(* full batches of k rows, then the remainder; fuel = number of rows *)
Fixpoint chunks (fuel k : nat) (l : list row) : list (list row) :=
  match fuel with
  | O => []
  | S f => match l with [] => [] | _ => firstn k l :: chunks f k (skipn k l) end
  end.

Definition spec_batches (k : Z) (l : list row) : list (list row) :=
  chunks (length l) (Z.to_nat k) l.

Inductive colref := CName (n : Nm) | CIdx (i : Z).

Definition col_pos (src_names : list Nm) (c : colref) : option nat :=
  match c with
  | CName n => index_of n src_names
  | CIdx i => if (i <? 0)%Z then None else Some (Z.to_nat i)
  end.

Definition limit_rows (limit : option Z) (l : list row) : list row :=
  match limit with
  | None => l
  | Some k => if (k <? 0)%Z then l else firstn (Z.to_nat k) l
  end.

(* column-major transpose of the first [limit] rows, one list per requested column *)
Definition spec_collect (ps : list nat) (limit : option Z) (l : list row) : list (list V) :=
  map (fun p => map (fun r => pick r p) (limit_rows limit l)) ps.

(* ====================================================================== *)
(* CODE layer                                                              *)
(* ====================================================================== *)

(* what a derived frame's _rows is: a list, or a generator still tied to the SOURCE's _rows *)
Inductive rback :=
| RList (l : list row)
| RSelect (idx : list nat)     (* _inner_projection(): for tup in self._rows: yield tuple(tup[i] for i in idx) *)
| RFilter (mask : list bool)   (* _inner_filter(): for t, m in zip(self._rows, mask): if m: yield t   (since 75a1e72; a generator expression before) *)
| RTake (idx : list Z).        (* _inner_take(): for i, m in enumerate(self._rows): if i in indexes: yield m *)
Record res := mkR { rsch : schema; rb : rback }.

(* slice(): materialize; offset < 0 -> max(0, len + offset); three return statements *)
Definition code_slice (offset : Z) (len : option Z) (f : frame) : frame * res :=
  let f1 := mat f in
  let rows := rows_of (back f1) in
  let offset := if (offset <? 0)%Z then Z.max 0 (Z.of_nat (length rows) + offset) else offset in
  (f1, mkR (sch f)
         (RList match len with
                | None => py_slice_from offset rows
                | Some k => if (k =? 0)%Z then [] else py_slice offset (offset + k) rows
                end)).

Definition code_head (k : Z) (f : frame) := code_slice 0 (Some k) f.
Definition code_tail (k : Z) (f : frame) := code_slice (0 - k) (Some k) f.

(* query(): rows=[r for r in self._rows if predicate(r)] - iterates _rows now *)
Definition code_query (p : row -> bool) (f : frame) : frame * res :=
  let '(b', rows) := drain (back f) in
  (mkF (sch f) b', mkR (sch f) (RList (filter p rows))).

Definition code_filter (mask : list bool) (f : frame) : frame * res := (f, mkR (sch f) (RFilter mask)).
Definition code_take (idx : list Z) (f : frame) : frame * res := (f, mkR (sch f) (RTake idx)).

(* select(): for attribute in attributes: attribute_indices.append(source_names.index(attribute)) *)
Fixpoint index_loop (src_names attrs : list Nm) (acc : list nat) : result (list nat) :=
  match attrs with
  | [] => Ok acc
  | a :: r => match index_of a src_names with
              | None => Raise ValueError            (* list.index: x not in list *)
              | Some i => index_loop src_names r (acc ++ [i])
              end
  end.

Definition code_select (attrs : list Nm) (f : frame) : frame * result res :=
  match index_loop (names (sch f)) attrs [] with
  | Raise e => (f, Raise e)
  | Ok idx => (f, Ok (mkR (mkS Untyped attrs) (RSelect idx)))
  end.

(* distinct(): seen = set(); [x for x in self._rows if x not in seen and not seen.add(x)].
   The set is keyed by [key] (the row itself in the code as it stands; its hash before
   F-C03-3 was repaired); membership = some stored key equal to it *)
Section DistinctBy.
Variable K : Type.
Variable key : row -> K.
Variable keqb : K -> K -> bool.
Fixpoint distinct_loop (seen : list K) (l : list row) : list row :=
  match l with
  | [] => []
  | x :: r => if existsb (keqb (key x)) seen then distinct_loop seen r
              else x :: distinct_loop (key x :: seen) r
  end.
End DistinctBy.

Definition code_distinct (f : frame) : frame * res :=
  let '(b', rows) := drain (back f) in
  (mkF (sch f) b', mkR (sch f) (RList (distinct_loop row (fun r => r) row_eqb [] rows))).

(* __add__: schema check, materialize both, list concatenation *)
Definition code_add (a b : frame) : frame * frame * result res :=
  if negb (schema_eqb (sch a) (sch b)) then (a, b, Raise ValueError)
  else let a1 := mat a in let b1 := mat b in
       (a1, b1, Ok (mkR (sch a) (RList (rows_of (back a1) ++ rows_of (back b1))))).

(* to_batches(): materialize; for i in range(0, rowcount, batch_size): rows[i : i + batch_size] *)
Definition code_batches (k : Z) (f : frame) : frame * result (list frame) :=
  let f1 := mat f in
  let rows := rows_of (back f1) in
  if (k =? 0)%Z then (f1, Raise ValueError)           (* range() arg 3 must not be zero *)
  else (f1, Ok (map (fun i => mkF (sch f) (Eager (py_slice i (i + k) rows)))
                    (py_range0 (Z.of_nat (length rows)) k))).

(* collect(): materialize; names -> column_names.index(c); compiled.collect_cython *)
Fixpoint resolve_cols (src_names : list Nm) (cols : list colref) : result (list Z) :=
  match cols with
  | [] => Ok []
  | CIdx i :: r => match resolve_cols src_names r with Ok t => Ok (i :: t) | Raise e => Raise e end
  | CName n :: r =>
      match index_of n src_names with
      | None => Raise ValueError                      (* tuple.index: x not in tuple *)
      | Some p => match resolve_cols src_names r with Ok t => Ok (Z.of_nat p :: t) | Raise e => Raise e end
      end
  end.

Definition collect_cython (rows : list row) (cols : list Z) (limit : Z) : result (list (list V)) :=
  match rows with
  | [] => Ok (map (fun _ => []) cols)                (* np.empty((num_cols, 0)) *)
  | r0 :: _ =>
      match cols with
      | [] => Ok []                                   (* np.empty((0, num_rows)) *)
      | _ =>
        let row_width := Z.of_nat (length r0) in
        let num_rows := if (0 <=? limit)%Z && (limit <? Z.of_nat (length rows))%Z
                        then Z.to_nat limit else length rows in
        if existsb (fun c => (c <? 0)%Z || (row_width <=? c)%Z) cols then Raise IndexError
        else Ok (map (fun c => map (fun r => pick r (Z.to_nat c)) (firstn num_rows rows)) cols)
      end
  end.

Definition code_collect (cols : list colref) (limit : option Z) (f : frame) : frame * result (list (list V)) :=
  let f1 := mat f in
  let limit := match limit with None => (-1)%Z | Some k => if (k <? 0)%Z then (-1)%Z else k end in
  match resolve_cols (names (sch f)) cols with
  | Raise e => (f1, Raise e)
  | Ok idx => (f1, collect_cython (rows_of (back f1)) idx limit)
  end.

(* a single column: columns = [columns]; return collected[0] *)
Definition code_collect1 (c : colref) (limit : option Z) (f : frame) : frame * result (list V) :=
  let '(f1, r) := code_collect [c] limit f in
  (f1, match r with
       | Ok (x :: _) => Ok x
       | Ok [] => Raise IndexError
       | Raise e => Raise e
       end).

Definition code_getitem (cols : list colref) (f : frame) := code_collect cols None f.
Definition code_getitem1 (c : colref) (f : frame) := code_collect1 c None f.

(* row(i): materialize; self._rows[i] *)
Definition code_row (i : Z) (f : frame) : frame * result row :=
  let f1 := mat f in
  (f1, match py_index i (rows_of (back f1)) with Some r => Ok r | None => Raise IndexError end).

(* __len__: materialize; len(self._rows) *)
Definition code_len (f : frame) : frame * nat :=
  let f1 := mat f in (f1, length (rows_of (back f1))).

(* __iter__ is a generator function ("yield from self._rows"): creating the iterator touches
   nothing; the body looks at self._rows when it is first advanced.  [it_drain] runs that
   iterator to the end against the frame as it is then. *)
Inductive iterh := ItDeferred.
Definition frame_iter (f : frame) : iterh := ItDeferred.
Definition it_drain (it : iterh) (f : frame) : frame * list row :=
  let '(b', rows) := drain (back f) in (mkF (sch f) b', rows).

(* [r for r in df] *)
Definition py_iterate (f : frame) : frame * list row := it_drain (frame_iter f) f.

(* list(df): list_extend -> it = iter(df); PyObject_LengthHint(df) -> df.__len__(); drain it *)
Definition py_list (f : frame) : frame * list row :=
  let it := frame_iter f in
  let '(f1, _) := code_len f in
  it_drain it f1.

(* zip(self._rows, mask) against a generator: zip asks the rows first, so when the mask runs
   out one more row has already been taken *)
Fixpoint zip_rest (p : list row) (mask : list bool) : list row :=
  match p with
  | [] => []
  | _ :: p' => match mask with [] => p' | _ :: m' => zip_rest p' m' end
  end.

Fixpoint zip_keep (p : list row) (mask : list bool) : list row :=
  match p, mask with
  | r :: p', m :: m' => if m then r :: zip_keep p' m' else zip_keep p' m'
  | _, _ => []
  end.

Fixpoint take_keep (idx : list Z) (i : Z) (p : list row) : list row :=
  match p with
  | [] => []
  | r :: p' => if zmem i idx then r :: take_keep idx (i + 1)%Z p' else take_keep idx (i + 1)%Z p'
  end.

(* materialize() of a derived frame: runs its generator, which pulls from the source *)
Definition res_materialize (src : frame) (r : res) : frame * frame :=
  match rb r with
  | RList l => (src, mkF (rsch r) (Eager l))
  | RSelect idx =>
      let '(b', rows) := drain (back src) in
      (mkF (sch src) b', mkF (rsch r) (Eager (map (fun t => map (pick t) idx) rows)))
  | RFilter mask =>
      (mkF (sch src) (match back src with Eager l => Eager l | Lazy p => Lazy (zip_rest p mask) end),
       mkF (rsch r) (Eager (zip_keep (rows_of (back src)) mask)))
  | RTake idx =>
      let '(b', rows) := drain (back src) in
      (mkF (sch src) b', mkF (rsch r) (Eager (take_keep idx 0%Z rows)))
  end.

(* list(result): the length hint materialises the result (see above), then py_list's drain *)
Definition res_list (src : frame) (r : res) : frame * frame * list row :=
  let '(src1, rf) := res_materialize src r in
  let '(rf1, rows) := py_list rf in
  (src1, rf1, rows).

(* ====================================================================== *)
(* Step language                                                           *)
(* ====================================================================== *)
Inductive op :=
| Head (k : Z) | Tail (k : Z) | Slice (offset : Z) (len : option Z)
| Query (p : row -> bool) | Filter (mask : list bool) | Take (idx : list Z)
| Select (attrs : list Nm) | Distinct
| AddF (other : nat) (other_lazy : bool)
| Batches (k : Z)
| Collect (cols : list colref) (limit : option Z) | Collect1 (c : colref) (limit : option Z)
| GetItem (cols : list colref) | GetItem1 (c : colref)
| RowAt (i : Z) | Len | Iterate.

Record stepd := mkStep { s_src : nat; s_lazy : bool; s_op : op }.

Definition listing := (list Nm * list row)%type.

Inductive outv :=
| OFrame (x : listing)
| OFrames (xs : list listing)
| OCols (c : list (list V))
| OCol (c : list V)
| ORow (r : row)
| ORows (l : list row)
| ONat (n : nat)
| ORaise (e : exn).

Record obs := mkObs { o_out : outv; o_srcs : list listing }.

(* what a single-source operator hands back *)
Inductive rout :=
| RFrame (r : res)
| RFrames (fs : list frame)
| RVal (v : outv).

Definition lift_res (x : frame * res) : frame * rout := (fst x, RFrame (snd x)).

Definition apply_op (o : op) (a : frame) : frame * rout :=
  match o with
  | Head k => lift_res (code_head k a)
  | Tail k => lift_res (code_tail k a)
  | Slice off len => lift_res (code_slice off len a)
  | Query p => lift_res (code_query p a)
  | Filter m => lift_res (code_filter m a)
  | Take idx => lift_res (code_take idx a)
  | Distinct => lift_res (code_distinct a)
  | Select attrs =>
      let '(a1, r) := code_select attrs a in
      (a1, match r with Ok x => RFrame x | Raise e => RVal (ORaise e) end)
  | Batches k =>
      let '(a1, r) := code_batches k a in
      (a1, match r with Ok fs => RFrames fs | Raise e => RVal (ORaise e) end)
  | Collect cols limit =>
      let '(a1, r) := code_collect cols limit a in
      (a1, RVal match r with Ok c => OCols c | Raise e => ORaise e end)
  | Collect1 c limit =>
      let '(a1, r) := code_collect1 c limit a in
      (a1, RVal match r with Ok c => OCol c | Raise e => ORaise e end)
  | GetItem cols =>
      let '(a1, r) := code_getitem cols a in
      (a1, RVal match r with Ok c => OCols c | Raise e => ORaise e end)
  | GetItem1 c =>
      let '(a1, r) := code_getitem1 c a in
      (a1, RVal match r with Ok c => OCol c | Raise e => ORaise e end)
  | RowAt i =>
      let '(a1, r) := code_row i a in
      (a1, RVal match r with Ok x => ORow x | Raise e => ORaise e end)
  | Len => let '(a1, n) := code_len a in (a1, RVal (ONat n))
  | Iterate => let '(a1, l) := py_iterate a in (a1, RVal (ORows l))
  | AddF _ _ => (a, RVal (ORaise TypeError))      (* two sources: handled by step_code *)
  end.

Definition listed (f : frame) (rows : list row) : listing := (names (sch f), rows).

Fixpoint list_all (fs : list frame) : list frame * list listing :=
  match fs with
  | [] => ([], [])
  | f :: r => let '(f1, rows) := py_list f in
              let '(fs1, ls) := list_all r in
              (f1 :: fs1, listed f1 rows :: ls)
  end.

(* observe the operator's outcome (listing every frame it returned), then list the source *)
Definition finish (a1 : frame) (r : rout) : frame * list frame * obs :=
  match r with
  | RFrame x =>
      let '(a2, rf, rows) := res_list a1 x in
      let '(a3, srows) := py_list a2 in
      (a3, [rf], mkObs (OFrame (listed rf rows)) [listed a3 srows])
  | RFrames fs =>
      let '(fs1, ls) := list_all fs in
      let '(a3, srows) := py_list a1 in
      (a3, fs1, mkObs (OFrames ls) [listed a3 srows])
  | RVal v =>
      let '(a3, srows) := py_list a1 in
      (a3, [], mkObs v [listed a3 srows])
  end.

Fixpoint upd {A : Type} (i : nat) (x : A) (l : list A) : list A :=
  match l, i with
  | [], _ => []
  | _ :: r, O => x :: r
  | y :: r, S j => y :: upd j x r
  end.

(* the source of a step: frame i of the environment itself, or a fresh generator-backed
   frame over the same rows and schema: DataFrame(rows=(r for r in list(df)), schema=df._schema) *)
Definition fetch (env : list frame) (i : nat) (lz : bool) : option (list frame * frame) :=
  match nth_error env i with
  | None => None
  | Some f =>
      if lz then let '(f1, rows) := py_list f in Some (upd i f1 env, mkF (sch f) (Lazy rows))
      else Some (env, f)
  end.

Definition store (env : list frame) (i : nat) (lz : bool) (f : frame) : list frame :=
  if lz then env else upd i f env.

Definition step_code (env : list frame) (s : stepd) : list frame * obs :=
  let i := Nat.modulo (s_src s) (length env) in
  match fetch env i (s_lazy s) with
  | None => (env, mkObs (ORaise TypeError) [])
  | Some (env1, a) =>
      match s_op s with
      | AddF other olz =>
          let j := Nat.modulo other (length env) in
          if Nat.eqb i j && Bool.eqb (s_lazy s) olz then
            (* x + x : one object *)
            let '(a1, _, r) := code_add a a in
            match r with
            | Ok x =>
                let '(a2, rf, rows) := res_list a1 x in
                let '(a3, s1) := py_list a2 in
                let '(a4, s2) := py_list a3 in
                (store env1 i (s_lazy s) a4 ++ [rf],
                 mkObs (OFrame (listed rf rows)) [listed a3 s1; listed a4 s2])
            | Raise e =>
                let '(a3, s1) := py_list a1 in
                let '(a4, s2) := py_list a3 in
                (store env1 i (s_lazy s) a4, mkObs (ORaise e) [listed a3 s1; listed a4 s2])
            end
          else
            match fetch env1 j olz with
            | None => (env, mkObs (ORaise TypeError) [])
            | Some (env2, b) =>
                let '(a1, b1, r) := code_add a b in
                match r with
                | Ok x =>
                    let '(a2, rf, rows) := res_list a1 x in
                    let '(a3, s1) := py_list a2 in
                    let '(b3, s2) := py_list b1 in
                    (store (store env2 i (s_lazy s) a3) j olz b3 ++ [rf],
                     mkObs (OFrame (listed rf rows)) [listed a3 s1; listed b3 s2])
                | Raise e =>
                    let '(a3, s1) := py_list a1 in
                    let '(b3, s2) := py_list b1 in
                    (store (store env2 i (s_lazy s) a3) j olz b3,
                     mkObs (ORaise e) [listed a3 s1; listed b3 s2])
                end
            end
      | o =>
          let '(a1, r) := apply_op o a in
          let '(a3, news, ob) := finish a1 r in
          (store env1 i (s_lazy s) a3 ++ news, ob)
      end
  end.

Fixpoint run_code (env : list frame) (prog : list stepd) : list frame * list obs :=
  match prog with
  | [] => (env, [])
  | s :: r => let '(env1, o) := step_code env s in
              let '(env2, os) := run_code env1 r in (env2, o :: os)
  end.

(* ---------------------------------------------------------------------- *)
(* the same language over plain lists                                      *)
(* ---------------------------------------------------------------------- *)
Record sframe := mkSF { ssch : schema; srows : list row }.

Definition slisted (f : sframe) : listing := (names (ssch f), srows f).

(* what a generator-backed source still has to give once the operator's result has been
   listed: operators that materialise leave everything, operators that read the generator use
   it up (filter stops one row after its mask ends) *)
Definition spec_left (o : op) (f : sframe) : list row :=
  match o with
  | Query _ | Take _ | Distinct | Iterate => []
  | Filter m => skipn (S (length m)) (srows f)
  | Select attrs =>
      match spec_select attrs (names (ssch f)) (srows f) with Ok _ => [] | Raise _ => srows f end
  | _ => srows f
  end.

Inductive sout :=
| SFrame (f : sframe)
| SFrames (fs : list sframe)
| SVal (v : outv).

Definition cols_pos (src_names : list Nm) (cols : list colref) : option (list nat) :=
  all_some (map (col_pos src_names) cols).

(* every requested column exists: names are columns, indexes are below the row width *)
Definition cols_ok (f : sframe) (cols : list colref) : bool :=
  match cols_pos (names (ssch f)) cols with
  | None => false
  | Some ps => match srows f with
               | [] => true
               | r0 :: _ => forallb (fun p => Nat.ltb p (length r0)) ps
               end
  end.

Definition spec_cols (f : sframe) (cols : list colref) (limit : option Z) : list (list V) :=
  match cols_pos (names (ssch f)) cols with
  | None => []
  | Some ps => spec_collect ps limit (srows f)
  end.

Definition spec_apply (o : op) (f : sframe) : sout :=
  let same l := SFrame (mkSF (ssch f) l) in
  match o with
  | Head k => same (spec_head k (srows f))
  | Tail k => same (spec_tail k (srows f))
  | Slice off len => same (spec_slice off len (srows f))
  | Query p => same (spec_query p (srows f))
  | Filter m => same (spec_filter m (srows f))
  | Take idx => same (spec_take idx (srows f))
  | Distinct => same (spec_distinct (srows f))
  | Select attrs =>
      match spec_select attrs (names (ssch f)) (srows f) with
      | Ok l => SFrame (mkSF (mkS Untyped attrs) l)
      | Raise e => SVal (ORaise e)
      end
  | Batches k => SFrames (map (mkSF (ssch f)) (spec_batches k (srows f)))
  | Collect cols limit => SVal (OCols (spec_cols f cols limit))
  | GetItem cols => SVal (OCols (spec_cols f cols None))
  | Collect1 c limit => SVal (OCol (hd [] (spec_cols f [c] limit)))
  | GetItem1 c => SVal (OCol (hd [] (spec_cols f [c] None)))
  | RowAt i => SVal match py_index i (srows f) with Some r => ORow r | None => ORaise IndexError end
  | Len => SVal (ONat (length (srows f)))
  | Iterate => SVal (ORows (srows f))
  | AddF _ _ => SVal (ORaise TypeError)
  end.

(* arguments the property quantifies over: window and limit sizes are counts, batch sizes
   are >= 1, collected columns exist *)
Definition op_ok (o : op) (f : sframe) : bool :=
  match o with
  | Head k | Tail k => (0 <=? k)%Z
  | Slice _ (Some k) => (0 <=? k)%Z
  | Batches k => (1 <=? k)%Z
  | Collect cols _ | GetItem cols => cols_ok f cols
  | Collect1 c _ | GetItem1 c => cols_ok f [c]
  | _ => true
  end.

Definition sout_obs (r : sout) : outv * list sframe :=
  match r with
  | SFrame x => (OFrame (slisted x), [x])
  | SFrames xs => (OFrames (map slisted xs), xs)
  | SVal v => (v, [])
  end.

Definition step_spec (env : list sframe) (s : stepd) : list sframe * obs :=
  let i := Nat.modulo (s_src s) (length env) in
  match nth_error env i with
  | None => (env, mkObs (ORaise TypeError) [])
  | Some f =>
      match s_op s with
      | AddF other olz =>
          let j := Nat.modulo other (length env) in
          match nth_error env j with
          | None => (env, mkObs (ORaise TypeError) [])
          | Some g =>
              if schema_eqb (ssch f) (ssch g) then
                let x := mkSF (ssch f) (srows f ++ srows g) in
                (env ++ [x], mkObs (OFrame (slisted x)) [slisted f; slisted g])
              else (env, mkObs (ORaise ValueError) [slisted f; slisted g])
          end
      | o =>
          let '(v, news) := sout_obs (spec_apply o f) in
          let left := if s_lazy s then spec_left o f else srows f in
          (env ++ news, mkObs v [(names (ssch f), left)])
      end
  end.

Fixpoint run_spec (env : list sframe) (prog : list stepd) : list sframe * list obs :=
  match prog with
  | [] => (env, [])
  | s :: r => let '(env1, o) := step_spec env s in
              let '(env2, os) := run_spec env1 r in (env2, o :: os)
  end.

(* every step of the program uses arguments the property quantifies over (checked along
   the plain-list run, because "the column exists" depends on the frame it is applied to) *)
Fixpoint prog_ok (env : list sframe) (prog : list stepd) : bool :=
  match prog with
  | [] => true
  | s :: r =>
      match nth_error env (Nat.modulo (s_src s) (length env)) with
      | None => false
      | Some f => op_ok (s_op s) f && prog_ok (fst (step_spec env s)) r
      end
  end.

Definition eager_of (f : sframe) : frame := mkF (ssch f) (Eager (srows f)).

(* ---------------------------------------------------------------------- *)
(* boolean comparison of observations (used by the correspondence)         *)
(* ---------------------------------------------------------------------- *)
Fixpoint list_eqb {A : Type} (e : A -> A -> bool) (a b : list A) : bool :=
  match a, b with
  | [], [] => true
  | x :: r, y :: s => e x y && list_eqb e r s
  | _, _ => false
  end.

Definition listing_eqb (a b : listing) : bool :=
  names_eqb (fst a) (fst b) && list_eqb row_eqb (snd a) (snd b).

Definition exn_eqb (a b : exn) : bool :=
  match a, b with
  | ValueError, ValueError | IndexError, IndexError | TypeError, TypeError => true
  | _, _ => false
  end.

Definition outv_eqb (a b : outv) : bool :=
  match a, b with
  | OFrame x, OFrame y => listing_eqb x y
  | OFrames x, OFrames y => list_eqb listing_eqb x y
  | OCols x, OCols y => list_eqb row_eqb x y
  | OCol x, OCol y => row_eqb x y
  | ORow x, ORow y => row_eqb x y
  | ORows x, ORows y => list_eqb row_eqb x y
  | ONat x, ONat y => Nat.eqb x y
  | ORaise x, ORaise y => exn_eqb x y
  | _, _ => false
  end.

Definition obs_eqb (a b : obs) : bool :=
  outv_eqb (o_out a) (o_out b) && list_eqb listing_eqb (o_srcs a) (o_srcs b).

End Model.

Arguments mkS {Nm}. Arguments kind {Nm}. Arguments names {Nm}.
Arguments Eager {V}. Arguments Lazy {V}.
Arguments mkF {V Nm}. Arguments sch {V Nm}. Arguments back {V Nm}.
Arguments mkSF {V Nm}. Arguments ssch {V Nm}. Arguments srows {V Nm}.
Arguments RList {V}. Arguments RSelect {V}. Arguments RFilter {V}. Arguments RTake {V}.
Arguments mkR {V Nm}. Arguments rsch {V Nm}. Arguments rb {V Nm}.
Arguments CName {Nm}. Arguments CIdx {Nm}.
Arguments Head {V Nm}. Arguments Tail {V Nm}. Arguments Slice {V Nm}. Arguments Query {V Nm}.
Arguments Filter {V Nm}. Arguments Take {V Nm}. Arguments Select {V Nm}. Arguments Distinct {V Nm}.
Arguments AddF {V Nm}. Arguments Batches {V Nm}. Arguments Collect {V Nm}. Arguments Collect1 {V Nm}.
Arguments GetItem {V Nm}. Arguments GetItem1 {V Nm}. Arguments RowAt {V Nm}. Arguments Len {V Nm}.
Arguments Iterate {V Nm}.
Arguments mkStep {V Nm}. Arguments s_src {V Nm}. Arguments s_lazy {V Nm}. Arguments s_op {V Nm}.
Arguments OFrame {V Nm}. Arguments OFrames {V Nm}. Arguments OCols {V Nm}. Arguments OCol {V Nm}.
Arguments ORow {V Nm}. Arguments ORows {V Nm}. Arguments ONat {V Nm}. Arguments ORaise {V Nm}.
Arguments mkObs {V Nm}. Arguments o_out {V Nm}. Arguments o_srcs {V Nm}.
Arguments RFrame {V Nm}. Arguments RFrames {V Nm}. Arguments RVal {V Nm}.
Arguments SFrame {V Nm}. Arguments SFrames {V Nm}. Arguments SVal {V Nm}.

(* ====================================================================== *)
(* Instance used by the correspondence: values are integers, names are numbers *)
(* ====================================================================== *)
Definition zrow := list Z.

(* Cell values of the correspondence are CODED: 4 * n + t stands for the Python value n of type
   t = 0 int, 1 float (n.0), 2 bool (n = 0, 1).  [zveq] is Python's == on them (numeric value
   only); observations are compared with Z.eqb, i.e. type-sensitively. *)
Definition zdec (v : Z) : Z := (v / 4)%Z.
Definition zveq (a b : Z) : bool := Z.eqb (zdec a) (zdec b).

(* predicates handed to query() by the harness *)
Inductive pcode :=
| PTrue | PFalse
| PSumMod (m r : Z)      (* sum(row) % m == r *)
| PHeadLe (c : Z)        (* len(row) > 0 and row[0] <= c *)
| PLastEq (c : Z).       (* len(row) > 0 and row[-1] == c *)

Definition pred_of (p : pcode) (r : zrow) : bool :=
  match p with
  | PTrue => true
  | PFalse => false
  | PSumMod m k => Z.eqb (Z.modulo (fold_left Z.add (map zdec r) 0%Z) m) k
  | PHeadLe c => match r with [] => false | x :: _ => Z.leb (zdec x) c end
  | PLastEq c => match rev r with [] => false | x :: _ => Z.eqb (zdec x) c end
  end.

Definition zstep := stepd Z N.
Definition zobs := obs Z N.
Definition zcase := (list (sframe Z N) * list zstep * list zobs)%type.

Definition c03_show (c : zcase) : list zobs :=
  let '(env, prog, _) := c in
  snd (run_code Z zveq 0%Z N N.eqb (map (eager_of Z N) env) prog).

Definition c03_check (c : zcase) : bool :=
  let '(env, prog, seen) := c in
  list_eqb (obs_eqb Z Z.eqb N N.eqb)
           (snd (run_code Z zveq 0%Z N N.eqb (map (eager_of Z N) env) prog)) seen.

(* the plain-list run on the same case (second, independent comparison) *)
Definition c03_check_spec (c : zcase) : bool :=
  let '(env, prog, seen) := c in
  negb (prog_ok Z zveq 0%Z N N.eqb env prog) ||
  list_eqb (obs_eqb Z Z.eqb N N.eqb)
           (snd (run_spec Z zveq 0%Z N N.eqb env prog)) seen.

Definition c03_check_both (c : zcase) : bool := c03_check c && c03_check_spec c.
