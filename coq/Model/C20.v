(* C20 - executable model of the log sanitiser (orso/logging/log_formatter.py:
   KEYS_TO_SANITIZE / COMPILED_KEYS_TO_SANITIZE lines 10-21, LogFormatter.format 60-68,
   color_code 84-89, clean_record 107-137, sanitize_record 139-179; orso/display.py
   colorizer 70-80; orso/logging/google_cloud_logger.py write_event 108-113).
   No proofs here.  Text is [list N] (code points).

   Data (pattern strings, IGNORECASE flag, the re method clean_record calls, colour tables,
   the URL replacement text) comes from Gen/C20_LogKeys.v, regenerated on every run. *)
From Coq Require Import List NArith Bool Ascii String.
From Orso Require Import Gen.C20_LogKeys.
Import ListNotations.
Local Open Scope N_scope.

Definition text := list N.
Definition T (s : string) : text := map N_of_ascii (list_ascii_of_string s).

Fixpoint teqb (a b : text) : bool :=
  match a, b with
  | [], [] => true
  | x :: a', y :: b' => (x =? y) && teqb a' b'
  | _, _ => false
  end.

Fixpoint is_prefix (p s : text) : bool :=
  match p, s with
  | [], _ => true
  | x :: p', y :: s' => (x =? y) && is_prefix p' s'
  | _ :: _, [] => false
  end.

(* all suffixes of s, longest first, the empty one included *)
Fixpoint suffixes (s : text) : list text :=
  s :: match s with [] => [] | _ :: r => suffixes r end.

Definition ends_with (suf s : text) : bool := existsb (fun s' => teqb s' suf) (suffixes s).
Definition contains (sub s : text) : bool := existsb (is_prefix sub) (suffixes s).

(* Case folding onto the ASCII lower-case letters, as re.IGNORECASE does it for an ASCII pattern
   letter: A-Z, plus the non-ASCII code points that match an ASCII letter case-insensitively
   (Gen/C20_LogKeys.v, regenerated from the live re engine and cross-checked against the str
   case mappings: U+0130, U+0131 -> i, U+017F -> s, U+212A -> k). *)
Fixpoint nassoc (c : N) (l : list (N * N)) : option N :=
  match l with
  | [] => None
  | (x, a) :: r => if c =? x then Some a else nassoc c r
  end.
Definition lower_c (c : N) : N :=
  if (65 <=? c) && (c <=? 90) then c + 32
  else match nassoc c C20_casefold_extra with Some a => a | None => c end.
Definition lower (s : text) : text := map lower_c s.

(* ------------------------------------------------------------------ *)
(* The property's own notion of a sensitive key.                       *)
Definition spec_suffixes : list text :=
  [T "password"; T "pwd"; T "_secret"; T "_key"; T "_token"].
Definition spec_infixes : list text := [T "credentials"].

Definition sensitive_spec (k : text) : bool :=
  existsb (fun s => ends_with s (lower k)) spec_suffixes ||
  existsb (fun s => contains s (lower k)) spec_infixes.

(* ------------------------------------------------------------------ *)
(* The regex subset used by KEYS_TO_SANITIZE and its matcher.          *)
Inductive ritem := RLit (c : N) | RDotStar | REnd.

Definition is_meta (c : N) : bool := existsb (N.eqb c) (T "\^$.|?*+()[]{}").

(* None = the expression leaves the modelled subset (fail closed) *)
Fixpoint parse_re (p : text) : option (list ritem) :=
  match p with
  | [] => Some []
  | c :: r =>
      if c =? 36 then option_map (cons REnd) (parse_re r)
      else if c =? 46 then
        match r with
        | d :: r' => if d =? 42 then option_map (cons RDotStar) (parse_re r') else None
        | [] => None
        end
      else if is_meta c then None
      else option_map (cons (RLit c)) (parse_re r)
  end.

Definition ci_eq (ic : bool) (c x : N) : bool :=
  if ic then lower_c c =? lower_c x else c =? x.

(* '$' without MULTILINE: at the end, or just before a newline that ends the string *)
Definition at_end (s : text) : bool :=
  match s with [] => true | [c] => c =? 10 | _ => false end.

(* does p match starting exactly at the head of s ([full]: and reach the end of s) *)
Fixpoint m_here (ic full : bool) (p : list ritem) (s : text) : bool :=
  match p with
  | [] => if full then match s with [] => true | _ => false end else true
  | RLit c :: p' => match s with x :: s' => ci_eq ic c x && m_here ic full p' s' | [] => false end
  | REnd :: p' => at_end s && m_here ic full p' s
  | RDotStar :: p' =>
      (fix star (s : text) : bool :=
         m_here ic full p' s ||
         match s with x :: s' => negb (x =? 10) && star s' | [] => false end) s
  end.

Definition re_run (meth : re_method) (ic : bool) (p : list ritem) (s : text) : bool :=
  match meth with
  | ReMatch => m_here ic false p s
  | ReFullmatch => m_here ic true p s
  | ReSearch => existsb (m_here ic false p) (suffixes s)
  end.

Definition pattern_hits (meth : re_method) (ic : bool) (k : text) (p : text) : bool :=
  match parse_re p with Some r => re_run meth ic r k | None => false end.

(* any(regex.<method>(key) for regex in COMPILED_KEYS_TO_SANITIZE) *)
Definition sensitive_with (meth : re_method) (ic : bool) (pats : list text) (k : text) : bool :=
  existsb (pattern_hits meth ic k) pats.
Definition sensitive_code (k : text) : bool :=
  sensitive_with C20_method C20_ignorecase C20_patterns k.

(* ------------------------------------------------------------------ *)
(* JSON trees as json.loads delivers them; numbers carry str(number).  *)
Inductive json :=
| JStr (s : text)
| JNum (s : text)
| JBool (b : bool)
| JNull
| JArr (l : list json)
| JObj (kvs : list (text * json)).

Definition obj := list (text * json).

(* cleaned tree *)
Inductive cval :=
| CRedacted (d : text)                 (* placeholder carrying only the digest *)
| CLeaf (s : text)                     (* coloured str(value) *)
| CObj (kvs : list (text * cval))
| CArr (items : list cval)             (* array holding objects/arrays: _clean_items *)
| CItem (r : text).                    (* repr() of a scalar item of such an array, unchanged *)

Definition is_container (j : json) : bool :=
  match j with JObj _ | JArr _ => true | _ => false end.

Section Clean.
Variable sens : text -> bool.          (* key test *)
Variable str_of : json -> text.        (* Python str(value) *)
Variable repr_of : json -> text.       (* Python repr(value), for scalar items of cleaned arrays *)
Variable digest : text -> text.        (* hash_it *)
Variable colq : text -> text.          (* QUOTES_OR_BACKTICKS_RE.sub(color_value, .) *)

(* clean_record: the key test comes first, then dict, then a list holding a dict or list
   (_clean_items: dicts cleaned, lists recursed into unconditionally, other items kept),
   then everything else.  [in_arr] = the value is an item of a list being cleaned. *)
Fixpoint clean_at (in_arr : bool) (j : json) : cval :=
  match j with
  | JObj kvs =>
      CObj ((fix go (l : list (text * json)) : list (text * cval) :=
               match l with
               | [] => []
               | (k, v) :: r =>
                   (k, if sens k then CRedacted (digest (str_of v)) else clean_at false v) :: go r
               end) kvs)
  | JArr l =>
      if in_arr || existsb is_container l
      then CArr ((fix go (l : list json) : list cval :=
                    match l with [] => [] | x :: r => clean_at true x :: go r end) l)
      else CLeaf (colq (str_of j))
  | _ => if in_arr then CItem (repr_of j) else CLeaf (colq (str_of j))
  end.

Definition clean_val (j : json) : cval := clean_at false j.

Definition clean_member (kv : text * json) : text * cval :=
  (fst kv, if sens (fst kv) then CRedacted (digest (str_of (snd kv))) else clean_val (snd kv)).

Definition clean_obj (kvs : obj) : list (text * cval) := map clean_member kvs.
End Clean.

(* paths: the i-th member of an object / the i-th item of an array at each step *)
Fixpoint jget (p : list nat) (j : json) : option json :=
  match p with
  | [] => Some j
  | i :: p' =>
      match j with
      | JObj kvs => match nth_error kvs i with Some (_, v) => jget p' v | None => None end
      | JArr l => match nth_error l i with Some x => jget p' x | None => None end
      | _ => None
      end
  end.

Fixpoint cget (p : list nat) (c : cval) : option cval :=
  match p with
  | [] => Some c
  | i :: p' =>
      match c with
      | CObj kvs => match nth_error kvs i with Some (_, v) => cget p' v | None => None end
      | CArr l => match nth_error l i with Some x => cget p' x | None => None end
      | _ => None
      end
  end.

(* the keys met along a path (array steps carry no key) *)
Fixpoint jkeys (p : list nat) (j : json) : list text :=
  match p with
  | [] => []
  | i :: p' =>
      match j with
      | JObj kvs => match nth_error kvs i with Some (k, v) => k :: jkeys p' v | None => [] end
      | JArr l => match nth_error l i with Some x => jkeys p' x | None => [] end
      | _ => []
      end
  end.

(* Some m' = every array entered along the path is one that is cleaned item by item (it is
   itself an item of a cleaned array, or holds an object/array); m' = is the end of the
   path an array item.  None = the path enters an array of scalars, which is one leaf. *)
Fixpoint walk (m : bool) (p : list nat) (j : json) : option bool :=
  match p with
  | [] => Some m
  | i :: p' =>
      match j with
      | JObj kvs => match nth_error kvs i with Some (_, v) => walk false p' v | None => None end
      | JArr l => if m || existsb is_container l
                  then match nth_error l i with Some x => walk true p' x | None => None end
                  else None
      | _ => None
      end
  end.

Fixpoint replace_nth {A : Type} (i : nat) (f : A -> A) (l : list A) : list A :=
  match l, i with
  | [], _ => []
  | x :: r, O => f x :: r
  | x :: r, S i' => x :: replace_nth i' f r
  end.

(* replace the subtree at a path *)
Fixpoint jset (p : list nat) (v' : json) (j : json) : json :=
  match p with
  | [] => v'
  | i :: p' =>
      match j with
      | JObj kvs => JObj (replace_nth i (fun kv => (fst kv, jset p' v' (snd kv))) kvs)
      | JArr l => JArr (replace_nth i (jset p' v') l)
      | _ => j
      end
  end.

(* ------------------------------------------------------------------ *)
(* Concrete Python renderings used by the correspondence.              *)
Definition hexd (n : N) : N := if n <? 10 then 48 + n else 87 + n.
Fixpoint hex_w (w : nat) (n : N) : text :=
  match w with O => [] | S w' => hex_w w' (n / 16) ++ [hexd (n mod 16)] end.

(* repr(str): quote choice and escapes.  Non-ASCII: 0x80-0xA0, 0xAD and surrogates are
   escaped, every other code point is taken as printable (the generator stays inside a
   whitelist for which that is true). *)
Definition repr_char (q : N) (c : N) : text :=
  if (c =? q) || (c =? 92) then [92; c]
  else if c =? 9 then T "\t" else if c =? 10 then T "\n" else if c =? 13 then T "\r"
  else if (c <? 32) || (c =? 127) then T "\x" ++ hex_w 2 c
  else if c <? 127 then [c]
  else if (c <=? 160) || (c =? 173) then T "\x" ++ hex_w 2 c
  else if (55296 <=? c) && (c <=? 57343) then T "\u" ++ hex_w 4 c
  else [c].

Definition str_repr (s : text) : text :=
  let q := if existsb (N.eqb 39) s && negb (existsb (N.eqb 34) s) then 34 else 39 in
  q :: flat_map (repr_char q) s ++ [q].

Fixpoint join (sep : text) (l : list text) : text :=
  match l with
  | [] => []
  | [x] => x
  | x :: r => x ++ sep ++ join sep r
  end.

Fixpoint py_repr (j : json) : text :=
  match j with
  | JStr s => str_repr s
  | JNum s => s
  | JBool b => if b then T "True" else T "False"
  | JNull => T "None"
  | JArr l =>
      T "[" ++ join (T ", ") ((fix go (l : list json) : list text :=
                                 match l with [] => [] | x :: r => py_repr x :: go r end) l) ++ T "]"
  | JObj kvs =>
      T "{" ++ join (T ", ") ((fix go (l : list (text * json)) : list text :=
                                 match l with
                                 | [] => []
                                 | (k, v) :: r => (str_repr k ++ T ": " ++ py_repr v) :: go r
                                 end) kvs) ++ T "}"
  end.

Definition py_str (j : json) : text := match j with JStr s => s | _ => py_repr j end.

(* str(dict) of a dict whose keys and values are str *)
Definition dict_repr (l : list (text * text)) : text :=
  T "{" ++ join (T ", ") (map (fun kv => str_repr (fst kv) ++ T ": " ++ str_repr (snd kv)) l) ++ T "}".

(* json.dumps(str) with ensure_ascii *)
Definition jesc (c : N) : text :=
  if c =? 34 then [92; 34] else if c =? 92 then [92; 92]
  else if c =? 10 then T "\n" else if c =? 13 then T "\r" else if c =? 9 then T "\t"
  else if c =? 8 then T "\b" else if c =? 12 then T "\f"
  else if (32 <=? c) && (c <=? 126) then [c]
  else if c <? 65536 then T "\u" ++ hex_w 4 c
  else let c' := c - 65536 in
       T "\u" ++ hex_w 4 (55296 + c' / 1024) ++ T "\u" ++ hex_w 4 (56320 + c' mod 1024).

Definition json_str (s : text) : text := 34 :: flat_map jesc s ++ [34].

Definition json_dumps_flat (l : list (text * text)) : text :=
  T "{" ++ join (T ", ") (map (fun kv => json_str (fst kv) ++ T ": " ++ json_str (snd kv)) l) ++ T "}".

(* str.replace(a, b) for non-empty a; [skip] = characters of an occurrence still to drop *)
Fixpoint replace_from (a b : text) (s : text) (skip : nat) : text :=
  match s with
  | [] => []
  | c :: r =>
      match skip with
      | S n => replace_from a b r n
      | O => if is_prefix a s then b ++ replace_from a b r (List.length a - 1)
             else c :: replace_from a b r 0
      end
  end.
Definition replace_all (a b s : text) : text :=
  match a with [] => s | _ => replace_from a b s 0 end.

(* index of the next q in s; a newline in between stops the search unless nl_ok *)
Fixpoint find_close (q : N) (nl_ok : bool) (s : text) : option nat :=
  match s with
  | [] => None
  | c :: r => if c =? q then Some O
              else if negb nl_ok && (c =? 10) then None
              else option_map S (find_close q nl_ok r)
  end.

(* re.sub of  q body q  (body lazy / free of q) by [mk q body], leftmost, non-overlapping *)
Fixpoint sub_quoted (isq : N -> bool) (nl_ok : bool) (mk : N -> text -> text) (s : text) (skip : nat) : text :=
  match s with
  | [] => []
  | c :: r =>
      match skip with
      | S n => sub_quoted isq nl_ok mk r n
      | O =>
          if isq c then
            match find_close c nl_ok r with
            | Some n => mk c (firstn n r) ++ sub_quoted isq nl_ok mk r (S n)
            | None => c :: sub_quoted isq nl_ok mk r 0
            end
          else c :: sub_quoted isq nl_ok mk r 0
      end
  end.

Record colours := mkcol { cKEY : text; cOFF : text; cPURPLE : text; cYELLOW : text; cVALUE : text }.
Definition colours_on : colours := mkcol C20_code_KEY C20_code_OFF C20_code_PURPLE C20_code_YELLOW C20_code_VALUE.
Definition colours_off : colours := mkcol [] [] [] [] [].
Definition colours_of (colorize : bool) : colours := if colorize then colours_on else colours_off.

(* QUOTES_OR_BACKTICKS_RE = (['`])(.*?)\1 with color_value *)
Definition colour_quotes (cl : colours) (s : text) : text :=
  sub_quoted (fun c => (c =? 39) || (c =? 96)) false
             (fun q body => q :: cYELLOW cl ++ body ++ cVALUE cl ++ [q]) s 0.

(* lines 128, 134, 135: how a cleaned tree becomes the dict of strings clean_record returns *)
Fixpoint render_val (cl : colours) (c : cval) : text :=
  match c with
  | CRedacted d => cPURPLE cl ++ T "<redacted:" ++ d ++ T ">" ++ cOFF cl
  | CLeaf s => s
  | CObj kvs =>
      dict_repr ((fix go (l : list (text * cval)) : list (text * text) :=
                    match l with
                    | [] => []
                    | (k, v) :: r => (cKEY cl ++ k ++ cOFF cl, cVALUE cl ++ render_val cl v ++ cOFF cl) :: go r
                    end) kvs)
  | CArr items =>                        (* str(list): items by repr *)
      T "[" ++ join (T ", ") ((fix go (l : list cval) : list text :=
                                 match l with [] => [] | x :: r => render_val cl x :: go r end) items) ++ T "]"
  | CItem r => r
  end.

Definition render_obj (cl : colours) (kvs : list (text * cval)) : list (text * text) :=
  map (fun kv => (cKEY cl ++ fst kv ++ cOFF cl, cVALUE cl ++ render_val cl (snd kv) ++ cOFF cl)) kvs.

(* LogFormatter.clean_record(dirty, colorize) as the list of items of the returned dict *)
Definition clean_record_model (digest : text -> text) (colorize : bool) (o : obj) : list (text * text) :=
  let cl := colours_of colorize in
  render_obj cl (clean_obj sensitive_code py_str py_repr digest (colour_quotes cl) o).

(* ------------------------------------------------------------------ *)
(* sanitize_record and format.                                         *)
Fixpoint split (sep : N) (s : text) : list text :=
  match s with
  | [] => [[]]
  | c :: r =>
      if c =? sep then [] :: split sep r
      else match split sep r with h :: t => (c :: h) :: t | [] => [[c]] end
  end.

Definition bar : N := 124.

(* lines 158-166: the longest tail of the record that parses as a JSON object *)
Fixpoint find_tail (parse : text -> option obj) (parts : list text) (i : nat) : option (nat * obj) :=
  match parse (join [bar] parts) with
  | Some o => Some (i, o)
  | None => match parts with
            | [] => None
            | [_] => None
            | _ :: r => find_tail parse r (S i)
            end
  end.

(* color_code: the first level tag present is replaced everywhere *)
Fixpoint color_code_with (tbl : list (text * text)) (s : text) : text :=
  match tbl with
  | [] => s
  | (k, v) :: r => if contains k s then replace_all k v s else color_code_with r s
  end.
Definition color_code (can : bool) (s : text) : text :=
  if can then color_code_with C20_color_exchanges s else s.

(* orso.display.colorizer *)
Definition colorizer (can : bool) (s : text) : text :=
  fold_left (fun acc kv => replace_all (fst kv) (if can then snd kv else []) acc)
            C20_colors (replace_all (T "\u0001") [1] s).

Definition is_space (c : N) : bool :=
  (c =? 32) || ((9 <=? c) && (c <=? 13)) || ((28 <=? c) && (c <=? 31)) || (c =? 133) || (c =? 160).
Fixpoint lstrip (s : text) : text :=
  match s with c :: r => if is_space c then lstrip r else s | [] => [] end.
Definition strip (s : text) : text := rev (lstrip (rev (lstrip s))).

(* lines 173-176 *)
Definition fallback_part (json_part : text) : text :=
  let y := T "YELLOWm" in let o := T "OFFm" in
  let s1 := sub_quoted (N.eqb 96) true (fun q b => [96; 1] ++ y ++ b ++ [1] ++ o ++ [96]) json_part 0 in
  let s2 := sub_quoted (N.eqb 39) true (fun q b => [39; 1] ++ y ++ b ++ [1] ++ o ++ [39]) s1 0 in
  let s3 := sub_quoted (N.eqb 34) true (fun q b => [39; 1] ++ y ++ b ++ [1] ++ o ++ [39]) s2 0 in
  T " " ++ strip s3 ++ T " *".

(* sanitize_record before the final colorizer; clean_record is called with colorize=True.
   The record is split and its JSON tail searched on the text AS GIVEN; the level is colour-coded
   afterwards and in the leading (header) fields only, field by field (since 9aa9629; before,
   color_code ran over the whole record first and could break the JSON of the message). *)
Definition sanitize_core (sens : text -> bool) (parse : text -> option obj) (digest : text -> text)
           (can : bool) (record : text) : text :=
  let parts := split bar record in
  match find_tail parse parts 0 with
  | Some (i, o) =>
      join [bar] (map (color_code can) (firstn i parts) ++
                  [T " " ++ json_dumps_flat (render_obj colours_on
                              (clean_obj sens py_str py_repr digest (colour_quotes colours_on) o))])
  | None => join [bar] (map (color_code can) (removelast parts) ++ [fallback_part (last parts [])])
  end.

Definition sanitize_record (parse : text -> option obj) (digest : text -> text) (can : bool) (record : text) : text :=
  colorizer can (sanitize_core sensitive_code parse digest can record).

(* re.sub of  ://  [^ / @ white-space double-quote single-quote]*  @  by <replacement> (since 7fc0b03): format() and, for text
   messages, GoogleLogger.write_event / report_suppressions (a different replacement text).
   The user-info part is the maximal run of characters other than '/', '@', quotes and white
   space; the match exists iff that run is followed by '@' (the class excludes '@', so no
   shorter run can be). *)
Definition ui_stop (c : N) : bool := (c =? 47) || (c =? 34) || (c =? 39) || is_space c.
Fixpoint find_userinfo (s : text) : option nat :=
  match s with
  | [] => None
  | c :: r => if c =? 64 then Some O
              else if ui_stop c then None
              else option_map S (find_userinfo r)
  end.
Fixpoint url_from_r (repl : text) (s : text) (skip : nat) : text :=
  match s with
  | [] => []
  | c :: r =>
      match skip with
      | S n => url_from_r repl r n
      | O =>
          if is_prefix (T "://") s then
            match find_userinfo (skipn 2 r) with
            | Some n => repl ++ url_from_r repl r (3 + n)
            | None => c :: url_from_r repl r 0
            end
          else c :: url_from_r repl r 0
      end
  end.
Definition url_step_r (repl : text) (s : text) : text := url_from_r repl s 0.
Definition url_step (s : text) : text := url_step_r C20_url_replacement s.
Definition gcl_url_step (s : text) : text := url_step_r C20_gcl_url_replacement s.

Definition format_model (parse : text -> option obj) (digest : text -> text) (can : bool) (msg : text) : text :=
  url_step (sanitize_record parse digest can msg).

(* ------------------------------------------------------------------ *)
(* Correspondence checks.  Oracles (json.loads, sha256) arrive as tables. *)
Fixpoint lookup {B : Type} (k : text) (tbl : list (text * B)) : option B :=
  match tbl with
  | [] => None
  | (k', v) :: r => if teqb k k' then Some v else lookup k r
  end.

Definition digest_of (tbl : list (text * text)) (s : text) : text :=
  match lookup s tbl with Some d => d | None => T "<no digest supplied>" end.
Definition parse_of (tbl : list (text * option obj)) (s : text) : option obj :=
  match lookup s tbl with Some r => r | None => None end.

Fixpoint pairs_eqb (a b : list (text * text)) : bool :=
  match a, b with
  | [], [] => true
  | (k, v) :: a', (k', v') :: b' => teqb k k' && teqb v v' && pairs_eqb a' b'
  | _, _ => false
  end.

(* stream "key": (key, does clean_record redact the value stored under it) *)
Definition c20_check_key (c : text * bool) : bool := Bool.eqb (sensitive_code (fst c)) (snd c).
Definition c20_show_key (c : text * bool) : bool := sensitive_code (fst c).

(* stream "clean": (colorize, object, digest table, items of the dict clean_record returned) *)
Definition c20_check_clean (c : bool * obj * list (text * text) * list (text * text)) : bool :=
  let '(colorize, o, dg, observed) := c in
  pairs_eqb (clean_record_model (digest_of dg) colorize o) observed.
Definition c20_show_clean (c : bool * obj * list (text * text) * list (text * text)) :=
  let '(colorize, o, dg, observed) := c in clean_record_model (digest_of dg) colorize o.

(* stream "fmt": (can_colorize, text produced by the wrapped formatter, json.loads table,
   digest table, text returned by LogFormatter.format).  The json.loads table is keyed by
   the offset of a '|'-tail inside the record: (n, r) says that the text from
   offset n to the end was given to json.loads with result r. *)
Definition ptab_of (coloured : text) (tbl : list (N * option obj)) : list (text * option obj) :=
  map (fun e => (skipn (N.to_nat (fst e)) coloured, snd e)) tbl.
Definition c20_fmt_model (c : bool * text * list (N * option obj) * list (text * text) * text) : text :=
  let '(can, msg, ps, dg, observed) := c in
  format_model (parse_of (ptab_of msg ps)) (digest_of dg) can msg.
Definition c20_check_fmt (c : bool * text * list (N * option obj) * list (text * text) * text) : bool :=
  teqb (c20_fmt_model c) (snd c).
Definition c20_show_fmt := c20_fmt_model.

(* stream "gcl": GoogleLogger.write_event(dict): (object, digest table, string fields of the
   printed JSON line).  message = str(clean) + " *" unless the record has its own "message";
   every cleaned item is a top-level field. *)
Definition c20_check_gcl (c : obj * list (text * text) * list (text * text)) : bool :=
  let '(o, dg, fields) := c in
  let cleaned := clean_record_model (digest_of dg) false o in
  forallb (fun kv => match lookup (fst kv) fields with Some v => teqb v (snd kv) | None => false end) cleaned &&
  (existsb (fun kv => teqb (fst kv) (T "message")) cleaned ||
   match lookup (T "message") fields with
   | Some m => teqb m (dict_repr cleaned ++ T " *")
   | None => false
   end).
(* GoogleLogger.write_event(text) (since e6db699): a text that is a JSON object is handled as
   that dict; from any other text the URL user-info is removed.  [parsed] = json.loads(text) when
   it is an object (oracle). *)
Inductive gcl_out := GDict (cleaned : list (text * text)) | GText (message : text).
Definition gcl_text_event (digest : text -> text) (parsed : option obj) (t : text) : gcl_out :=
  match parsed with
  | Some o => GDict (clean_record_model digest false o)
  | None => GText (gcl_url_step t)
  end.
Definition gcl_message_is (fields : list (text * text)) (m : text) : bool :=
  match lookup (T "message") fields with Some x => teqb x m | None => false end.
(* stream "gclt": (text, parsed, digest table, string fields of the printed line) *)
Definition c20_check_gclt (c : text * option obj * list (text * text) * list (text * text)) : bool :=
  let '(t, parsed, dg, fields) := c in
  match parsed with
  | Some o => c20_check_gcl (o, dg, fields)
  | None => match gcl_text_event (digest_of dg) None t with
            | GText m => gcl_message_is fields m
            | GDict _ => false
            end
  end.
Definition c20_show_gclt (c : text * option obj * list (text * text) * list (text * text)) :=
  let '(t, parsed, dg, fields) := c in gcl_text_event (digest_of dg) parsed t.
Definition c20_show_gcl (c : obj * list (text * text) * list (text * text)) :=
  let '(o, dg, fields) := c in
  let cleaned := clean_record_model (digest_of dg) false o in (cleaned, dict_repr cleaned ++ T " *").

(* ------------------------------------------------------------------ *)
(* Payloads handed over as Python OBJECTS (LogFormatter.clean_record / GoogleLogger.write_event
   called with a dict).  A heap of containers addressed by index; a value is an owned JSON
   tree or a REFERENCE to a container, so one dict/list object can be reachable from several
   places, and the caller can mutate a container in place between two calls. *)
(* [HDict] / [HList] stand for an instance of dict / list OR OF ANY SUBCLASS (OrderedDict,
   defaultdict, an application's own mapping class): the walk tests isinstance, so the class is not
   part of the model's state; the harness builds the subclass instances the case names. *)
Inductive hval := HLeaf (j : json) | HRef (a : nat).
Inductive hcell := HDict (kvs : list (text * hval)) | HList (items : list hval).
Definition heap := list hcell.

(* the VALUE of an object: the tree obtained by following the references.  [f] is fuel: every
   dereference costs one; S (length h) is enough for every acyclic heap (the harness only
   builds acyclic ones). A dangling reference / exhausted fuel reads as None. *)
Fixpoint unfold (f : nat) (h : heap) (v : hval) {struct f} : json :=
  match v with
  | HLeaf j => j
  | HRef a =>
      match f with
      | O => JNull
      | S f' =>
          match nth_error h a with
          | Some (HDict kvs) => JObj (map (fun kv => (fst kv, unfold f' h (snd kv))) kvs)
          | Some (HList l) => JArr (map (unfold f' h) l)
          | None => JNull
          end
      end
  end.

(* isinstance(item, (dict, list)) on a value reached with fuel f *)
Definition hv_container (f : nat) (h : heap) (v : hval) : bool :=
  match v with
  | HLeaf j => is_container j
  | HRef a => match f with
              | O => false
              | S _ => match nth_error h a with Some _ => true | None => false end
              end
  end.

Section HeapClean.
Variable sens : text -> bool.
Variable str_of : json -> text.
Variable repr_of : json -> text.
Variable digest : text -> text.
Variable colq : text -> text.

(* clean_record / _clean_items walking the OBJECTS: every reference met is walked again,
   whether or not the container behind it was met before; str(value) of an object is str of
   its value. *)
Fixpoint clean_href (f : nat) (h : heap) (m : bool) (v : hval) {struct f} : cval :=
  match v with
  | HLeaf j => clean_at sens str_of repr_of digest colq m j
  | HRef a =>
      match f with
      | O => clean_at sens str_of repr_of digest colq m JNull
      | S f' =>
          match nth_error h a with
          | Some (HDict kvs) =>
              CObj (map (fun kv => (fst kv, if sens (fst kv)
                                            then CRedacted (digest (str_of (unfold f' h (snd kv))))
                                            else clean_href f' h false (snd kv))) kvs)
          | Some (HList l) =>
              if m || existsb (hv_container f' h) l
              then CArr (map (clean_href f' h true) l)
              else CLeaf (colq (str_of (JArr (map (unfold f' h) l))))
          | None => clean_at sens str_of repr_of digest colq m JNull
          end
      end
  end.
End HeapClean.

(* d[k] = v : the position of an existing key is kept, a new key goes last *)
Fixpoint set_member (k : text) (v : hval) (kvs : list (text * hval)) : list (text * hval) :=
  match kvs with
  | [] => [(k, v)]
  | (k', x) :: r => if teqb k k' then (k', v) :: r else (k', x) :: set_member k v r
  end.
Definition del_member (k : text) (kvs : list (text * hval)) : list (text * hval) :=
  filter (fun kv => negb (teqb k (fst kv))) kvs.

(* what a caller does in one session (one LogFormatter, one process) *)
Inductive sop :=
| OClean (root : nat) (colorize : bool)     (* formatter.clean_record(object root, colorize) *)
| OGcl (root : nat)                         (* GoogleLogger.write_event(object root) *)
| OSet (a : nat) (k : text) (v : hval)      (* object a [k] = v            (in place) *)
| ODel (a : nat) (k : text)                 (* del object a [k]            (in place) *)
| OAppend (a : nat) (v : hval)              (* object a .append(v)         (in place) *)
| OSetItem (a : nat) (i : nat) (v : hval)   (* object a [i] = v            (in place) *)
| ONew (c : hcell)                          (* a new container, address = number of cells so far *)
| OCopy (a : nat) (deep : bool)             (* copy.copy(object a) / copy.deepcopy(object a) (or a pickle round trip): a new container *)
| OTouch (k : nat).                         (* the caller empties the dict that call number k returned *)

Inductive sout :=
| SNone                                               (* not a call *)
| SItems (items : list (text * text))                  (* items of the returned dict *)
| SBad.                                               (* the root is not a dict *)

(* a deep copy owns everything below it: equal value, no container shared with the original *)
Definition own_cell (f : nat) (h : heap) (c : hcell) : hcell :=
  match c with
  | HDict kvs => HDict (map (fun kv => (fst kv, HLeaf (unfold f h (snd kv)))) kvs)
  | HList l => HList (map (fun v => HLeaf (unfold f h v)) l)
  end.

(* calls leave every object as it is; the returned dict is new, so editing it changes nothing *)
Definition heap_step (h : heap) (op : sop) : heap :=
  match op with
  | OClean _ _ | OGcl _ | OTouch _ => h
  | OSet a k v => replace_nth a (fun c => match c with HDict kvs => HDict (set_member k v kvs) | _ => c end) h
  | ODel a k => replace_nth a (fun c => match c with HDict kvs => HDict (del_member k kvs) | _ => c end) h
  | OAppend a v => replace_nth a (fun c => match c with HList l => HList (l ++ [v]) | _ => c end) h
  | OSetItem a i v => replace_nth a (fun c => match c with HList l => HList (replace_nth i (fun _ => v) l) | _ => c end) h
  | ONew c => h ++ [c]
  | OCopy a deep =>
      match nth_error h a with
      | Some c => h ++ [if deep then own_cell (S (List.length h)) h c else c]   (* shallow: the same members *)
      | None => h
      end
  end.

Definition call_items (digest : text -> text) (h : heap) (root : nat) (colorize : bool) : sout :=
  let cl := colours_of colorize in
  let f := S (List.length h) in
  match nth_error h root with
  | Some (HDict _) =>
      match clean_href sensitive_code py_str py_repr digest (colour_quotes cl) f h false (HRef root) with
      | CObj kvs => SItems (render_obj cl kvs)
      | _ => SBad
      end
  | _ => SBad
  end.

Definition call_out (digest : text -> text) (h : heap) (op : sop) : sout :=
  match op with
  | OClean root colorize => call_items digest h root colorize
  | OGcl root => call_items digest h root false
  | _ => SNone
  end.

Definition sess_step (digest : text -> text) (h : heap) (op : sop) : heap * sout :=
  (heap_step h op, call_out digest h op).

Fixpoint sess_run (digest : text -> text) (h : heap) (ops : list sop) : list sout :=
  match ops with
  | [] => []
  | op :: r => snd (sess_step digest h op) :: sess_run digest (fst (sess_step digest h op)) r
  end.

(* what the harness saw for each operation *)
Inductive sobs :=
| BNone
| BItems (items : list (text * text)) (same : bool)      (* clean_record: returned items; repr(payload) after the call = before it *)
| BFields (fields : list (text * text)) (same : bool).   (* write_event: string fields of the printed line; payload unchanged *)

Definition gcl_fields_ok (cleaned fields : list (text * text)) : bool :=
  forallb (fun kv => match lookup (fst kv) fields with Some v => teqb v (snd kv) | None => false end) cleaned &&
  (existsb (fun kv => teqb (fst kv) (T "message")) cleaned ||
   match lookup (T "message") fields with
   | Some m => teqb m (dict_repr cleaned ++ T " *")
   | None => false
   end).

Definition sout_ok (op : sop) (out : sout) (ob : sobs) : bool :=
  match op, out, ob with
  | OClean _ _, SItems it, BItems it' same => pairs_eqb it it' && same     (* heap_step: a call changes no object *)
  | OGcl _, SItems it, BFields fields same => gcl_fields_ok it fields && same
  | (OSet _ _ _ | ODel _ _ | OAppend _ _ | OSetItem _ _ _ | ONew _ | OCopy _ _ | OTouch _), SNone, BNone => true
  | _, _, _ => false
  end.

Fixpoint souts_ok (ops : list sop) (outs : list sout) (obs : list sobs) : bool :=
  match ops, outs, obs with
  | [], [], [] => true
  | op :: ops', o :: outs', b :: obs' => sout_ok op o b && souts_ok ops' outs' obs'
  | _, _, _ => false
  end.

(* stream "sess": (heap, operations, digest table, observations) *)
Definition c20_check_sess (c : heap * list sop * list (text * text) * list sobs) : bool :=
  let '(h, ops, dg, obs) := c in souts_ok ops (sess_run (digest_of dg) h ops) obs.
Definition c20_show_sess (c : heap * list sop * list (text * text) * list sobs) : list sout :=
  let '(h, ops, dg, obs) := c in sess_run (digest_of dg) h ops.

(* ------------------------------------------------------------------ *)
(* Duplicate warnings (add_level.log_for_level / GoogleLogger.write_event at WARNING): a
   warning whose key (the message text; str(message) for GoogleLogger) was logged before in
   this process is dropped and counted; the first time, report_suppressions(message) is
   registered with atexit.  At interpreter exit the registered reports run, last registered
   first; one whose count is positive logs - again at WARNING - the dict
   {"message": "... suppressed N time(s)", "suppressed": <the message>} (since 84f3a17; before,
   a line of text that embedded the message). *)
Fixpoint json_eqb (a b : json) {struct a} : bool :=
  match a, b with
  | JStr s, JStr t => teqb s t
  | JNum s, JNum t => teqb s t
  | JBool x, JBool y => Bool.eqb x y
  | JNull, JNull => true
  | JArr l, JArr m =>
      (fix go (l m : list json) : bool :=
         match l, m with
         | [], [] => true
         | x :: l', y :: m' => json_eqb x y && go l' m'
         | _, _ => false
         end) l m
  | JObj l, JObj m =>
      (fix go (l m : list (text * json)) : bool :=
         match l, m with
         | [], [] => true
         | (k, x) :: l', (k', y) :: m' => teqb k k' && json_eqb x y && go l' m'
         | _, _ => false
         end) l m
  | _, _ => false
  end.

Inductive wmsg :=
| WObj (o : obj)                               (* a dict message *)
| WText (t : text) (parsed : option json).     (* a str message; json.loads(t) when t is JSON (oracle) *)

(* same key in the table of seen warnings (a session never passes a dict and its own JSON text,
   nor two different texts of one JSON object to GoogleLogger) *)
Definition wmsg_eqb (a b : wmsg) : bool :=
  match a, b with
  | WObj o, WObj o' => json_eqb (JObj o) (JObj o')
  | WText t _, WText t' _ => teqb t t'
  | _, _ => false
  end.

(* what the report shows under "suppressed": add_level parses the text back when it is JSON;
   GoogleLogger ([gcl]) passes the message object itself, which is the parsed dict when the
   text is a JSON object (e6db699), else the text with the URL user-info removed (a375704: the
   report is a dict, and dicts are cleaned by key only) *)
Definition wvalue (gcl : bool) (m : wmsg) : json :=
  match m with
  | WObj o => JObj o
  | WText t p => if gcl then match p with Some (JObj o) => JObj o | _ => JStr (gcl_url_step t) end
                 else match p with Some j => j | None => JStr t end
  end.

Fixpoint dec_digits (fuel : nat) (n : N) : text :=
  match fuel with
  | O => []
  | S f => if n <? 10 then [48 + n] else dec_digits f (n / 10) ++ [48 + n mod 10]
  end.
Definition dec_of_nat (n : nat) : text := dec_digits 20 (N.of_nat n).

Definition report_obj (gcl : bool) (m : wmsg) (n : nat) : obj :=
  [(T "message", JStr (T "The following message was suppressed " ++ dec_of_nat n ++ T " time(s)"));
   (T "suppressed", wvalue gcl m)].

(* (message, times dropped) ; registered reports, most recent first *)
Record wstate := mkw { w_seen : list (wmsg * nat); w_reg : list wmsg }.
Definition w_empty : wstate := mkw [] [].

Definition w_count (st : wstate) (m : wmsg) : nat :=
  match find (fun e => wmsg_eqb m (fst e)) (w_seen st) with Some e => snd e | None => O end.

(* logger.warning(m): the new state and what is emitted (nothing, or m) *)
Definition warn (st : wstate) (m : wmsg) : wstate * list wmsg :=
  if existsb (fun e => wmsg_eqb m (fst e)) (w_seen st)
  then (mkw (map (fun e => if wmsg_eqb m (fst e) then (fst e, S (snd e)) else e) (w_seen st)) (w_reg st), [])
  else (mkw ((m, O) :: w_seen st) (m :: w_reg st), [m]).

Fixpoint warn_all (st : wstate) (msgs : list wmsg) : wstate * list wmsg :=
  match msgs with
  | [] => (st, [])
  | m :: r => let '(st1, e1) := warn st m in let '(st2, e2) := warn_all st1 r in (st2, e1 ++ e2)
  end.

(* interpreter exit.  [same] = the reports are logged by the logger that counted the warnings
   (get_logger() is that logger); otherwise (GoogleLogger.write_event called directly while
   get_logger() is the stream logger) they go to a logger with its own, empty, table. *)
Fixpoint warn_exit (gcl same : bool) (src dst : wstate) (reg : list wmsg) : list wmsg :=
  match reg with
  | [] => []
  | m :: r =>
      match w_count (if same then dst else src) m with
      | O => warn_exit gcl same src dst r
      | S k => let '(dst', e) := warn dst (WObj (report_obj gcl m (S k))) in
               e ++ warn_exit gcl same src dst' r
      end
  end.

(* everything a process emits: the warnings in order, then the reports *)
Definition warn_session (gcl same : bool) (msgs : list wmsg) : list wmsg :=
  let '(st, e) := warn_all w_empty msgs in
  e ++ warn_exit gcl same st (if same then st else w_empty) (w_reg st).

(* one emitted record as the harness saw it: a line of the stream handler (colour setting,
   text given to sanitize_record, json.loads table, output), or the string fields of a line
   GoogleLogger printed *)
Inductive wrec :=
| RLine (can : bool) (rec : text) (ps : list (N * option obj)) (out : text)
| RFields (fields : list (text * text)).

Definition wrec_ok (digest : text -> text) (e : wmsg) (r : wrec) : bool :=
  match r with
  | RLine can rec ps out =>
      let parse := parse_of (ptab_of rec ps) in
      teqb (format_model parse digest can rec) out &&
      match e with
      | WObj o => match find_tail parse (split bar rec) 0 with
                  | Some (_, o') => json_eqb (JObj o) (JObj o')
                  | None => false
                  end
      | WText t _ => ends_with t rec
      end
  | RFields fields =>
      match e with
      | WObj o => gcl_fields_ok (clean_record_model digest false o) fields
      | WText t p =>
          match gcl_text_event digest (match p with Some (JObj o) => Some o | _ => None end) t with
          | GDict cleaned => gcl_fields_ok cleaned fields
          | GText m => gcl_message_is fields m
          end
      end
  end.

Fixpoint wrecs_ok (digest : text -> text) (es : list wmsg) (rs : list wrec) : bool :=
  match es, rs with
  | [], [] => true
  | e :: es', r :: rs' => wrec_ok digest e r && wrecs_ok digest es' rs'
  | _, _ => false
  end.

(* stream "warn": (gcl, same, warnings in order, digest table, emitted records in order) *)
Definition c20_check_warn (c : bool * bool * list wmsg * list (text * text) * list wrec) : bool :=
  let '(gcl, same, msgs, dg, recs) := c in wrecs_ok (digest_of dg) (warn_session gcl same msgs) recs.
Definition c20_show_warn (c : bool * bool * list wmsg * list (text * text) * list wrec) : list wmsg :=
  let '(gcl, same, msgs, dg, recs) := c in warn_session gcl same msgs.

(* ------------------------------------------------------------------ *)
(* Decoder for the generated case files.  A case is ONE string literal (long list
   literals are what makes coqc slow): an s-expression whose atoms are 'text' with
   printable ASCII standing for itself and any other code point written \<hex>; *)
Inductive sx := SA (t : text) | SL (l : list sx).

Definition hexval (n : N) : N := if n <? 58 then n - 48 else n - 87.

Fixpoint sx_go (l : list N) (atom : option text) (esc : option N) (cur : list sx) (stack : list (list sx)) : list sx :=
  match l with
  | [] => rev cur
  | c :: r =>
      match atom with
      | Some a =>
          match esc with
          | Some v => if c =? 59 then sx_go r (Some (v :: a)) None cur stack
                      else sx_go r atom (Some (16 * v + hexval c)) cur stack
          | None => if c =? 92 then sx_go r atom (Some 0) cur stack
                    else if c =? 39 then sx_go r None None (SA (rev a) :: cur) stack
                    else sx_go r (Some (c :: a)) None cur stack
          end
      | None =>
          if c =? 39 then sx_go r (Some []) None cur stack
          else if c =? 40 then sx_go r None None [] (cur :: stack)
          else if c =? 41 then match stack with
                               | p :: st => sx_go r None None (SL (rev cur) :: p) st
                               | [] => []
                               end
          else sx_go r None None cur stack
      end
  end.
Definition sx_parse (s : string) : list sx := sx_go (T s) None None [] [].

Definition sx_text (s : sx) : text := match s with SA t => t | SL _ => [] end.
Definition sx_bool (s : sx) : bool := match s with SA [49] => true | _ => false end.

Fixpoint sx_json (s : sx) : json :=
  match s with
  | SL (SA [115] :: SA t :: []) => JStr t                       (* (s text) *)
  | SL (SA [110] :: SA t :: []) => JNum t                       (* (n text) *)
  | SL (SA [116] :: []) => JBool true
  | SL (SA [102] :: []) => JBool false
  | SL (SA [122] :: []) => JNull
  | SL (SA [97] :: rest) =>                                     (* (a items...) *)
      JArr ((fix go (l : list sx) : list json :=
               match l with [] => [] | x :: r => sx_json x :: go r end) rest)
  | SL (SA [111] :: rest) =>                                    (* (o (key value)...) *)
      JObj ((fix go (l : list sx) : list (text * json) :=
               match l with
               | SL (SA k :: v :: []) :: r => (k, sx_json v) :: go r
               | _ => []
               end) rest)
  | _ => JStr (T "<undecodable case>")
  end.
Definition sx_obj (s : sx) : obj := match sx_json s with JObj kvs => kvs | _ => [(T "<undecodable case>", JNull)] end.
Definition sx_pairs (s : sx) : list (text * text) :=
  match s with
  | SL l => map (fun p => match p with SL (a :: b :: []) => (sx_text a, sx_text b) | _ => (T "<undecodable>", []) end) l
  | SA _ => [(T "<undecodable>", [])]
  end.
Fixpoint dec_nat (l : text) (acc : N) : N :=
  match l with [] => acc | c :: r => dec_nat r (10 * acc + (c - 48)) end.
Definition sx_ptab (s : sx) : list (N * option obj) :=
  match s with
  | SL l => map (fun p => match p with
                          | SL (a :: []) => (dec_nat (sx_text a) 0, None)
                          | SL (a :: o :: []) => (dec_nat (sx_text a) 0, Some (sx_obj o))
                          | _ => (0, None)
                          end) l
  | SA _ => []
  end.

Definition c20_dec_key (s : string) : text * bool :=
  match sx_parse s with [k; b] => (sx_text k, sx_bool b) | _ => ([], false) end.
Definition c20_dec_clean (s : string) : bool * obj * list (text * text) * list (text * text) :=
  match sx_parse s with
  | [c; o; dg; items] => (sx_bool c, sx_obj o, sx_pairs dg, sx_pairs items)
  | _ => (false, [], [], [(T "<undecodable case>", [])])
  end.
Definition c20_dec_fmt (s : string) : bool * text * list (N * option obj) * list (text * text) * text :=
  match sx_parse s with
  | [c; m; ps; dg; out] => (sx_bool c, sx_text m, sx_ptab ps, sx_pairs dg, sx_text out)
  | _ => (false, [], [], [], T "<undecodable case>")
  end.
Definition c20_dec_gcl (s : string) : obj * list (text * text) * list (text * text) :=
  match sx_parse s with
  | [o; dg; fields] => (sx_obj o, sx_pairs dg, sx_pairs fields)
  | _ => ([(T "<undecodable case>", JNull)], [], [])
  end.

(* sessions: a value is ('r' 'index') = reference, or a JSON tree; a cell is ('d' ('key' value)...) or ('l' value...) *)
Definition sx_idx (s : sx) : nat := N.to_nat (dec_nat (sx_text s) 0).
Definition sx_hval (s : sx) : hval :=
  match s with
  | SL (SA [114] :: a :: []) => HRef (sx_idx a)
  | _ => HLeaf (sx_json s)
  end.
Definition sx_hcell (s : sx) : hcell :=
  match s with
  | SL (SA [100] :: rest) =>
      HDict (map (fun m => match m with SL (SA k :: v :: []) => (k, sx_hval v) | _ => (T "<undecodable case>", HLeaf JNull) end) rest)
  | SL (SA [108] :: rest) => HList (map sx_hval rest)
  | _ => HDict [(T "<undecodable case>", HLeaf JNull)]
  end.
Definition sx_heap (s : sx) : heap := match s with SL l => map sx_hcell l | SA _ => [] end.
Definition sx_sop (s : sx) : option sop :=
  match s with
  | SL (SA [67] :: r :: c :: []) => Some (OClean (sx_idx r) (sx_bool c))
  | SL (SA [71] :: r :: []) => Some (OGcl (sx_idx r))
  | SL (SA [83] :: a :: SA k :: v :: []) => Some (OSet (sx_idx a) k (sx_hval v))
  | SL (SA [68] :: a :: SA k :: []) => Some (ODel (sx_idx a) k)
  | SL (SA [65] :: a :: v :: []) => Some (OAppend (sx_idx a) (sx_hval v))
  | SL (SA [73] :: a :: i :: v :: []) => Some (OSetItem (sx_idx a) (sx_idx i) (sx_hval v))
  | SL (SA [78] :: c :: []) => Some (ONew (sx_hcell c))
  | SL (SA [88] :: k :: []) => Some (OTouch (sx_idx k))
  | SL (SA [89] :: a :: d :: []) => Some (OCopy (sx_idx a) (sx_bool d))
  | _ => None
  end.
Fixpoint all_some_list {A} (l : list (option A)) : option (list A) :=
  match l with
  | [] => Some []
  | Some x :: r => option_map (cons x) (all_some_list r)
  | None :: _ => None
  end.
Definition sx_sobs (s : sx) : sobs :=
  match s with
  | SL [] => BNone
  | SL (SA [105] :: items :: same :: []) => BItems (sx_pairs items) (sx_bool same)
  | SL (SA [103] :: fields :: same :: []) => BFields (sx_pairs fields) (sx_bool same)
  | _ => BItems [(T "<undecodable case>", [])] false
  end.
Definition sx_list {A} (f : sx -> A) (s : sx) : list A := match s with SL l => map f l | SA _ => [] end.
Definition c20_dec_sess (s : string) : heap * list sop * list (text * text) * list sobs :=
  match sx_parse s with
  | [h; ops; dg; obs] =>
      match all_some_list (sx_list sx_sop ops) with
      | Some l => (sx_heap h, l, sx_pairs dg, sx_list sx_sobs obs)
      | None => ([], [], [], [BNone])           (* undecodable operation: the check fails *)
      end
  | _ => ([], [], [], [BNone])
  end.

(* warning sessions: a message is ('o' object) | ('t' 'text') | ('t' 'text' json); a record is
   ('L' 'can' 'text' table 'out') | ('F' fields) *)
Definition sx_wmsg (s : sx) : option wmsg :=
  match s with
  | SL (SA [111] :: o :: []) => Some (WObj (sx_obj o))
  | SL (SA [116] :: SA t :: []) => Some (WText t None)
  | SL (SA [116] :: SA t :: j :: []) => Some (WText t (Some (sx_json j)))
  | _ => None
  end.
Definition sx_wrec (s : sx) : option wrec :=
  match s with
  | SL (SA [76] :: c :: SA rec :: ps :: SA out :: []) => Some (RLine (sx_bool c) rec (sx_ptab ps) out)
  | SL (SA [70] :: fields :: []) => Some (RFields (sx_pairs fields))
  | _ => None
  end.
Definition c20_dec_warn (s : string) : bool * bool * list wmsg * list (text * text) * list wrec :=
  match sx_parse s with
  | [g; sm; msgs; dg; recs] =>
      match all_some_list (sx_list sx_wmsg msgs), all_some_list (sx_list sx_wrec recs) with
      | Some ms, Some rs => (sx_bool g, sx_bool sm, ms, sx_pairs dg, rs)
      | _, _ => (false, false, [], [], [RFields []])      (* undecodable: the check fails *)
      end
  | _ => (false, false, [], [], [RFields []])
  end.

(* GoogleLogger text messages: 'text' () | 'text' (o ...) *)
Definition c20_dec_gclt (s : string) : text * option obj * list (text * text) * list (text * text) :=
  match sx_parse s with
  | [t; SL []; dg; fields] => (sx_text t, None, sx_pairs dg, sx_pairs fields)
  | [t; o; dg; fields] => (sx_text t, Some (sx_obj o), sx_pairs dg, sx_pairs fields)
  | _ => ([], None, [], [])
  end.
