(* C12 - executable model of orso/group_by.py (GroupBy._map, aggregate, groups, the
   aggregators) and of the part of DataFrame it relies on (column_names, __iter__,
   DataFrame(list of dicts)).  No proofs here: this file must keep running when a
   proof breaks.

   Values.  A cell of the input frame is null, an integer, "something else" (an abstract
   type K with a boolean equality: text, non-integral floats, ...) or - never in an input
   frame, only inside the computation - the "*" marker that _map emits for a requested
   column the frame does not have (COUNT( * )).  Equality of key tuples is structural
   equality of these cells; the harness canonicalises Python values so that Python's ==
   coincides with it (True = 1 = 1.0).

   Python dicts are association lists in insertion order ([dget]/[dset]); defaultdict
   access is [dget] with a default followed by [dset].  Column labels are a small type
   ([LAgg f c] for f"{func}({col})", [LKey n] for a key column) that [render] prints as
   the text the code produces; the correspondence compares the rendered text. *)
From Coq Require Import List ZArith QArith Bool.
Import ListNotations.
Close Scope Q_scope.
Close Scope Z_scope.

(* ---------- Python dict as an insertion-ordered association list ---------- *)
Section Dict.
Variables (A B : Type) (eqb : A -> A -> bool).

Fixpoint dget (k : A) (d : list (A * B)) : option B :=
  match d with
  | [] => None
  | (k', v) :: r => if eqb k k' then Some v else dget k r
  end.

(* d[k] = v : overwrite in place (position kept) or append *)
Fixpoint dset (k : A) (v : B) (d : list (A * B)) : list (A * B) :=
  match d with
  | [] => [(k, v)]
  | (k', v') :: r => if eqb k k' then (k', v) :: r else (k', v') :: dset k v r
  end.

Definition dgetd (dflt : B) (k : A) (d : list (A * B)) : B :=
  match dget k d with Some v => v | None => dflt end.

Definition dmem (k : A) (d : list (A * B)) : bool :=
  match dget k d with Some _ => true | None => false end.

(* dict(pairs) / a dict comprehension: successive assignments *)
Definition dict_of (ps : list (A * B)) : list (A * B) :=
  fold_left (fun d p => dset (fst p) (snd p) d) ps [].
End Dict.
Arguments dget {A B}. Arguments dset {A B}. Arguments dgetd {A B}. Arguments dmem {A B}.
Arguments dict_of {A B}.

Section Lists.
Variables (A : Type) (eqb : A -> A -> bool).
Fixpoint list_eqb (a b : list A) : bool :=
  match a, b with
  | [], [] => true
  | x :: r, y :: s => eqb x y && list_eqb r s
  | _, _ => false
  end.
Fixpoint memb (x : A) (l : list A) : bool :=
  match l with [] => false | y :: r => eqb x y || memb x r end.
(* distinct elements in order of first occurrence (the specification's notion) *)
Fixpoint dedup (l : list A) : list A :=
  match l with
  | [] => []
  | x :: r => x :: filter (fun y => negb (eqb x y)) (dedup r)
  end.
End Lists.
Arguments list_eqb {A}. Arguments memb {A}. Arguments dedup {A}.

(* l[i] = x (the list is left alone when i is out of range) *)
Fixpoint set_nth {A : Type} (i : nat) (x : A) (l : list A) : list A :=
  match l, i with
  | [], _ => []
  | _ :: r, O => x :: r
  | y :: r, S j => y :: set_nth j x r
  end.

Fixpoint forall2b {A B : Type} (p : A -> B -> bool) (a : list A) (b : list B) : bool :=
  match a, b with
  | [], [] => true
  | x :: r, y :: s => p x y && forall2b p r s
  | _, _ => false
  end.

Fixpoint mapM {A B : Type} (f : A -> option B) (l : list A) : option (list B) :=
  match l with
  | [] => Some []
  | x :: r => match f x with
              | None => None
              | Some y => match mapM f r with None => None | Some ys => Some (y :: ys) end
              end
  end.

(* ---------- names, functions, exceptions ---------- *)
Definition name := list N.                       (* text = code points *)
Definition name_eqb : name -> name -> bool := list_eqb N.eqb.

Inductive func := MIN | MAX | COUNT | AVG | SUM.  (* the keys of AGGREGATORS *)
Definition func_eqb (a b : func) : bool :=
  match a, b with
  | MIN, MIN | MAX, MAX | COUNT, COUNT | AVG, AVG | SUM, SUM => true
  | _, _ => false
  end.
Definition fname (f : func) : name :=
  match f with
  | MIN => [77; 73; 78] | MAX => [77; 65; 88] | COUNT => [67; 79; 85; 78; 84]
  | AVG => [65; 86; 71] | SUM => [83; 85; 77]
  end%N.

Inductive exn := ValueError | TypeError.
Inductive result (A : Type) := Ok (a : A) | Raise (e : exn).
Arguments Ok {A}. Arguments Raise {A}.

Inductive lab := LAgg (f : func) (c : name) | LKey (n : name).
Definition lab_eqb (a b : lab) : bool :=
  match a, b with
  | LAgg f c, LAgg g d => func_eqb f g && name_eqb c d
  | LKey n, LKey m => name_eqb n m
  | _, _ => false
  end.
(* f"{func}({col})" ; a key column keeps its name *)
Definition render (l : lab) : name :=
  match l with
  | LAgg f c => fname f ++ 40%N :: c ++ [41%N]
  | LKey n => n
  end.

(* tuple.index *)
Fixpoint index_of (t : name) (names : list name) : option nat :=
  match names with
  | [] => None
  | n :: r => if name_eqb t n then Some 0 else option_map S (index_of t r)
  end.

(* ---------- integer folds: Python's min / max / sum scan left to right ---------- *)
Definition zmin (l : list Z) : Z := match l with [] => 0%Z | z :: r => fold_left Z.min r z end.
Definition zmax (l : list Z) : Z := match l with [] => 0%Z | z :: r => fold_left Z.max r z end.
Definition zsum (l : list Z) : Z := fold_left Z.add l 0%Z.

Section GroupBy.
Variable K : Type.
Variable K_eqb : K -> K -> bool.

Inductive val := VNull | VInt (z : Z) | VOth (k : K) | VStar.
Inductive cell := CVal (v : val) | CRat (q : Q).   (* CRat: the exact value of AVG *)

Definition val_eqb (a b : val) : bool :=
  match a, b with
  | VNull, VNull => true
  | VInt x, VInt y => Z.eqb x y
  | VOth x, VOth y => K_eqb x y
  | VStar, VStar => true
  | _, _ => false
  end.
Definition key := list val.
Definition key_eqb : key -> key -> bool := list_eqb val_eqb.

Definition nonnull (v : val) : bool := match v with VNull => false | _ => true end.
Definition is_star (v : val) : bool := match v with VStar => true | _ => false end.
Definition as_int (v : val) : option Z := match v with VInt z => Some z | _ => None end.

(* ---------- the frame (orso/dataframe.py) ---------- *)
Record frame := mkframe {
  fnames : list name;        (* column_names *)
  frows  : list (list val);  (* list-backed: the rows; generator-backed: what is still to be yielded *)
  flazy  : bool
}.
(* `for record in self._dictset` -> DataFrame.__iter__ -> `yield from self._rows`:
   a list is left as it is, a generator is spent. *)
Definition iterate (f : frame) : list (list val) * frame :=
  (frows f, if flazy f then mkframe (fnames f) [] true else f).
(* DataFrame.rowcount (materialises) *)
Definition rowcount (f : frame) : nat := length (frows f).

Definition cellat (row : list val) (i : nat) : val := nth i row VNull.   (* record[i] *)

(* ---------- GroupBy._map (group_by.py:68-102) ---------- *)
Definition emission := (key * name * val)%type.

Definition key_of (gidx : list nat) (row : list val) : key := map (cellat row) gidx.
Definition value_at (row : list val) (i : option nat) : val :=
  match i with None => VStar | Some j => cellat row j end.

(* line 83-86: collect_column_indicies (None for -1) *)
Definition collect_indices (names : list name) (collect : list name) : list (name * option nat) :=
  map (fun c => (c, index_of c names)) collect.
(* line 87-90: group_column_indicies; tuple.index raises ValueError *)
Definition group_indices (names : list name) (keycols : list name) : option (list nat) :=
  mapM (fun t => index_of t names) keycols.

(* line 101-102: what one record yields *)
Definition emit (gidx : list nat) (ccols : list (name * option nat)) (row : list val) : list emission :=
  map (fun ci => (key_of gidx row, fst ci, value_at row (snd ci))) ccols.
(* line 96-99: self._group_keys bookkeeping for one record *)
Definition gk_step (names : list name) (gidx : list nat)
           (gk : list (key * list (name * val))) (row : list val) :=
  let k := key_of gidx row in
  if dmem key_eqb k gk then gk
  else dset key_eqb k (map (fun i => (nth i names [], cellat row i)) gidx) gk.

(* The generator's two outputs: the yielded triples and the final self._group_keys.
   (They are produced interleaved; nothing observes the interleaving.) *)
Definition emissions gidx ccols (rows : list (list val)) : list emission :=
  flat_map (emit gidx ccols) rows.
Definition group_keys names gidx (rows : list (list val)) : list (key * list (name * val)) :=
  fold_left (gk_step names gidx) rows [].

(* ---------- aggregate (group_by.py:104-151) ---------- *)
(* line 125: list(dict.fromkeys(col for _, col in aggregations)) *)
Definition fromkeys (l : list name) : list name :=
  map fst (dict_of name_eqb (map (fun c => (c, tt)) l)).

(* line 127-129: column_value_map[group_key][column], append unless None *)
Definition collect_step (cvm : list (key * list (name * list val))) (e : emission) :=
  let '(k, c, v) := e in
  let inner := dgetd key_eqb [] k cvm in
  let vals := dgetd name_eqb [] c inner in
  dset key_eqb k (dset name_eqb c (if nonnull v then vals ++ [v] else vals) inner) cvm.

Definition collect_all (ems : list emission) : list (key * list (name * list val)) :=
  fold_left collect_step ems [].

(* line 25-45 and 135-139: one aggregate over the collected values.  None = TypeError.
   Values other than integers: only the all-"*" list of an unknown column is modelled
   (min/max give "*", sum raises); a list holding other non-integers answers TypeError
   here, which is right for mixed lists and for SUM/AVG of text but NOT for MIN/MAX of
   text or for floats - the harness never requests those (see notes/C12.md). *)
Definition fold_agg (f : func) (vals : list val) : option cell :=
  match f with
  | COUNT => Some (CVal (VInt (Z.of_nat (length vals))))
  | _ =>
    match vals with
    | [] => Some (CVal VNull)
    | _ :: _ =>
      match mapM as_int vals with
      | Some zs =>
          Some (match f with
                | MIN => CVal (VInt (zmin zs))
                | MAX => CVal (VInt (zmax zs))
                | SUM => CVal (VInt (zsum zs))
                | _ => CRat (zsum zs # Pos.of_nat (length zs))%Q
                end)
      | None =>
          if forallb is_star vals
          then match f with MIN | MAX => Some (CVal VStar) | _ => None end
          else None
      end
    end
  end.

(* line 132-139: aggregated_data[group] *)
Definition agg_cells (reqs : list (func * name)) (colvals : list (name * list val))
  : option (list (lab * cell)) :=
  mapM (fun r => option_map (pair (LAgg (fst r) (snd r)))
                            (fold_agg (fst r) (dgetd name_eqb [] (snd r) colvals))) reqs.
Definition apply_all reqs (cvm : list (key * list (name * list val)))
  : option (list (key * list (lab * cell))) :=
  mapM (fun g => option_map (fun cells => (fst g, dict_of lab_eqb cells)) (agg_cells reqs (snd g))) cvm.

(* line 141-147: one result dictionary *)
Definition result_row reqs (gk : list (key * list (name * val))) (g : key * list (lab * cell))
  : list (lab * cell) :=
  let results := dict_of lab_eqb
       (map (fun r => (LAgg (fst r) (snd r), dgetd lab_eqb (CVal VNull) (LAgg (fst r) (snd r)) (snd g))) reqs) in
  fold_left (fun d kv => dset lab_eqb (LKey (fst kv)) (CVal (snd kv)) d)
            (dgetd key_eqb [] (fst g) gk) results.

Definition aggregate (f : frame) (keycols : list name) (reqs : list (func * name))
  : result (list (list (lab * cell))) * frame :=
  let names := fnames f in
  let ccols := collect_indices names (fromkeys (map snd reqs)) in
  match group_indices names keycols with
  | None => (Raise ValueError, f)          (* raised by the first next(), before any record is read *)
  | Some gidx =>
      let '(rows, f') := iterate f in
      let gk := group_keys names gidx rows in
      let cvm := collect_all (emissions gidx ccols rows) in
      match apply_all reqs cvm with
      | None => (Raise TypeError, f')
      | Some ad => (Ok (map (result_row reqs gk) ad), f')
      end
  end.

(* groups() (group_by.py:225-235): runs _map("*") to the end, then one dict per group key *)
Definition groups (f : frame) (keycols : list name) : result (list (list (lab * cell))) * frame :=
  let names := fnames f in
  match group_indices names keycols with
  | None => (Raise ValueError, f)
  | Some gidx =>
      let '(rows, f') := iterate f in
      (Ok (map (fun g => dict_of lab_eqb (map (fun kv => (LKey (fst kv), CVal (snd kv))) (snd g)))
               (group_keys names gidx rows)), f')
  end.

(* DataFrame(list of dicts) (dataframe.py:70-86): schema from the first dict, row.get(k) *)
Definition to_frame (rs : list (list (lab * cell))) : list lab * list (list cell) :=
  match rs with
  | [] => ([], [])
  | first :: _ =>
      let hdr := map fst first in
      (hdr, map (fun d => map (fun k => dgetd lab_eqb (CVal VNull) k d) hdr) rs)
  end.

(* ---------- the specification: partition by key equality, fold per group ---------- *)
Definition group_of (gidx : list nat) (rows : list (list val)) (k : key) : list (list val) :=
  filter (fun r => key_eqb (key_of gidx r) k) rows.
(* the group's non-null values of a column ("*" once per row for a column the frame lacks) *)
Definition column_values (names : list name) (c : name) (g : list (list val)) : list val :=
  filter nonnull (map (fun r => value_at r (index_of c names)) g).
Definition spec_row names gidx reqs rows (k : key) : option (list (lab * cell)) :=
  option_map
    (fun cells => dict_of lab_eqb
        (cells ++ map (fun nv => (LKey (fst nv), CVal (snd nv)))
                      (combine (map (fun i => nth i names []) gidx) k)))
    (mapM (fun r => option_map (pair (LAgg (fst r) (snd r)))
                      (fold_agg (fst r) (column_values names (snd r) (group_of gidx rows k)))) reqs).
Definition spec_aggregate (names : list name) (rows : list (list val)) keycols reqs
  : result (list (list (lab * cell))) :=
  match group_indices names keycols with
  | None => Raise ValueError
  | Some gidx =>
      match mapM (spec_row names gidx reqs rows) (dedup key_eqb (map (key_of gidx) rows)) with
      | None => Raise TypeError
      | Some rs => Ok rs
      end
  end.

(* ---------- sessions: objects with identity, used more than once, mutated in between ----------
   A DataFrame is an object whose row list grows by append() and whose generator is spent by
   the first scan; a GroupBy is an object that refers to its frame (it does not copy it), keeps
   its key columns, and has an attribute self._group_keys that outlives the call.  Since
   5771d3f (F-C12-5) every pass of _map starts by emptying it (group_by.py:92-94, after the
   index lookups that may raise ValueError), so what the object holds afterwards is the
   bookkeeping of the last pass.  [gb_aggregate] / [gb_groups] are aggregate / groups as
   methods of such an object: they take what the object holds ([memo]) and return what it
   holds afterwards. *)
Definition gkmemo := list (key * list (name * val)).

Definition gb_aggregate (memo : gkmemo) (f : frame) (keycols : list name) (reqs : list (func * name))
  : result (list (list (lab * cell))) * frame * gkmemo :=
  let names := fnames f in
  let ccols := collect_indices names (fromkeys (map snd reqs)) in
  match group_indices names keycols with
  | None => (Raise ValueError, f, memo)          (* raised before self._group_keys is emptied *)
  | Some gidx =>
      let '(rows, f') := iterate f in
      let gk := fold_left (gk_step names gidx) rows [] in      (* self._group_keys = {} ; then the pass *)
      let cvm := collect_all (emissions gidx ccols rows) in
      match apply_all reqs cvm with
      | None => (Raise TypeError, f', gk)
      | Some ad => (Ok (map (result_row reqs gk) ad), f', gk)
      end
  end.

Definition gb_groups (memo : gkmemo) (f : frame) (keycols : list name)
  : result (list (list (lab * cell))) * frame * gkmemo :=
  let names := fnames f in
  match group_indices names keycols with
  | None => (Raise ValueError, f, memo)
  | Some gidx =>
      let '(rows, f') := iterate f in
      let gk := fold_left (gk_step names gidx) rows [] in
      (Ok (map (fun g => dict_of lab_eqb (map (fun kv => (LKey (fst kv), CVal (snd kv))) (snd g))) gk), f', gk)
  end.

(* the heap: frames and GroupBy objects, addressed by position (creation order) *)
Record gbobj := mkgb { gframe : nat; gcols : list name; gmemo : gkmemo }.
Record heap := mkheap { hframes : list frame; hgbs : list gbobj }.

Inductive op :=
| OAppend (f : nat) (row : list val)              (* df.append(row) *)
| OMaterialize (f : nat)                          (* df.rowcount (materialises; observes the count) *)
| OGroupBy (f : nat) (keycols : list name)        (* df.group_by(keycols): a new GroupBy object *)
| OAggregate (g : nat) (reqs : list (func * name))  (* gb.aggregate(reqs) on an existing object *)
| OGroups (g : nat).                              (* gb.groups() on an existing object *)

Inductive out :=
| OutUnit                        (* nothing to observe *)
| OutAttrError                   (* append on a generator-backed frame: 'generator' has no append *)
| OutBadRef                      (* the session names an object that does not exist (never generated) *)
| OutCount (n : nat)
| OutRes (r : result (list (list (lab * cell)))).

Definition step (h : heap) (o : op) : heap * out :=
  match o with
  | OAppend i row =>
      match nth_error (hframes h) i with
      | None => (h, OutBadRef)
      | Some f =>
          if flazy f then (h, OutAttrError)
          else (mkheap (set_nth i (mkframe (fnames f) (frows f ++ [row]) false) (hframes h)) (hgbs h), OutUnit)
      end
  | OMaterialize i =>
      match nth_error (hframes h) i with
      | None => (h, OutBadRef)
      | Some f => (mkheap (set_nth i (mkframe (fnames f) (frows f) false) (hframes h)) (hgbs h),
                   OutCount (rowcount f))
      end
  | OGroupBy i keycols => (mkheap (hframes h) (hgbs h ++ [mkgb i keycols []]), OutUnit)
  | OAggregate g reqs =>
      match nth_error (hgbs h) g with
      | None => (h, OutBadRef)
      | Some gb =>
          match nth_error (hframes h) (gframe gb) with
          | None => (h, OutBadRef)
          | Some f =>
              let '(r, f', memo') := gb_aggregate (gmemo gb) f (gcols gb) reqs in
              (mkheap (set_nth (gframe gb) f' (hframes h))
                      (set_nth g (mkgb (gframe gb) (gcols gb) memo') (hgbs h)), OutRes r)
          end
      end
  | OGroups g =>
      match nth_error (hgbs h) g with
      | None => (h, OutBadRef)
      | Some gb =>
          match nth_error (hframes h) (gframe gb) with
          | None => (h, OutBadRef)
          | Some f =>
              let '(r, f', memo') := gb_groups (gmemo gb) f (gcols gb) in
              (mkheap (set_nth (gframe gb) f' (hframes h))
                      (set_nth g (mkgb (gframe gb) (gcols gb) memo') (hgbs h)), OutRes r)
          end
      end
  end.

Fixpoint run (h : heap) (ops : list op) : heap * list out :=
  match ops with
  | [] => (h, [])
  | o :: r => let '(h1, x) := step h o in let '(h2, xs) := run h1 r in (h2, x :: xs)
  end.

End GroupBy.

Arguments VNull {K}. Arguments VInt {K}. Arguments VOth {K}. Arguments VStar {K}.
Arguments CVal {K}. Arguments CRat {K}.
Arguments mkframe {K}. Arguments fnames {K}. Arguments frows {K}. Arguments flazy {K}.
Arguments mkgb {K}. Arguments gframe {K}. Arguments gcols {K}. Arguments gmemo {K}.
Arguments mkheap {K}. Arguments hframes {K}. Arguments hgbs {K}.
Arguments OAppend {K}. Arguments OMaterialize {K}. Arguments OGroupBy {K}. Arguments OAggregate {K}. Arguments OGroups {K}.
Arguments OutUnit {K}. Arguments OutAttrError {K}. Arguments OutBadRef {K}. Arguments OutCount {K}. Arguments OutRes {K}.

(* ================= correspondence instance ================= *)
(* non-integer key cells the harness produces: floats (by bit pattern) and text *)
Inductive kc := KFloat (bits : N) | KText (s : list N).
Definition kc_eqb (a b : kc) : bool :=
  match a, b with
  | KFloat x, KFloat y => N.eqb x y
  | KText x, KText y => list_eqb N.eqb x y
  | _, _ => false
  end.

(* decimal.Decimal division at context precision [prec], ROUND_HALF_EVEN, as an exact
   rational: the correctly rounded quotient with [prec] significant digits. *)
Fixpoint ndigits_aux (fuel : nat) (a : Z) : Z :=
  match fuel with
  | O => 0
  | S f => if (a <? 10)%Z then 1%Z else (1 + ndigits_aux f (a / 10))%Z
  end.
Definition ndigits (a : Z) : Z := ndigits_aux (S (Z.to_nat (Z.log2 a))) a.
Definition div_half_even (num den : Z) : Z :=
  let q := (num / den)%Z in
  let r := (num mod den)%Z in
  if (2 * r <? den)%Z then q
  else if (den <? 2 * r)%Z then (q + 1)%Z
  else if Z.even q then q else (q + 1)%Z.
Definition dec_round (prec : Z) (q : Q) : Q :=
  let s := Qnum q in
  let n := Zpos (Qden q) in
  if (s =? 0)%Z then 0%Q else
  let a := Z.abs s in
  let k0 := (prec + ndigits n - ndigits a)%Z in
  let nu0 := (a * 10 ^ Z.max k0 0)%Z in
  let de0 := (n * 10 ^ Z.max (- k0) 0)%Z in
  let k := if (de0 * 10 ^ prec <=? nu0)%Z then (k0 - 1)%Z else k0 in
  let nu := (a * 10 ^ Z.max k 0)%Z in
  let de := (n * 10 ^ Z.max (- k) 0)%Z in
  let c := div_half_even nu de in
  ((Z.sgn s * c * 10 ^ Z.max (- k) 0)%Z # Z.to_pos (10 ^ Z.max k 0)%Z)%Q.

(* model cell vs observed cell: plain values structurally, AVG as the rational the
   implementation's Decimal denotes vs the exact mean rounded to 28 digits *)
Definition cell_match (m o : cell kc) : bool :=
  match m, o with
  | CVal a, CVal b => val_eqb kc kc_eqb a b
  | CRat q, CRat r => Qeq_bool (dec_round 28 q) r
  | _, _ => false
  end.

Inductive oexn := OValueError | OTypeError | OOther.
Inductive obs :=
| ObsRaise (e : oexn) (rows_after : Z)
| ObsFrame (hdr : list name) (rows : list (list (cell kc))) (rows_after : Z).

Definition exn_match (e : exn) (o : oexn) : bool :=
  match e, o with ValueError, OValueError | TypeError, OTypeError => true | _, _ => false end.

Definition out_match (r : result (list (list (lab * cell kc))) * frame kc) (o : obs) : bool :=
  let '(res, f') := r in
  match res, o with
  | Raise e, ObsRaise oe n => exn_match e oe && Z.eqb (Z.of_nat (rowcount kc f')) n
  | Ok rs, ObsFrame hdr rows n =>
      let '(mh, mrows) := to_frame kc rs in
      list_eqb name_eqb (map render mh) hdr
      && list_eqb (list_eqb cell_match) mrows rows
      && Z.eqb (Z.of_nat (rowcount kc f')) n
  | _, _ => false
  end.

(* a case: (lazy?, column names, rows, key columns, requests, observation) *)
Definition agg_case := (bool * list name * list (list (val kc)) * list name * list (func * name) * obs)%type.
Definition c12_check_agg (c : agg_case) : bool :=
  let '(lz, names, rows, keycols, reqs, o) := c in
  out_match (aggregate kc kc_eqb (mkframe names rows lz) keycols reqs) o.
Definition c12_show_agg (c : agg_case) :=
  let '(lz, names, rows, keycols, reqs, o) := c in
  let '(res, f') := aggregate kc kc_eqb (mkframe names rows lz) keycols reqs in
  (match res with Ok rs => Ok (let '(h, r) := to_frame kc rs in (map render h, r)) | Raise e => Raise e end,
   rowcount kc f').

Definition grp_case := (bool * list name * list (list (val kc)) * list name * obs)%type.
Definition c12_check_groups (c : grp_case) : bool :=
  let '(lz, names, rows, keycols, o) := c in
  out_match (groups kc kc_eqb (mkframe names rows lz) keycols) o.
Definition c12_show_groups (c : grp_case) :=
  let '(lz, names, rows, keycols, o) := c in
  let '(res, f') := groups kc kc_eqb (mkframe names rows lz) keycols in
  (match res with Ok rs => Ok (let '(h, r) := to_frame kc rs in (map render h, r)) | Raise e => Raise e end,
   rowcount kc f').

(* ---------- sessions (object identity, reuse, mutation in between) ---------- *)
Inductive sobs :=
| SUnit | SAttrError | SOtherError
| SCount (n : Z)
| SRaise (e : oexn)
| SFrame (hdr : list name) (rows : list (list (cell kc))).

Definition sout_match (m : out kc) (o : sobs) : bool :=
  match m, o with
  | OutUnit, SUnit => true
  | OutAttrError, SAttrError => true
  | OutCount n, SCount z => Z.eqb (Z.of_nat n) z
  | OutRes (Raise e), SRaise oe => exn_match e oe
  | OutRes (Ok rs), SFrame hdr rows =>
      let '(mh, mrows) := to_frame kc rs in
      list_eqb name_eqb (map render mh) hdr && list_eqb (list_eqb cell_match) mrows rows
  | _, _ => false
  end.

(* a session: (initial frames as (lazy?, column names, rows), operations, one observation per
   operation, rowcount of every frame at the end) *)
Definition session_case :=
  (list (bool * list name * list (list (val kc))) * list (op kc) * list sobs * list Z)%type.
Definition session_heap (frs : list (bool * list name * list (list (val kc)))) : heap kc :=
  mkheap (map (fun t => let '(lz, names, rows) := t in mkframe names rows lz) frs) [].
Definition c12_check_session (c : session_case) : bool :=
  let '(frs, ops, os, final) := c in
  let '(h, outs) := run kc kc_eqb (session_heap frs) ops in
  forall2b sout_match outs os
  && list_eqb Z.eqb (map (fun f => Z.of_nat (rowcount kc f)) (hframes h)) final.
Definition show_out (m : out kc) :=
  match m with
  | OutRes (Ok rs) => OutRes (Ok (let '(h, r) := to_frame kc rs in [map (fun l => (l, CVal VNull)) h]
                                   ++ map (map (fun c => (LKey [], c))) r))
  | x => x
  end.
Definition c12_show_session (c : session_case) :=
  let '(frs, ops, os, final) := c in
  let '(h, outs) := run kc kc_eqb (session_heap frs) ops in
  (map show_out outs, map (rowcount kc) (hframes h)).

(* the column names the session generator uses, as constants (a name literal costs ~0.3 ms of
   type-checking each and a session repeats them in every operation); tools/props/C12.py checks
   on load that each constant is the literal it stands for *)
Definition n_k1 : name := [107; 49]%N.
Definition n_k2 : name := [107; 50]%N.
Definition n_v : name := [118]%N.
Definition n_w : name := [119]%N.
Definition n_star : name := [42]%N.
Definition n_zz : name := [122; 122]%N.
Definition n_nope : name := [110; 111; 112; 101]%N.

Definition oapp (f : nat) (row : list (val kc)) : op kc := OAppend f row.
Definition omat (f : nat) : op kc := OMaterialize f.
Definition ogb (f : nat) (keycols : list name) : op kc := OGroupBy f keycols.
Definition oagg (g : nat) (reqs : list (func * name)) : op kc := OAggregate g reqs.
Definition ogrp (g : nat) : op kc := OGroups g.

(* short constructors for the generated case files *)
Definition vn : val kc := VNull.
Definition vi (z : Z) : val kc := VInt z.
Definition vf (bits : N) : val kc := VOth (KFloat bits).
Definition vt (s : list N) : val kc := VOth (KText s).
Definition vstar : val kc := VStar.
Definition cv (v : val kc) : cell kc := CVal v.
Definition cq (n : Z) (d : positive) : cell kc := CRat (Qmake n d).
