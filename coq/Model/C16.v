(* C16 - executable model of schema / column persistence.  No proofs here.

   orso/schema.py  FlatColumn.__init__ (153-225)              -> collect, norm_disposition, norm_element, norm_type,
                                                                 norm_decimal, norm_default, init
                   RelationSchema.to_dict / from_dict (653-693) -> conv, to_dict_col, to_dict, from_dict
                   FlatColumn.to_json / from_json (336-363)     -> json_of_pv, to_json, kwargs_of_json, from_json
                   FlatColumn.to_flatcolumn (278-296)           -> to_flatcolumn
                   RelationSchema.validate (695-743)            -> proj_col (the view Model/C05.v's validate works on)
   orso/dataframe.py DataFrame.description (345-397)            -> describe

   A column object is its attribute dictionary: one dynamically typed value ([pv]) per declared dataclass
   field ([field]; the list of fields and their declared defaults is REGENERATED into Gen/C16_Fields.v and
   interpreted here; Props/C16.v checks that the regenerated list is the one modelled).  Keyword arguments,
   the dictionary written by to_dict and the object written by to_json are association lists over the same
   fields.  The re-parse of a type name is Model/C06.v's [from_name] (used on ASCII text only).  Two library
   functions are parameters: [parse] (OrsoTypes.<m>.parse with the length / precision / scale / element_type keywords, i.e. C07) and [ser_ext] (what orjson.dumps with
   to_json's default hook writes for a leaf value that JSON has no native form for).  The correspondence
   instantiates them with the results observed on the real functions ([parse_of], [ser_of]). *)
From Coq Require Import List NArith ZArith Bool.
From Coq Require Import String.  (* for the string literal notation only *)
From Orso Require Import Base.C16_Defs Gen.C16_Fields.
From Orso Require Base.C06_Defs Model.C06 Model.C05 Model.C08.
Import ListNotations.

(* ---------- text ---------- *)
Fixpoint str_eqb (a b : str) : bool :=
  match a, b with
  | [], [] => true
  | x :: a', y :: b' => N.eqb x y && str_eqb a' b'
  | _, _ => false
  end.
Definition mem (x : str) (l : list str) : bool := existsb (str_eqb x) l.
Fixpoint sassoc {A : Type} (k : str) (l : list (str * A)) : option A :=
  match l with
  | [] => None
  | (k', a) :: r => if str_eqb k k' then Some a else sassoc k r
  end.
Definition is_ascii (s : str) : bool := forallb (fun c => N.ltb c 128) s.

(* ---------- exceptions ---------- *)
Inductive exn :=
| ValueError | TypeError | KeyError | AttributeError | ColumnDefinitionError
| OtherExn          (* any other exception class *)
| Unmodelled.       (* the input is outside what this model describes (never produced on generated cases) *)

Inductive result (A : Type) := Ok (a : A) | Raise (e : exn).
Arguments Ok {A}. Arguments Raise {A}.
Definition bind {A B : Type} (r : result A) (k : A -> result B) : result B :=
  match r with Ok a => k a | Raise e => Raise e end.
Fixpoint mapM {A B : Type} (f : A -> result B) (l : list A) : result (list B) :=
  match l with
  | [] => Ok []
  | x :: r => bind (f x) (fun y => bind (mapM f r) (fun ys => Ok (y :: ys)))
  end.

(* ---------- Python values ---------- *)
Inductive atom :=
| ANone
| ABool (b : bool)
| AInt (z : Z)
| AFloat (bits : N)                          (* binary64 by its bits *)
| AText (s : str)
| ABytes (l : list N)
| ADec (u e : Z)                             (* finite Decimal u * 10^e, normalised by the harness *)
| ADate (y m d : Z)
| AStamp (y mo d h mi s us : Z) (tz : bool)  (* datetime; tz: carries a tzinfo *)
| ADelta (d s us : Z)                        (* timedelta *)
| AObj (cls id : N) (truth : bool)           (* any other object: class, identity, truthiness *)
| ATy (m : str)                              (* the OrsoTypes member named m *)
| ADisp (m : str)                            (* the ColumnDisposition member named m *)
| AExp (isobj hascol : bool) (id : N).       (* an expectation: Expectation object / its dictionary; has a non-empty 'column'; content id *)

Inductive pv := PA (a : atom) | PL (l : list atom).   (* a value, or a (flat) list of values *)
Definition PNone : pv := PA ANone.

Definition type_value (m : str) : str := match sassoc m type_members with Some v => v | None => [] end.
Definition disp_value (m : str) : str := match sassoc m disposition_members with Some v => v | None => [] end.
Definition type_names : list str := map fst type_members.
Definition disp_names : list str := map fst disposition_members.

Definition nonempty {A : Type} (l : list A) : bool := match l with [] => false | _ => true end.
Definition zero_bits (b : N) : bool := N.eqb b 0 || N.eqb b 9223372036854775808.
Definition finite_bits (b : N) : bool := negb (N.eqb (N.land (N.shiftr b 52) 2047) 2047).

(* bool(v) *)
Definition truthy_atom (a : atom) : bool :=
  match a with
  | ANone => false
  | ABool b => b
  | AInt z => negb (Z.eqb z 0)
  | AFloat b => negb (zero_bits b)
  | AText s => nonempty s
  | ABytes l => nonempty l
  | ADec u _ => negb (Z.eqb u 0)
  | ADate _ _ _ => true
  | AStamp _ _ _ _ _ _ _ _ => true
  | ADelta d s us => negb (Z.eqb d 0 && Z.eqb s 0 && Z.eqb us 0)
  | AObj _ _ t => t
  | ATy m => nonempty (type_value m)       (* a str-valued enum member *)
  | ADisp _ => true
  | AExp _ _ _ => true
  end.
Definition truthy (v : pv) : bool := match v with PA a => truthy_atom a | PL l => nonempty l end.
Definition is_none (v : pv) : bool := match v with PA ANone => true | _ => false end.

(* str(v), for the values a type name can be given as *)
Definition render_int (z : Z) : str :=
  if Z.ltb z 0 then 45%N :: Model.C06.dec (Z.to_N (- z)) else Model.C06.dec (Z.to_N z).
Definition txt_None : str := Eval vm_compute in txt "None"%string.
Definition txt_True : str := Eval vm_compute in txt "True"%string.
Definition txt_False : str := Eval vm_compute in txt "False"%string.
Definition text_of (v : pv) : option str :=
  match v with
  | PA (AText s) => Some s
  | PA (AInt z) => Some (render_int z)
  | PA ANone => Some txt_None
  | PA (ABool b) => Some (if b then txt_True else txt_False)
  | PA (ATy m) => Some (type_value m)        (* OrsoTypes.__str__ returns the value *)
  | _ => None
  end.

(* ---------- fields ---------- *)
Inductive field :=
| FName | FDefault | FType | FElementType | FDescription | FDisposition | FAliases | FNullable
| FExpectations | FIdentity | FLength | FPrecision | FScale | FOrigin | FHighest | FLowest | FNullCount.

Definition all_fields : list field :=
  [FName; FDefault; FType; FElementType; FDescription; FDisposition; FAliases; FNullable;
   FExpectations; FIdentity; FLength; FPrecision; FScale; FOrigin; FHighest; FLowest; FNullCount].

Definition field_name_src (f : field) : str :=
  match f with
  | FName => txt "name"%string
  | FDefault => txt "default"%string
  | FType => txt "type"%string
  | FElementType => txt "element_type"%string
  | FDescription => txt "description"%string
  | FDisposition => txt "disposition"%string
  | FAliases => txt "aliases"%string
  | FNullable => txt "nullable"%string
  | FExpectations => txt "expectations"%string
  | FIdentity => txt "identity"%string
  | FLength => txt "length"%string
  | FPrecision => txt "precision"%string
  | FScale => txt "scale"%string
  | FOrigin => txt "origin"%string
  | FHighest => txt "highest_value"%string
  | FLowest => txt "lowest_value"%string
  | FNullCount => txt "null_count"%string
  end.
Definition field_name : field -> str := Eval vm_compute in field_name_src.

Definition field_eqb (a b : field) : bool :=
  match a, b with
  | FName, FName | FDefault, FDefault | FType, FType | FElementType, FElementType
  | FDescription, FDescription | FDisposition, FDisposition | FAliases, FAliases | FNullable, FNullable
  | FExpectations, FExpectations | FIdentity, FIdentity | FLength, FLength | FPrecision, FPrecision
  | FScale, FScale | FOrigin, FOrigin | FHighest, FHighest | FLowest, FLowest | FNullCount, FNullCount => true
  | _, _ => false
  end.

Definition field_of_name (s : str) : option field := find (fun f => str_eqb (field_name f) s) all_fields.

(* the schema's own fields, in the order modelled by [schema] below *)
Definition schema_field_names : list str :=
  Eval vm_compute in map txt ["name"; "aliases"; "columns"; "primary_key"; "row_count_metric"; "row_count_estimate";
                              "data_size_metric"; "data_size_estimate"]%string.

(* a column object: the value of every declared attribute *)
Record column := mkcolumn {
  c_name : pv; c_default : pv; c_type : pv; c_elt : pv; c_description : pv; c_disposition : pv;
  c_aliases : pv; c_nullable : pv; c_expectations : pv; c_identity : pv; c_length : pv;
  c_precision : pv; c_scale : pv; c_origin : pv; c_highest : pv; c_lowest : pv; c_null_count : pv
}.

Definition get (f : field) (c : column) : pv :=
  match f with
  | FName => c_name c | FDefault => c_default c | FType => c_type c | FElementType => c_elt c
  | FDescription => c_description c | FDisposition => c_disposition c | FAliases => c_aliases c
  | FNullable => c_nullable c | FExpectations => c_expectations c | FIdentity => c_identity c
  | FLength => c_length c | FPrecision => c_precision c | FScale => c_scale c | FOrigin => c_origin c
  | FHighest => c_highest c | FLowest => c_lowest c | FNullCount => c_null_count c
  end.

Definition build (g : field -> pv) : column :=
  mkcolumn (g FName) (g FDefault) (g FType) (g FElementType) (g FDescription) (g FDisposition) (g FAliases)
           (g FNullable) (g FExpectations) (g FIdentity) (g FLength) (g FPrecision) (g FScale) (g FOrigin)
           (g FHighest) (g FLowest) (g FNullCount).

Definition set (f : field) (v : pv) (c : column) : column :=
  build (fun f' => if field_eqb f f' then v else get f' c).

(* keyword arguments / a column dictionary *)
Definition kwargs := list (field * pv).
Fixpoint lookup (f : field) (kw : kwargs) : option pv :=
  match kw with
  | [] => None
  | (f', v) :: r => if field_eqb f f' then Some v else lookup f r
  end.

(* ---------- declared defaults, read from the regenerated table ---------- *)
Definition class_flat : str := Eval vm_compute in txt "FlatColumn"%string.
Definition class_overrides (cls : str) : list (str * fdefault) :=
  match find (fun '(n, _, _) => str_eqb n cls) subclass_table with
  | Some (_, o, _) => o
  | None => []
  end.
Definition declared (cls : str) (f : field) : fdefault :=
  match sassoc (field_name f) (class_overrides cls ++ column_field_table) with
  | Some d => d
  | None => DRequired
  end.
(* [fresh] is what random_string() returns *)
Definition default_value (cls : str) (fresh : str) (f : field) : option pv :=
  match declared cls f with
  | DRequired => None
  | DNone => Some PNone
  | DBool b => Some (PA (ABool b))
  | DInt z => Some (PA (AInt z))
  | DEmptyList => Some (PL [])
  | DEmptyTuple => Some (PA (AObj 1 0 false))
  | DRandomString => Some (PA (AText fresh))
  | DTypeMember m => Some (PA (ATy m))
  | DCallable => Some (PA (AObj 2 0 true))
  end.

(* ---------- type names ---------- *)
Notation descr := Model.C06.descr.
Definition conv_exn (e : C06_Defs.exn) : exn :=
  match e with C06_Defs.ValueError => ValueError | C06_Defs.OtherExn => OtherExn end.

(* OrsoTypes.from_name(v) *)
Definition from_name_pv (v : pv) : result descr :=
  match v with
  | PA ANone => Ok (Model.C06.plain (Model.C06.TMember missing_member) None)
  | _ =>
      match text_of v with
      | None => Raise Unmodelled
      | Some s =>
          if is_ascii s then
            match Model.C06.from_name s with
            | C06_Defs.Ok d => Ok d
            | C06_Defs.Raise e => Raise (conv_exn e)
            end
          else Raise Unmodelled
      end
  end.

Definition pv_of_tyref (t : Model.C06.tyref) : pv :=
  match t with
  | Model.C06.TMember m => PA (ATy m)
  | Model.C06.TZero => PA (AInt 0)
  | Model.C06.TOther => PA (AObj 0 0 false)
  end.
Definition pv_of_optN (o : option N) : pv := match o with Some n => PA (AInt (Z.of_N n)) | None => PNone end.
Definition pv_of_optT (o : option str) : pv := match o with Some m => PA (ATy m) | None => PNone end.

Definition ty_decimal : str := Eval vm_compute in txt "DECIMAL"%string.
Definition ty_array : str := Eval vm_compute in txt "ARRAY"%string.

(* what OrsoTypes.parse is given besides the value: length, precision, scale, element_type of the column *)
Definition params : Type := (pv * pv * pv * pv)%type.

(* ---------- the length cut of BLOB / VARCHAR defaults (orso/types.py parse_bytes 292-300, parse_varchar 318-323) ----------
   A concrete sub-model of the [parse] parameter below, for the two types whose cast reads the column's length:
     parse_bytes:   value = x if bytes else str(x).encode("utf-8");  if length: value = value[:length]   (BYTES are cut)
     parse_varchar: text = x.decode("utf-8") if bytes else str(x);   if length: text = text[:length]     (CHARACTERS are cut)
   [text_cast m q v] is None where this sub-model says nothing (other types, other value classes, a length that is
   neither None nor an int, text holding a lone surrogate).  The correspondence compares every observed parse result
   of these two types with it ([parse_conforms]); Props/C16.v proves that its results are fixed points, which is the
   premise [default_ok] of the round-trip theorems.  UTF-8 is Model/C08.v's. *)
Definition m_blob : str := Eval vm_compute in txt "BLOB"%string.
Definition m_varchar : str := Eval vm_compute in txt "VARCHAR"%string.

(* l[:z] for z >= 0 *)
Definition take {A : Type} (z : Z) (l : list A) : list A :=
  firstn (Z.to_nat (Z.min z (Z.of_nat (List.length l)))) l.
(* "if length: value = value[:length]" *)
Definition cut {A : Type} (len : pv) (l : list A) : option (list A) :=
  match len with
  | PA ANone => Some l
  | PA (AInt z) =>
      if Z.eqb z 0 then Some l
      else if Z.ltb z 0 then Some (firstn (Z.to_nat (Z.of_nat (List.length l) + z)) l)     (* l[:-k] *)
      else Some (take z l)
  | _ => None
  end.
(* str(v) for the value classes covered here *)
Definition str_of (v : pv) : option str :=
  match v with
  | PA (AText s) => Some s
  | PA (AInt z) => Some (render_int z)
  | PA (ABool b) => Some (if b then txt_True else txt_False)
  | _ => None
  end.
Definition text_cast (m : str) (q : params) (v : pv) : option (result pv) :=
  let '(len, _, _, _) := q in
  if str_eqb m m_blob then
    match v with
    | PA (ABytes b) => option_map (fun x => Ok (PA (ABytes x))) (cut len b)
    | _ => match str_of v with
           | Some s => if forallb Model.C08.scalar s
                       then option_map (fun x => Ok (PA (ABytes x))) (cut len (Model.C08.utf8_encode s))
                       else None
           | None => None
           end
    end
  else if str_eqb m m_varchar then
    match v with
    | PA (ABytes b) => match Model.C08.utf8_decode b with
                       | Some s => option_map (fun x => Ok (PA (AText x))) (cut len s)
                       | None => Some (Raise ValueError)            (* UnicodeDecodeError *)
                       end
    | _ => match str_of v with
           | Some s => option_map (fun x => Ok (PA (AText x))) (cut len s)
           | None => None
           end
    end
  else None.
(* the length is None or a non-negative int (what a type name VARCHAR[n] / BLOB[n] can say) *)
Definition len_ok (len : pv) : bool :=
  match len with PA ANone => true | PA (AInt z) => Z.leb 0 z | _ => false end.

(* ---------- JSON values ---------- *)
Inductive jval :=
| JNull | JBool (b : bool) | JInt (z : Z) | JFloat (bits : N) | JText (s : str)
| JArr (l : list jval)
| JObj (kv : list (str * jval))
| JExpn (hascol : bool) (id : N).      (* the JSON object of an expectation (content abstract) *)

(* orjson.loads on a value position *)
Definition atom_of_json (j : jval) : atom :=
  match j with
  | JNull => ANone
  | JBool b => ABool b
  | JInt z => AInt z
  | JFloat b => AFloat b
  | JText s => AText s
  | JExpn h i => AExp false h i
  | JArr _ => AObj 3 0 true          (* nested list: not modelled further *)
  | JObj _ => AObj 4 0 true          (* other objects: not modelled further *)
  end.
Definition pv_of_json (j : jval) : pv :=
  match j with
  | JArr l => PL (map atom_of_json l)
  | _ => PA (atom_of_json j)
  end.

(* ---------- dataclasses.asdict + RelationSchema.to_dict's _converter ---------- *)
Definition conv_item (a : atom) : atom :=
  match a with AExp _ h i => AExp false h i | _ => a end.       (* a nested dataclass becomes its dictionary *)
Definition conv (v : pv) : pv :=
  match v with
  | PA (ATy m) => PA (AText (type_value m))                      (* value.value if isinstance(value, Enum) *)
  | PA (ADisp m) => PA (AText (disp_value m))
  | PA a => PA (conv_item a)
  | PL l => PL (map conv_item l)
  end.
Definition to_dict_col (c : column) : kwargs := map (fun f => (f, conv (get f c))) all_fields.

Section Model.
(* OrsoTypes.<m>.parse(v): C07's function, not modelled here *)
Variable parse : str -> params -> pv -> result pv.
(* orjson.dumps(v, default=<to_json's hook>) for a leaf value JSON has no native form for *)
Variable ser_ext : atom -> result jval.

(* ---------- FlatColumn.__init__ ---------- *)
(* the 'expectations' keyword: dictionaries without a 'column' go through SchemaExpectation.load(..).update(..),
   and Expectation has no update method *)
Definition exp_item (a : atom) : result atom :=
  match a with
  | AExp true h i => Ok a
  | AExp false true i => Ok a
  | AExp false false i => Raise AttributeError
  | _ => Raise Unmodelled
  end.
Definition exp_in (v : pv) : result pv :=
  if truthy v then
    match v with
    | PL l => bind (mapM exp_item l) (fun l' => Ok (PL l'))
    | PA _ => Raise Unmodelled
    end
  else Ok v.

Definition field_value (cls fresh : str) (kw : kwargs) (f : field) : result pv :=
  match lookup f kw with
  | Some v => if field_eqb f FExpectations then exp_in v else Ok v
  | None => match default_value cls fresh f with
            | Some d => Ok d
            | None => Raise ColumnDefinitionError
            end
  end.

(* the loop over the declared fields, in declaration order *)
Definition collect (cls fresh : str) (kw : kwargs) : result (list (field * pv)) :=
  mapM (fun f => bind (field_value cls fresh kw f) (fun v => Ok (f, v))) all_fields.

Definition of_assoc (l : list (field * pv)) : column :=
  build (fun f => match lookup f l with Some v => v | None => PNone end).

(* disposition given by value -> member *)
Definition disp_of_value (s : str) : option str :=
  match find (fun '(_, v) => str_eqb v s) disposition_members with
  | Some (n, _) => Some n
  | None => None
  end.
Definition norm_disposition (c : column) : result column :=
  match c_disposition c with
  | PA ANone => Ok c
  | PA (ADisp _) => Ok c
  | PA (AText s) => match disp_of_value s with
                    | Some n => Ok (set FDisposition (PA (ADisp n)) c)
                    | None => Raise ValueError
                    end
  | _ => Raise ValueError                       (* ColumnDisposition(v): not a valid value *)
  end.

(* element type given by name -> member (or 0) *)
Definition norm_element (c : column) : result column :=
  match c_elt c with
  | PA ANone => Ok c
  | PA (ATy _) => Ok c
  | v => bind (from_name_pv v) (fun d => Ok (set FElementType (pv_of_tyref (Model.C06.d_ty d)) c))
  end.

Definition fill (f : field) (v : pv) (c : column) : column := if is_none (get f c) then set f v c else c.

(* type given by name (or None) -> member (or 0); a member brings its parameters *)
Definition norm_type (c : column) : result column :=
  match c_type c with
  | PA (ATy _) => Ok c
  | v => bind (from_name_pv v) (fun d =>
           let c1 := set FType (pv_of_tyref (Model.C06.d_ty d)) c in
           match Model.C06.d_ty d with
           | Model.C06.TMember _ =>
               Ok (fill FLength (pv_of_optN (Model.C06.d_len d))
                  (fill FScale (pv_of_optN (Model.C06.d_scale d))
                  (fill FPrecision (pv_of_optN (Model.C06.d_prec d))
                  (fill FElementType (pv_of_optT (Model.C06.d_elt d)) c1))))
           | _ => Ok c1
           end)
  end.

(* every non-null default of a typed column is cast by the column's type, with the column's own length,
   precision, scale and element type; every failure becomes ValueError; an untyped column (0 or the
   placeholder member) keeps its default untouched *)
Definition col_params (c : column) : params := (c_length c, c_precision c, c_scale c, c_elt c).
Definition norm_default (c : column) : result column :=
  if is_none (c_default c) then Ok c else
  match c_type c with
  | PA (AInt 0) => Ok c
  | PA (ATy m) =>
      if str_eqb m missing_member then Ok c else
      match parse m (col_params c) (c_default c) with
      | Ok v => Ok (set FDefault v c)
      | Raise Unmodelled => Raise Unmodelled
      | Raise _ => Raise ValueError
      end
  | _ => Raise ValueError                     (* anything else has no parse *)
  end.

(* DECIMAL: context precision, scale int(0.75 * precision) *)
Definition norm_decimal (c : column) : result column :=
  match c_type c with
  | PA (ATy m) =>
      if str_eqb m ty_decimal then
        let c1 := fill FPrecision (PA (AInt decimal_default_precision)) c in
        if is_none (c_scale c1) then
          match c_precision c1 with
          | PA (AInt p) => Ok (set FScale (PA (AInt (Z.quot (3 * p) 4))) c1)
          | _ => Raise Unmodelled
          end
        else Ok c1
      else Ok c
  | _ => Ok c
  end.

Definition init (cls fresh : str) (kw : kwargs) : result column :=
  bind (collect cls fresh kw) (fun l =>
  bind (norm_disposition (of_assoc l)) (fun c1 =>
  bind (norm_element c1) (fun c2 =>
  bind (norm_type c2) (fun c3 =>
  bind (norm_decimal c3) (fun c4 =>
  norm_default c4))))).

(* ---------- to_flatcolumn ---------- *)
Definition flat_kept : list field :=
  [FName; FDefault; FDescription; FAliases; FIdentity; FType; FElementType; FNullable; FScale; FPrecision;
   FLowest; FHighest; FNullCount].

Definition to_flatcolumn (fresh : str) (c : column) : result column :=
  match text_of (c_name c) with
  | None => Raise Unmodelled
  | Some s =>
      init class_flat fresh
           ((FName, PA (AText s)) :: map (fun f => (f, get f c)) (tl flat_kept))
  end.

(* ---------- schemas ---------- *)
Record schema := mkschema {
  s_name : pv; s_aliases : pv; s_columns : list column; s_pk : pv;
  s_rcm : pv; s_rce : pv; s_dsm : pv; s_dse : pv
}.

Inductive dcol :=
| DCol (kw : kwargs)      (* a column dictionary *)
| DName (s : str)         (* a column given by its name only *)
| DJunk.                  (* anything else: skipped *)

Record sdict := mksdict {
  d_name : option pv; d_aliases : option pv; d_columns : list dcol; d_pk : option pv;
  d_rest : list pv     (* row_count_metric, row_count_estimate, data_size_metric, data_size_estimate *)
}.

Definition to_dict (s : schema) : sdict :=
  mksdict (Some (conv (s_name s))) (Some (conv (s_aliases s)))
          (map (fun c => DCol (to_dict_col c)) (s_columns s))
          (Some (conv (s_pk s)))
          [conv (s_rcm s); conv (s_rce s); conv (s_dsm s); conv (s_dse s)].

(* [fresh i]: the identity random_string() would give the i-th column if it has none *)
Fixpoint restore_cols (fresh : nat -> str) (i : nat) (l : list dcol) : result (list column) :=
  match l with
  | [] => Ok []
  | DCol kw :: r => bind (init class_flat (fresh i) kw) (fun c =>
                    bind (restore_cols fresh (S i) r) (fun cs => Ok (c :: cs)))
  | DName s :: r => bind (init class_flat (fresh i) [(FName, PA (AText s))]) (fun c =>
                    bind (restore_cols fresh (S i) r) (fun cs => Ok (c :: cs)))
  | DJunk :: r => restore_cols fresh (S i) r
  end.

Definition from_dict (fresh : nat -> str) (d : sdict) : result schema :=
  match d_name d with
  | None => Raise KeyError
  | Some n =>
      bind (restore_cols fresh 0 (d_columns d)) (fun cs =>
      Ok (mkschema n (match d_aliases d with Some a => a | None => PL [] end) cs
                   (match d_pk d with Some k => k | None => PNone end)
                   (nth 0 (d_rest d) PNone) (nth 1 (d_rest d) PNone) (nth 2 (d_rest d) PNone) (nth 3 (d_rest d) PNone)))
  end.

(* ---------- to_json / from_json ---------- *)
Definition int64_ok (z : Z) : bool := Z.leb (-9223372036854775808) z && Z.ltb z 18446744073709551616.

Definition json_of_atom (a : atom) : result jval :=
  match a with
  | ANone => Ok JNull
  | ABool b => Ok (JBool b)
  | AInt z => if int64_ok z then Ok (JInt z) else Raise TypeError
  | AFloat b => Ok (if finite_bits b then JFloat b else JNull)
  | AText s => Ok (JText s)
  | ATy m => Ok (JText (type_value m))
  | ADisp m => Ok (JText (disp_value m))
  | AExp _ h i => Ok (JExpn h i)
  | _ => ser_ext a
  end.
Definition json_of_pv (v : pv) : result jval :=
  match v with
  | PA a => json_of_atom a
  | PL l => bind (mapM json_of_atom l) (fun js => Ok (JArr js))
  end.

(* orjson.dumps(asdict(self), default=...) *)
Definition to_json (c : column) : result jval :=
  bind (mapM (fun f => bind (json_of_pv (get f c)) (fun j => Ok (field_name f, j))) all_fields)
       (fun kv => Ok (JObj kv)).

Definition kwargs_of_json (j : jval) : option kwargs :=
  match j with
  | JObj kv => Some (flat_map (fun '(k, v) => match field_of_name k with
                                              | Some f => [(f, pv_of_json v)]
                                              | None => []
                                              end) kv)
  | _ => None
  end.

(* cls(double-star orjson.loads(text)) *)
Definition from_json (fresh : str) (j : jval) : result column :=
  match kwargs_of_json j with
  | Some kw => init class_flat fresh kw
  | None => Raise TypeError
  end.

(* ---------- DataFrame.description for one column: (name, type code, precision, scale, null_ok) ---------- *)
Definition ch (c : N) : str := [c].
Definition fmt (v : pv) : result str := match text_of v with Some s => Ok s | None => Raise Unmodelled end.

Definition describe (c : column) : result (pv * str * pv * pv * pv) :=
  let t := if truthy (c_type c) then c_type c else PA (ATy missing_member) in
  match t with
  | PA (ATy m) =>
      let v := type_value m in
      if str_eqb v ty_decimal then
        bind (fmt (c_precision c)) (fun p => bind (fmt (c_scale c)) (fun s =>
        Ok (c_name c, v ++ ch 40 ++ p ++ ch 44 ++ s ++ ch 41, c_precision c, c_scale c, c_nullable c)))
      else if str_eqb v ty_array && negb (is_none (c_elt c)) then
        match c_elt c with
        | PA (ATy e) => Ok (c_name c, v ++ ch 60 ++ type_value e ++ ch 62, PNone, PNone, c_nullable c)
        | _ => Raise AttributeError
        end
      else Ok (c_name c, v, PNone, PNone, c_nullable c)
  | _ => Raise AttributeError
  end.

End Model.

(* ---------- the view RelationSchema.validate has of a column (Model/C05.v) ---------- *)
Fixpoint index_of (m : str) (l : list str) (i : N) : option N :=
  match l with
  | [] => None
  | x :: r => if str_eqb m x then Some i else index_of m r (N.succ i)
  end.
(* None: untyped (_MISSING_TYPE or 0), which validate skips; Some i: position in OrsoTypes.__members__ *)
Definition proj_type (t : pv) : option N :=
  match t with
  | PA (ATy m) => if str_eqb m missing_member then None else index_of m type_names 0
  | _ => None
  end.
Definition proj_col (key_of : pv -> N) (c : column) : Model.C05.column :=
  Model.C05.mkcol (key_of (c_name c)) (proj_type (c_type c)) (truthy (c_nullable c)).
Definition proj_schema (key_of : pv -> N) (s : schema) : Model.C05.schema := map (proj_col key_of) (s_columns s).

(* ==================== comparison functions used by the correspondence files ==================== *)
Fixpoint list_eqb {A : Type} (eqb : A -> A -> bool) (a b : list A) : bool :=
  match a, b with
  | [], [] => true
  | x :: r, y :: s => eqb x y && list_eqb eqb r s
  | _, _ => false
  end.

Definition atom_eqb (a b : atom) : bool :=
  match a, b with
  | ANone, ANone => true
  | ABool x, ABool y => Bool.eqb x y
  | AInt x, AInt y => Z.eqb x y
  | AFloat x, AFloat y => N.eqb x y
  | AText x, AText y => str_eqb x y
  | ABytes x, ABytes y => str_eqb x y
  | ADec u e, ADec u' e' => Z.eqb u u' && Z.eqb e e'
  | ADate y m d, ADate y' m' d' => Z.eqb y y' && Z.eqb m m' && Z.eqb d d'
  | AStamp y mo d h mi s us tz, AStamp y' mo' d' h' mi' s' us' tz' =>
      Z.eqb y y' && Z.eqb mo mo' && Z.eqb d d' && Z.eqb h h' && Z.eqb mi mi' && Z.eqb s s' && Z.eqb us us' && Bool.eqb tz tz'
  | ADelta d s us, ADelta d' s' us' => Z.eqb d d' && Z.eqb s s' && Z.eqb us us'
  | AObj c i t, AObj c' i' t' => N.eqb c c' && N.eqb i i' && Bool.eqb t t'
  | ATy x, ATy y => str_eqb x y
  | ADisp x, ADisp y => str_eqb x y
  | AExp o h i, AExp o' h' i' => Bool.eqb o o' && Bool.eqb h h' && N.eqb i i'
  | _, _ => false
  end.
Definition pv_eqb (a b : pv) : bool :=
  match a, b with
  | PA x, PA y => atom_eqb x y
  | PL x, PL y => list_eqb atom_eqb x y
  | _, _ => false
  end.
Definition column_eqb (a b : column) : bool := forallb (fun f => pv_eqb (get f a) (get f b)) all_fields.
Definition exn_eqb (a b : exn) : bool :=
  match a, b with
  | ValueError, ValueError | TypeError, TypeError | KeyError, KeyError | AttributeError, AttributeError
  | ColumnDefinitionError, ColumnDefinitionError | OtherExn, OtherExn => true
  | _, _ => false                      (* Unmodelled equals nothing *)
  end.
Definition result_eqb {A : Type} (eqb : A -> A -> bool) (a b : result A) : bool :=
  match a, b with
  | Ok x, Ok y => eqb x y
  | Raise x, Raise y => exn_eqb x y
  | _, _ => false
  end.
Definition schema_eqb (a b : schema) : bool :=
  pv_eqb (s_name a) (s_name b) && pv_eqb (s_aliases a) (s_aliases b) && list_eqb column_eqb (s_columns a) (s_columns b)
  && pv_eqb (s_pk a) (s_pk b) && pv_eqb (s_rcm a) (s_rcm b) && pv_eqb (s_rce a) (s_rce b)
  && pv_eqb (s_dsm a) (s_dsm b) && pv_eqb (s_dse a) (s_dse b).
Definition kw_eqb (a b : kwargs) : bool :=
  list_eqb (fun x y => field_eqb (fst x) (fst y) && pv_eqb (snd x) (snd y)) a b.
Definition optpv_eqb (a b : option pv) : bool :=
  match a, b with Some x, Some y => pv_eqb x y | None, None => true | _, _ => false end.
Definition dcol_eqb (a b : dcol) : bool :=
  match a, b with
  | DCol x, DCol y => kw_eqb x y
  | DName x, DName y => str_eqb x y
  | DJunk, DJunk => true
  | _, _ => false
  end.
Definition sdict_eqb (a b : sdict) : bool :=
  optpv_eqb (d_name a) (d_name b) && optpv_eqb (d_aliases a) (d_aliases b) && list_eqb dcol_eqb (d_columns a) (d_columns b)
  && optpv_eqb (d_pk a) (d_pk b) && list_eqb pv_eqb (d_rest a) (d_rest b).

Fixpoint jval_eqb (a b : jval) : bool :=
  match a, b with
  | JNull, JNull => true
  | JBool x, JBool y => Bool.eqb x y
  | JInt x, JInt y => Z.eqb x y
  | JFloat x, JFloat y => N.eqb x y
  | JText x, JText y => str_eqb x y
  | JExpn h i, JExpn h' i' => Bool.eqb h h' && N.eqb i i'
  | JArr x, JArr y =>
      (fix go (x y : list jval) : bool :=
         match x, y with
         | [], [] => true
         | p :: x', q :: y' => jval_eqb p q && go x' y'
         | _, _ => false
         end) x y
  | JObj x, JObj y =>
      (fix go (x y : list (str * jval)) : bool :=
         match x, y with
         | [], [] => true
         | (k, p) :: x', (k', q) :: y' => str_eqb k k' && jval_eqb p q && go x' y'
         | _, _ => false
         end) x y
  | _, _ => false
  end.

Definition desc_eqb (a b : pv * str * pv * pv * pv) : bool :=
  let '(n, t, p, s, k) := a in let '(n', t', p', s', k') := b in
  pv_eqb n n' && str_eqb t t' && pv_eqb p p' && pv_eqb s s' && pv_eqb k k'.

(* the observed library functions, as finite tables *)
Definition params_eqb (a b : params) : bool :=
  let '(a1, a2, a3, a4) := a in let '(b1, b2, b3, b4) := b in
  pv_eqb a1 b1 && pv_eqb a2 b2 && pv_eqb a3 b3 && pv_eqb a4 b4.
Definition parse_table := list (str * params * pv * result pv).
Definition parse_of (t : parse_table) (m : str) (q : params) (v : pv) : result pv :=
  match find (fun '(m', q', v', _) => str_eqb m m' && params_eqb q q' && pv_eqb v v') t with
  | Some (_, _, _, r) => r
  | None => Raise Unmodelled
  end.
(* every observed result of BLOB / VARCHAR parse is the one the concrete sub-model [text_cast] computes *)
Definition parse_conforms (t : parse_table) : bool :=
  forallb (fun '(m, q, v, r) => match text_cast m q v with
                                | Some r' => result_eqb pv_eqb r r'
                                | None => true
                                end) t.
(* the premise [default_ok] of the round-trip theorems, decided on a built column: the stored default of a typed
   column is None or is left alone by its type's parse under the column's own parameters *)
Definition default_fixed (P : str -> params -> pv -> result pv) (c : column) : bool :=
  if is_none (c_default c) then true else
  match c_type c with
  | PA (ATy m) => if str_eqb m missing_member then true
                  else result_eqb pv_eqb (P m (col_params c) (c_default c)) (Ok (c_default c))
  | _ => true
  end.
Definition ser_table := list (atom * result jval).
Definition ser_of (t : ser_table) (a : atom) : result jval :=
  match find (fun '(a', _) => atom_eqb a a') t with
  | Some (_, r) => r
  | None => Raise Unmodelled
  end.

(* observed columns are written relative to the observed built column (keeps the generated files small):
   [RSame p] = the built column with the attributes in p replaced; the comparison is on the full column *)
Inductive robs := RSame (patch : kwargs) | RFull (r : result column).
Definition patch_col (p : kwargs) (c : column) : column := fold_left (fun c x => set (fst x) (snd x) c) p c.
Definition resolve (b : result column) (o : robs) : result column :=
  match o with
  | RFull r => r
  | RSame p => match b with Ok c => Ok (patch_col p c) | Raise e => Raise e end
  end.
Definition patch_kw (p : kwargs) (k : kwargs) : kwargs :=
  map (fun x => match lookup (fst x) p with Some v => (fst x, v) | None => x end) k.

(* what the harness observed for one column *)
Record colobs := mkobs {
  o_fresh : str;                      (* the identity the constructor drew (used only when none was given) *)
  o_ser : ser_table;                  (* orjson's output for this column's non-native leaf values (per column: the
                                         harness identifies Decimals by value, their JSON text depends on the exponent) *)
  o_built : result column;            (* FlatColumn(double-star kwargs) *)
  o_json : result jval;               (* orjson.loads(c.to_json()) *)
  o_back : robs;                      (* FlatColumn.from_json(c.to_json()) *)
  o_flat : robs;                      (* c.to_flatcolumn() *)
  o_desc : result (pv * str * pv * pv * pv);    (* DataFrame.description entry under the original schema *)
  o_desc2 : result (pv * str * pv * pv * pv)    (* ... under the restored schema *)
}.

(* observed to_dict: the schema's own entries, and per column the entries that differ from the built attributes *)
Definition odict : Type := (option pv * option pv * list kwargs * option pv * list pv)%type.
(* observed from_dict(to_dict): the schema's own attributes and the columns relative to the built ones *)
Definition oschema : Type := (pv * pv * list robs * pv * (pv * pv * pv * pv))%type.

(* a schema case: parse table, the schema's own attributes (name, aliases, primary key, four statistics), the columns'
   keyword arguments with what was observed for each, the observed to_dict and the observed from_dict(to_dict) *)
Definition c16_schema_case : Type :=
  (parse_table * (pv * pv * pv * pv * pv * pv * pv) * list (kwargs * colobs) * result odict * result oschema)%type.

Definition built_ok (x : kwargs * colobs) : option column :=
  match o_built (snd x) with Ok c => Some c | Raise _ => None end.

Definition col_check (P : str -> params -> pv -> result pv) (x : kwargs * colobs) : bool :=
  let '(kw, o) := x in
  let S := ser_of (o_ser o) in
  let b := init P class_flat (o_fresh o) kw in
  result_eqb column_eqb b (o_built o) &&
  match b with
  | Raise _ => true
  | Ok c =>
      default_fixed P c &&
      result_eqb jval_eqb (to_json S c) (o_json o) &&
      result_eqb column_eqb (bind (to_json S c) (from_json P (o_fresh o))) (resolve (o_built o) (o_back o)) &&
      result_eqb column_eqb (to_flatcolumn P (o_fresh o) c) (resolve (o_built o) (o_flat o)) &&
      result_eqb desc_eqb (describe c) (o_desc o)
  end.

Fixpoint all_some {A : Type} (l : list (option A)) : option (list A) :=
  match l with
  | [] => Some []
  | Some x :: r => match all_some r with Some xs => Some (x :: xs) | None => None end
  | None :: _ => None
  end.

Fixpoint descs_match (cs : list column) (os : list (kwargs * colobs)) : bool :=
  match cs, os with
  | [], [] => true
  | c :: cs', (_, o) :: os' => result_eqb desc_eqb (describe c) (o_desc2 o) && descs_match cs' os'
  | _, _ => false
  end.

Fixpoint zip_with {A B C : Type} (f : A -> B -> C) (a : list A) (b : list B) : list C :=
  match a, b with
  | x :: a', y :: b' => f x y :: zip_with f a' b'
  | _, _ => []
  end.

Definition resolve_dict (cs : list column) (o : odict) : sdict :=
  let '(n, al, cols, pk, rest) := o in
  mksdict n al
    (if Nat.eqb (List.length cols) (List.length cs)
     then zip_with (fun c p => DCol (patch_kw p (map (fun f => (f, get f c)) all_fields))) cs cols
     else [DJunk])
    pk rest.
Definition resolve_schema (cs : list column) (o : oschema) : result schema :=
  let '(n, al, cols, pk, st) := o in
  let '(a, b, c, d) := st in
  if Nat.eqb (List.length cols) (List.length cs)
  then bind (mapM (fun x => x) (zip_with (fun c r => resolve (Ok c) r) cs cols))
            (fun cs' => Ok (mkschema n al cs' pk a b c d))
  else Raise Unmodelled.

Definition c16_schema_check (k : c16_schema_case) : bool :=
  let '(pt, top, cols, od, orest) := k in
  let '(n, al, pk, rcm, rce, dsm, dse) := top in
  let P := parse_of pt in
  parse_conforms pt &&
  forallb (col_check P) cols &&
  match all_some (map built_ok cols) with
  | None => true                        (* some column could not be built: no schema to persist *)
  | Some cs =>
      let s := mkschema n al cs pk rcm rce dsm dse in
      result_eqb sdict_eqb (Ok (to_dict s)) (bind od (fun o => Ok (resolve_dict cs o))) &&
      let r := from_dict P (fun _ => []) (to_dict s) in
      result_eqb schema_eqb r (bind orest (resolve_schema cs)) &&
      match r with Ok s' => descs_match (s_columns s') cols | Raise _ => true end
  end.

Definition c16_schema_show (k : c16_schema_case) :=
  let '(pt, top, cols, od, orest) := k in
  let '(n, al, pk, rcm, rce, dsm, dse) := top in
  let P := parse_of pt in
  (map (fun '(m, q, v, _) => text_cast m q v) pt,
   map (fun x => let b := init P class_flat (o_fresh (snd x)) (fst x) in
                 let S := ser_of (o_ser (snd x)) in
                 (b, bind b (to_json S), bind (bind b (to_json S)) (from_json P (o_fresh (snd x))),
                  bind b (to_flatcolumn P (o_fresh (snd x))), bind b describe)) cols,
   match all_some (map built_ok cols) with
   | None => None
   | Some cs => let s := mkschema n al cs pk rcm rce dsm dse in Some (to_dict s, from_dict P (fun _ => []) (to_dict s))
   end).

(* a flatten case: class name, keyword arguments (base fields), fresh identity, observed built column (its
   base attributes) and observed to_flatcolumn() *)
Definition c16_flat_case : Type := (parse_table * str * kwargs * str * result column * robs)%type.

Definition c16_flat_check (k : c16_flat_case) : bool :=
  let '(pt, cls, kw, fresh, ob, of) := k in
  let P := parse_of pt in
  let b := init P cls fresh kw in
  parse_conforms pt &&
  result_eqb column_eqb b ob &&
  match b with
  | Raise _ => true
  | Ok c => default_fixed P c && result_eqb column_eqb (to_flatcolumn P fresh c) (resolve ob of)
  end.

Definition c16_flat_show (k : c16_flat_case) :=
  let '(pt, cls, kw, fresh, ob, of) := k in
  let P := parse_of pt in
  (map (fun '(m, q, v, _) => text_cast m q v) pt, init P cls fresh kw, bind (init P cls fresh kw) (to_flatcolumn P fresh)).

(* ==================== sessions: the same objects used again after being changed (round 3) ====================
   Python objects are mutable: a column built for one purpose is later given another length, an alias is appended
   to the very list the schema holds, a column object is listed twice, the columns list itself grows.  to_dict /
   from_dict / to_json / from_json / to_flatcolumn are methods of those objects, called again and again.  The model
   makes this explicit: a HEAP of column objects (position i = the object built from the i-th definition), the
   schema's columns list as a list of REFERENCES into the heap (the same object may be referenced several times),
   the schema's own attributes, and a small-step semantics of the operations a caller can perform.  Observing
   operations ([SRound], [SJson], [SScribble], [FFlatten]) do not change the state and their results are functions
   of the CURRENT values only ([view]) - whatever happened before, including earlier observations.  The
   correspondence runs such sessions on the real objects. *)
Definition dummy_column : column := build (fun _ => PNone).

Fixpoint upd {A : Type} (i : nat) (f : A -> A) (l : list A) : list A :=
  match l, i with
  | [], _ => []
  | x :: r, O => f x :: r
  | x :: r, S j => x :: upd j f r
  end.

(* obj.attr.append(a): only lists can be appended to *)
Definition append_pv (v : pv) (a : atom) : option pv :=
  match v with PL l => Some (PL (l ++ [a])) | PA _ => None end.

Inductive topf := TName | TAliases | TPk | TRcm | TRce | TDsm | TDse.
Definition top_get (t : topf) (s : schema) : pv :=
  match t with
  | TName => s_name s | TAliases => s_aliases s | TPk => s_pk s
  | TRcm => s_rcm s | TRce => s_rce s | TDsm => s_dsm s | TDse => s_dse s
  end.
Definition top_set (t : topf) (v : pv) (s : schema) : schema :=
  mkschema (match t with TName => v | _ => s_name s end) (match t with TAliases => v | _ => s_aliases s end)
           (s_columns s) (match t with TPk => v | _ => s_pk s end)
           (match t with TRcm => v | _ => s_rcm s end) (match t with TRce => v | _ => s_rce s end)
           (match t with TDsm => v | _ => s_dsm s end) (match t with TDse => v | _ => s_dse s end).

(* heap of column objects, the schema's columns list (references), the schema's own attributes (its s_columns unused) *)
Definition sstate : Type := (list column * list nat * schema)%type.
Definition view (st : sstate) : schema :=
  let '(h, refs, top) := st in
  mkschema (s_name top) (s_aliases top) (map (fun i => nth i h dummy_column) refs) (s_pk top)
           (s_rcm top) (s_rce top) (s_dsm top) (s_dse top).

(* Round 7: looking columns up by name.  FlatColumn.all_names is aliases + [name] (TypeError when aliases is neither a
   list nor None); RelationSchema.find_column(name) - which RelationSchema.column(name) and DataFrame.description go
   through - returns the FIRST column of the columns list, as it is now, one of whose names is the text asked for.
   The answer is a position in the columns list (None: no column answers). *)
Definition atom_is_text (name : str) (a : atom) : bool := match a with AText t => str_eqb t name | _ => false end.
Definition answers_to (name : str) (c : column) : result bool :=
  match c_aliases c with
  | PL l => Ok (existsb (atom_is_text name) l || match c_name c with PA a => atom_is_text name a | PL _ => false end)
  | PA ANone => Ok (match c_name c with PA a => atom_is_text name a | PL _ => false end)
  | PA _ => Raise TypeError
  end.
Fixpoint find_pos (name : str) (cs : list column) (i : nat) : result (option nat) :=
  match cs with
  | [] => Ok None
  | c :: r => match answers_to name c with
              | Ok true => Ok (Some i)
              | Ok false => find_pos name r (S i)
              | Raise e => Raise e
              end
  end.
Definition find_col (s : schema) (name : str) : result (option nat) := find_pos name (s_columns s) 0.
Definition optnat_eqb (a b : option nat) : bool :=
  match a, b with Some x, Some y => Nat.eqb x y | None, None => true | _, _ => false end.

Inductive sop :=
| SListSet (i : nat) (o : nat)                  (* schema.columns[i] = obj_o: a column redefined in place (round 7) *)
| SFind (name : str) (live rest : result (option nat))
                                                (* schema.find_column(name) / schema.column(name), and the same on a schema
                                                   restored just now: observed, as positions in the columns lists (round 7) *)
| SColSet (o : nat) (f : field) (v : pv)        (* obj_o.f = v *)
| SColAppend (o : nat) (f : field) (a : atom)   (* obj_o.f.append(a) *)
| STopSet (t : topf) (v : pv)                   (* schema.t = v *)
| STopAppend (a : atom)                         (* schema.aliases.append(a) *)
| SListAppend (o : nat)                         (* schema.columns.append(obj_o) *)
| SListPop                                      (* schema.columns.pop() *)
| SScribble                                     (* the caller edits objects it owns: the lists inside the dictionary returned last,
                                                   the attributes and lists of a schema restored earlier *)
| SSave                                         (* saved = schema.to_dict(): the caller keeps the dictionary *)
| SRestoreSaved (orest : result oschema)        (* RelationSchema.from_dict(saved), later: observed *)
| SRound (od : result odict) (orest : result oschema)     (* schema.to_dict(), RelationSchema.from_dict(schema.to_dict()): observed *)
| SJson (o : nat) (oj : result jval) (back : robs).       (* obj_o.to_json(), FlatColumn.from_json(obj_o.to_json()): observed *)

(* the state after one operation; None: the operation is outside the model (append to something that is not a list) *)
Definition step (st : sstate) (op : sop) : option sstate :=
  let '(h, refs, top) := st in
  match op with
  | SColSet o f v => Some (upd o (set f v) h, refs, top)
  | SColAppend o f a =>
      match append_pv (get f (nth o h dummy_column)) a with
      | Some v => Some (upd o (set f v) h, refs, top)
      | None => None
      end
  | STopSet t v => Some (h, refs, top_set t v top)
  | STopAppend a =>
      match append_pv (s_aliases top) a with
      | Some v => Some (h, refs, top_set TAliases v top)
      | None => None
      end
  | SListAppend o => Some (h, refs ++ [o], top)
  | SListPop => Some (h, removelast refs, top)
  | SListSet i o => if Nat.ltb i (List.length refs) then Some (h, upd i (fun _ => o) refs, top) else None
  | SScribble | SRound _ _ | SJson _ _ _ | SSave | SRestoreSaved _ | SFind _ _ _ => Some st
  end.
Fixpoint exec (st : sstate) (ops : list sop) : option sstate :=
  match ops with
  | [] => Some st
  | op :: r => match step st op with Some st' => exec st' r | None => None end
  end.

(* what an observing operation must return in state st *)
Definition obs_ok (P : str -> params -> pv -> result pv) (sers : list ser_table) (built : list column)
                  (st : sstate) (op : sop) : bool :=
  match op with
  | SRound od orest =>
      let s := view st in
      let bases := map (fun i => nth i built dummy_column) (snd (fst st)) in
      result_eqb sdict_eqb (Ok (to_dict s)) (bind od (fun o => Ok (resolve_dict bases o))) &&
      result_eqb schema_eqb (from_dict P (fun _ => []) (to_dict s)) (bind orest (resolve_schema bases))
  | SJson o oj back =>
      let c := nth o (fst (fst st)) dummy_column in
      let S := ser_of (nth o sers []) in
      result_eqb jval_eqb (to_json S c) oj &&
      result_eqb column_eqb (bind (to_json S c) (from_json P [])) (resolve (Ok (nth o built dummy_column)) back)
  | SFind name live rest =>
      let s := view st in
      result_eqb optnat_eqb (find_col s name) live &&
      result_eqb optnat_eqb (bind (from_dict P (fun _ => []) (to_dict s)) (fun r => find_col r name)) rest
  | _ => true
  end.
(* [saved]: the dictionary the caller kept at the last SSave (a VALUE: what the schema was then), with the objects
   its columns were listed from; restoring it later must give the schema as saved, whatever was done since *)
Fixpoint ssess_run (P : str -> params -> pv -> result pv) (sers : list ser_table) (built : list column)
                   (saved : option (sdict * list column)) (st : sstate) (ops : list sop) : bool :=
  match ops with
  | [] => true
  | op :: r => obs_ok P sers built st op &&
               (match op, saved with
                | SRestoreSaved orest, Some (d, bases) =>
                    result_eqb schema_eqb (from_dict P (fun _ => []) d) (bind orest (resolve_schema bases))
                | SRestoreSaved _, None => false
                | _, _ => true
                end) &&
               let saved' := match op with
                             | SSave => Some (to_dict (view st), map (fun i => nth i built dummy_column) (snd (fst st)))
                             | _ => saved
                             end in
               match step st op with Some st' => ssess_run P sers built saved' st' r | None => false end
  end.

(* a schema session: the single-shot case (whose observations were made first, on the same objects), the columns list
   as references (a column given as "the same object as column i" refers to i), the operations *)
Definition c16_ssess_case : Type := (c16_schema_case * list nat * list sop)%type.
Definition c16_ssess_check (k : c16_ssess_case) : bool :=
  let '(base, refs, ops) := k in
  c16_schema_check base &&
  let '(pt, top, cols, _, _) := base in
  let '(n, al, pk, rcm, rce, dsm, dse) := top in
  match all_some (map built_ok cols) with
  | None => true
  | Some cs => ssess_run (parse_of pt) (map (fun x => o_ser (snd x)) cols) cs None
                         (cs, refs, mkschema n al [] pk rcm rce dsm dse) ops
  end.
Definition c16_ssess_show (k : c16_ssess_case) :=
  let '(base, refs, ops) := k in
  let '(pt, top, cols, _, _) := base in
  let '(n, al, pk, rcm, rce, dsm, dse) := top in
  (c16_schema_show base,
   match all_some (map built_ok cols) with
   | None => None
   | Some cs =>
       Some ((fix go (st : sstate) (ops : list sop) :=
          match ops with
          | [] => []
          | op :: r =>
              (match op with
               | SRound _ _ => Some (to_dict (view st), from_dict (parse_of pt) (fun _ => []) (to_dict (view st)))
               | _ => None
               end) :: match step st op with Some st' => go st' r | None => [] end
          end) (cs, refs, mkschema n al [] pk rcm rce dsm dse) ops)
   end).

(* ---------- a session on one column object of any class: assignments, in-place appends, to_flatcolumn ---------- *)
Inductive fop :=
| FSet (f : field) (v : pv)
| FAppend (f : field) (a : atom)
| FFlatten (cur : robs) (out : robs).    (* observed: the object after the call (it must not have changed), the result *)
Definition fstep (c : column) (op : fop) : option column :=
  match op with
  | FSet f v => Some (set f v c)
  | FAppend f a => match append_pv (get f c) a with Some v => Some (set f v c) | None => None end
  | FFlatten _ _ => Some c
  end.
Fixpoint fexec (c : column) (ops : list fop) : option column :=
  match ops with
  | [] => Some c
  | op :: r => match fstep c op with Some c' => fexec c' r | None => None end
  end.
Fixpoint fsess_run (P : str -> params -> pv -> result pv) (fresh : str) (ob : result column) (c : column) (ops : list fop) : bool :=
  match ops with
  | [] => true
  | op :: r =>
      (match op with
       | FFlatten cur out => result_eqb column_eqb (Ok c) (resolve ob cur) &&
                             result_eqb column_eqb (to_flatcolumn P fresh c) (resolve ob out)
       | _ => true
       end) &&
      match fstep c op with Some c' => fsess_run P fresh ob c' r | None => false end
  end.
Definition c16_fsess_case : Type := (c16_flat_case * list fop)%type.
Definition c16_fsess_check (k : c16_fsess_case) : bool :=
  let '(base, ops) := k in
  c16_flat_check base &&
  let '(pt, cls, kw, fresh, ob, _) := base in
  match init (parse_of pt) cls fresh kw with
  | Ok c => fsess_run (parse_of pt) fresh ob c ops
  | Raise _ => true
  end.
Definition c16_fsess_show (k : c16_fsess_case) :=
  let '(base, ops) := k in
  let '(pt, cls, kw, fresh, ob, _) := base in
  (c16_flat_show base,
   match init (parse_of pt) cls fresh kw with
   | Ok c =>
       (fix go (c : column) (ops : list fop) :=
          match ops with
          | [] => []
          | op :: r => (match op with FFlatten _ _ => Some (c, to_flatcolumn (parse_of pt) fresh c) | _ => None end)
                       :: match fstep c op with Some c' => go c' r | None => [] end
          end) c ops
   | Raise _ => []
   end).
