(* C18 - executable model of DataFrame rendering (orso/display.py: colorizer 70-80,
   ascii_table 136-412 with numpy_type_mapper 205-224, type_formatter 226-298,
   character_width 300-303, trunc_printable 305-329, _inner 331-408, the final cut and
   join 410-412; markdown 415-446; orso/dataframe.py display 298-313, markdown 315-318,
   __str__ 451-476; orso/compute/compiled.pyx calculate_data_width 157-168).
   No proofs here.  Text is [list N] (code points), bytes are [list N] (< 256).

   Data (COLORS in dictionary order, the east-asian-width classes that count double,
   the text of the untyped column type, the limits str() passes) comes from
   Gen/C18_Tables.v, regenerated from the live modules on every run.

   Library behaviour that is NOT modelled but supplied with each case (oracle texts):
   str() of a cell value, strftime of dates, ndarray.tolist(), str of list items /
   dictionary keys and values.  Everything the anchored code does with those texts
   (dispatch, padding, cutting, width accounting, tokens, labels, selection) is here. *)
From Coq Require Import Ascii String.
From Coq Require Import List NArith ZArith Bool Arith.
From Orso Require Import Gen.C18_Tables.
Import ListNotations.
Local Open Scope list_scope.

Definition text := list N.
Definition T (s : String.string) : text := map Ascii.N_of_ascii (String.list_ascii_of_string s).

Inductive exn := ValueError | TypeError | UnicodeDecodeError.
Inductive result (A : Type) := Ok (a : A) | Raise (e : exn).
Arguments Ok {A}. Arguments Raise {A}.

Definition bind {A B} (r : result A) (f : A -> result B) : result B :=
  match r with Ok a => f a | Raise e => Raise e end.

Fixpoint mapM {A B} (f : A -> result B) (l : list A) : result (list B) :=
  match l with
  | [] => Ok []
  | x :: r => bind (f x) (fun y => bind (mapM f r) (fun ys => Ok (y :: ys)))
  end.

(* ------------------------------------------------------------------ *)
(* str methods                                                         *)
Definition spaces (k : nat) : text := repeat 32%N k.
Definition ljust (w : nat) (s : text) : text := s ++ spaces (w - length s).
Definition rjust (w : nat) (s : text) : text := spaces (w - length s) ++ s.
(* CPython pad(): left = marg/2 + (marg & width & 1) *)
Definition center (w : nat) (s : text) : text :=
  let marg := w - length s in
  let left := marg / 2 + (if Nat.odd marg && Nat.odd w then 1 else 0) in
  spaces left ++ s ++ spaces (marg - left).
(* s[:w] for w >= 0 *)
Definition take (w : nat) (s : text) : text := firstn w s.

Fixpoint join (sep : text) (l : list text) : text :=
  match l with
  | [] => []
  | x :: r => match r with [] => x | _ => x ++ sep ++ join sep r end
  end.

(* str(int) for the row labels and len(str(len(table))) *)
Fixpoint dec_go (fuel n : nat) (acc : text) : text :=
  match fuel with
  | O => acc
  | S f => let acc' := N.of_nat (48 + n mod 10) :: acc in
           if n <? 10 then acc' else dec_go f (n / 10) acc'
  end.
Definition dec_nat (n : nat) : text := dec_go (S n) n [].

(* str(int) for interval parts (any size) *)
Fixpoint decN_go (fuel : nat) (n : N) (acc : text) : text :=
  match fuel with
  | O => acc
  | S f => let acc' := (48 + n mod 10)%N :: acc in
           if (n <? 10)%N then acc' else decN_go f (n / 10)%N acc'
  end.
Definition dec_N (n : N) : text := decN_go (S (N.to_nat (N.log2 n))) n [].
Definition dec_Z (z : Z) : text :=
  if (z <? 0)%Z then 45%N :: dec_N (Z.to_N (- z)) else dec_N (Z.to_N z).

(* ------------------------------------------------------------------ *)
(* bytes.decode("utf-8", errors=...) - CPython's decoder: one U+FFFD per maximal
   invalid subsequence.  [strict]: the first error raises instead. *)
Definition FFFD : N := 65533%N.
Definition is_cont (b : N) : bool := (128 <=? b)%N && (b <? 192)%N.
(* second byte of a 3-byte sequence led by b0 *)
Definition ok2_3 (b0 b1 : N) : bool :=
  if (b0 =? 224)%N then (160 <=? b1)%N && (b1 <? 192)%N
  else if (b0 =? 237)%N then (128 <=? b1)%N && (b1 <? 160)%N
  else is_cont b1.
(* second byte of a 4-byte sequence led by b0 *)
Definition ok2_4 (b0 b1 : N) : bool :=
  if (b0 =? 240)%N then (144 <=? b1)%N && (b1 <? 192)%N
  else if (b0 =? 244)%N then (128 <=? b1)%N && (b1 <? 144)%N
  else is_cont b1.

(* the decoded stream: Some cp, or None for a replaced invalid subsequence *)
Fixpoint utf8_items (bs : list N) : list (option N) :=
  match bs with
  | [] => []
  | b0 :: r0 =>
    if (b0 <? 128)%N then Some b0 :: utf8_items r0
    else if (b0 <? 194)%N then None :: utf8_items r0
    else if (b0 <? 224)%N then
      match r0 with
      | [] => [None]
      | b1 :: r1 =>
        if is_cont b1 then Some ((b0 - 192) * 64 + (b1 - 128))%N :: utf8_items r1
        else None :: utf8_items r0
      end
    else if (b0 <? 240)%N then
      match r0 with
      | [] => [None]
      | b1 :: r1 =>
        if ok2_3 b0 b1 then
          match r1 with
          | [] => [None]
          | b2 :: r2 =>
            if is_cont b2
            then Some ((b0 - 224) * 4096 + (b1 - 128) * 64 + (b2 - 128))%N :: utf8_items r2
            else None :: utf8_items r1
          end
        else None :: utf8_items r0
      end
    else if (b0 <? 245)%N then
      match r0 with
      | [] => [None]
      | b1 :: r1 =>
        if ok2_4 b0 b1 then
          match r1 with
          | [] => [None]
          | b2 :: r2 =>
            if is_cont b2 then
              match r2 with
              | [] => [None]
              | b3 :: r3 =>
                if is_cont b3
                then Some ((b0 - 240) * 262144 + (b1 - 128) * 4096 + (b2 - 128) * 64 + (b3 - 128))%N
                       :: utf8_items r3
                else None :: utf8_items r2
              end
            else None :: utf8_items r1
          end
        else None :: utf8_items r0
      end
    else None :: utf8_items r0
  end.

Definition utf8_decode (replace : bool) (bs : list N) : result text :=
  let items := utf8_items bs in
  if replace then Ok (map (fun o => match o with Some c => c | None => FFFD end) items)
  else if forallb (fun o => match o with Some _ => true | None => false end) items
       then Ok (map (fun o => match o with Some c => c | None => FFFD end) items)
       else Raise UnicodeDecodeError.

(* what the pinned code of line 250 passes: errors="replace" *)
Definition blob_decode_replace : bool := true.

(* ------------------------------------------------------------------ *)
(* colour tokens *)
Definition tok (name : String.string) : text := (1%N :: T name) ++ [109%N].
Definition OFF := tok "OFF".

(* character_width: 2 when unicodedata.east_asian_width is one of the classes of line 303 *)
Fixpoint in_tree (c : N) (t : c18_rtree) : bool :=
  match t with
  | RLeaf => false
  | RNode l lo hi r => if (c <? lo)%N then in_tree c l else if (c <=? hi)%N then true else in_tree c r
  end.
Definition char_width (c : N) : nat := if in_tree c c18_wide_tree then 2 else 1.

(* trunc_printable (lines 305-329).  [tp_go] is the loop: emitted text, final offset,
   and whether the loop returned early (line 325). *)
Definition CRLF_EMIT : text := tok "CRLF" ++ [8629%N] ++ tok "VARCHAR".

Fixpoint tp_go (w : nat) (s : text) (off : nat) (ign : bool) : text * nat * bool :=
  match s with
  | [] => ([], off, false)
  | c :: r =>
    if (c =? 10)%N then
      let '(e, o, b) := tp_go w r (S off) ign in (CRLF_EMIT ++ e, o, b)
    else if (c =? 13)%N then tp_go w r off ign
    else
      let ign1 := ign || (c =? 27)%N || (c =? 1)%N in
      let off1 := if ign1 then off else off + char_width c in
      let ign2 := if ign1 && (c =? 109)%N then false else ign1 in
      if negb ign2 && (w <=? off1) then ([c], off1, true)
      else let '(e, o, b) := tp_go w r off1 ign2 in (c :: e, o, b)
  end.

Definition trunc_printable (value : text) (w : nat) (full_line : bool) : text :=
  let '(e, o, early) := tp_go w value 0 false in
  if early then e ++ OFF
  else if full_line then e ++ OFF ++ spaces (w - o) else e ++ OFF.

(* ------------------------------------------------------------------ *)
(* cell values *)
Inductive value :=
| VNone
| VBool (b : bool)
| VInt (s : text)                          (* str(value) *)
| VFloat (isnan : bool) (s : text)         (* str(value) *)
| VDecimal (s : text)                      (* str(value) *)
| VStr (s : text)
| VDateTime (d t : text)                   (* strftime('%Y-%m-%d'), strftime('%H:%M:%S') *)
| VDate (d : text)                         (* strftime('%Y-%m-%d') *)
| VBytes (bs : list N)                     (* bytes / bytearray *)
| VDict (kvs : list (text * text))         (* f"{k}", f"{v}" in items() order *)
| VInterval (months days sod frac : Z)     (* months, days, whole seconds of the day part, nanoseconds below the second *)
| VList (items : list text)                (* list / tuple: str of each item *)
| VOther (s : text)                        (* datetime.time, set, complex, ...: str(value) *)
| VNpInt (s : text)                        (* numpy integer scalar: str(int(value)) *)
| VNpFloat (isnan : bool) (s : text)       (* numpy floating scalar: str(float(value)) *)
| VNpBool (b : bool)
| VNpOther (s : text)                      (* str_, bytes_, datetime64, complex: str(value) *)
| VNpArray (v : value)                     (* ndarray; v describes value.tolist() *)
| VNpTimedelta (is_nat linear : bool) (cnt : Z)  (* timedelta64: NaT?, unit with a fixed length?, nanoseconds (months for month/year units) *)
| VSub (v : value).                        (* an instance of a proper SUBCLASS of the class of v (int / float / str / bytes / Decimal / date /
                                              datetime / timedelta / dict / list / tuple subclass, IntEnum, OrderedDict, namedtuple, ...; for
                                              VNpArray: numpy.ma.MaskedArray, numpy.matrix, numpy.recarray, a user subclass of ndarray).
                                              v describes it exactly as it would describe a base-class instance of equal content. *)

(* every class test of ascii_table is an isinstance test (display.py 208-310): a subclass instance takes the branch of its base class *)
Fixpoint unsub (v : value) : value := match v with VSub x => unsub x | x => x end.

(* a cell: the value and str(value) when it is not the value's own text *)
Record cell := mkcell { cv : value; cs : option text }.

Definition bool_text (b : bool) : text := if b then T "True" else T "False".

(* str(value), as calculate_data_width and markdown take it *)
Definition cell_str (c : cell) : text :=
  match cs c with
  | Some s => s
  | None =>
    match unsub (cv c) with
    | VNone => T "None"
    | VBool b | VNpBool b => bool_text b
    | VInt s | VFloat _ s | VDecimal s | VStr s | VOther s | VNpInt s | VNpFloat _ s | VNpOther s => s
    | _ => []
    end
  end.

Definition is_none (c : cell) : bool := match unsub (cv c) with VNone => true | _ => false end.

(* numpy_type_mapper (lines 205-224) *)
Definition DAY_NS : Z := 86400000000000%Z.
Definition np_map (v : value) : result value :=
  match v with
  | VNpArray x => Ok x
  | VNpTimedelta is_nat linear cnt =>
      if is_nat then Ok VNone                        (* numpy.isnat(value): rendered as null *)
      else if negb linear then Ok (VInterval cnt 0 0 0)   (* month / year units: months only *)
      else let r := (cnt mod DAY_NS)%Z in
           Ok (VInterval 0 (cnt / DAY_NS)%Z (r / 1000000000)%Z (r mod 1000000000)%Z)
  | VNpInt s => Ok (VInt s)
  | VNpFloat n s => Ok (VFloat n s)
  | VNpBool b => Ok (VBool b)
  | VNpOther s => Ok (VStr s)
  | x => Ok x
  end.

(* f"{seconds:.2f}" for seconds = s + frac/1e9, 0 <= s < 60 (ties: see LEVEL_NOTE) *)
Definition two (n : N) : text := [(48 + n / 10)%N; (48 + n mod 10)%N].
Definition sec_text (s frac : Z) : text :=
  let v := (s * 1000000000 + frac)%Z in
  let q := (v / 10000000)%Z in
  let r := (v mod 10000000)%Z in
  let q' := Z.to_N (if (5000000 <=? r)%Z then q + 1 else q)%Z in
  dec_N (q' / 100)%N ++ [46%N] ++ two (q' mod 100)%N.

Definition interval_parts (months days sod frac : Z) : list text :=
  let hours := (sod / 3600)%Z in
  let minutes := ((sod mod 3600) / 60)%Z in
  let s := (sod mod 60)%Z in
  let years := (months / 12)%Z in
  let mo := (months mod 12)%Z in
  (if (years =? 0)%Z then [] else [dec_Z years ++ T "y"]) ++
  (if (mo =? 0)%Z then [] else [dec_Z mo ++ T "mo"]) ++
  (if (days =? 0)%Z then [] else [dec_Z days ++ T "d"]) ++
  (if (hours =? 0)%Z then [] else [dec_Z hours ++ T "h"]) ++
  (if (minutes =? 0)%Z then [] else [dec_Z minutes ++ T "m"]) ++
  (if (s =? 0)%Z && (frac =? 0)%Z then [] else [sec_text s frac ++ T "s"]).

Definition dict_item (kv : text * text) : text :=
  T "'" ++ tok "KEY" ++ fst kv ++ tok "PUNC" ++ T "':'" ++ tok "VALUE" ++ snd kv ++ tok "PUNC" ++ T "'".

(* type_formatter (lines 226-298) *)
Definition fmt_value (v : value) (w : nat) : result text :=
  match v with
  | VNone | VFloat true _ => Ok (tok "NULL" ++ take w (rjust w (T "null")) ++ OFF)
  | VBool b => Ok (tok "CONST" ++ take w (rjust w (bool_text b)) ++ OFF)
  | VInt s => Ok (tok "INTEGER" ++ take w (rjust w s) ++ OFF)
  | VFloat false s | VDecimal s => Ok (tok "FLOAT" ++ take w (rjust w s) ++ OFF)
  | VStr s => Ok (tok "VARCHAR" ++ trunc_printable (ljust w s) w true ++ OFF)
  | VDateTime d t =>
      Ok (tok "DATE" ++ trunc_printable (rjust w (d ++ T " " ++ tok "TIME" ++ t)) w true ++ OFF)
  | VDate d => Ok (tok "DATE" ++ trunc_printable (rjust w d) w true ++ OFF)
  | VBytes bs =>
      bind (utf8_decode blob_decode_replace bs)
           (fun s => Ok (tok "BLOB" ++ trunc_printable (ljust w s) w true ++ OFF))
  | VDict kvs =>
      Ok (trunc_printable
            (tok "PUNC" ++ T "{" ++ join (tok "PUNC" ++ T ", ") (map dict_item kvs) ++ T "}" ++ OFF) w true)
  | VInterval months days sod frac =>
      Ok (trunc_printable
            (tok "INTERVAL" ++ join (T " ") (interval_parts months days sod frac) ++ OFF) w true)
  | VList items =>
      Ok (trunc_printable
            (tok "PUNC" ++ T "['" ++ tok "VALUE"
             ++ join (tok "PUNC" ++ T "', '" ++ tok "VALUE") items
             ++ tok "PUNC" ++ T "']" ++ OFF) w true)
  | VOther s => Ok (take w (ljust w s))
  (* numpy values never reach here: np_map runs first; kept total *)
  | VNpInt s | VNpFloat _ s | VNpOther s => Ok (take w (ljust w s))
  | VNpBool b => Ok (take w (ljust w (bool_text b)))
  | VNpArray _ | VNpTimedelta _ _ _ => Ok (take w (spaces w))
  (* a subclass mark never reaches here either: type_formatter strips it before and after np_map *)
  | VSub _ => Ok (take w (spaces w))
  end.

(* isinstance(value, (numpy.generic, numpy.ndarray)) -> numpy_type_mapper (itself isinstance(value, numpy.ndarray) -> tolist());
   then the isinstance chain over what came back (an object array's tolist() hands back the objects it holds, subclass
   instances included) *)
Definition type_formatter (c : cell) (w : nat) : result text :=
  bind (np_map (unsub (cv c))) (fun v => fmt_value (unsub v) w).

(* ------------------------------------------------------------------ *)
(* (a) row selection and labelling (lines 169-203, 379-407) *)
Section Select.
Context {A : Type}.

(* deque(maxlen).append *)
Definition deque_push (maxlen : nat) (d : list A) (x : A) : list A :=
  let d' := d ++ [x] in if maxlen <? length d' then tl d' else d'.

(* DataFrame.tail(size): slice(offset=0-size, length=size) *)
Definition py_tail (size : nat) (l : list A) : list A :=
  firstn size (skipn (length l - size) l).

(* rows of t, and lazy_length as line 203 reads it *)
Definition select_rows (l : list A) (limit : nat) (tt lz : bool) : list A * nat :=
  if limit =? 0 then (l, 0)
  else if negb tt then
    if lz then let t := firstn limit l in          (* islice(table._rows, limit) *)
               (t, length t - 1)                   (* lazy_length = t.rowcount - 1; -1 on an empty t is 0 here,
                                                      only lazy_length + 1 is read and str(0), str(1) are equally long *)
    else (firstn limit l, 0)                       (* table.slice(length=limit) *)
  else if (negb lz) && (2 * limit + 1 <=? length l) then
    (firstn limit l ++ py_tail limit l, 0)         (* head + tail *)
  else if lz then
    let head := firstn limit l in                  (* list(islice(table._rows, limit)) *)
    let rest := skipn limit l in                   (* what the generator still yields *)
    let tailc := fold_left (deque_push limit) rest [] in
    let last_i := length rest - 1 in               (* enumerate: 0 when nothing was left *)
    (head ++ tailc, last_i + (length head + 1))
  else (l, 0).

Inductive line := LEllipsis | LRow (label : nat) (r : A).

(* lines 379-392 *)
Fixpoint lazy_lines (limit ll : nat) (t : list A) (i offset : nat) : list line :=
  match t with
  | [] => []
  | r :: rest =>
    let hit := (i =? limit) && (2 * limit <? ll) in
    let offset' := if hit then offset + (ll - 2 * limit) else offset in
    (if hit then [LEllipsis] else []) ++ LRow (i + offset') r :: lazy_lines limit ll rest (S i) offset'
  end.

(* lines 393-407; n = table.rowcount *)
Fixpoint eager_lines (limit n : nat) (tt : bool) (t : list A) (i : nat) : list line :=
  match t with
  | [] => []
  | r :: rest =>
    let big := tt && (2 * limit <? n) in
    (if big && (i =? limit) then [LEllipsis] else []) ++
    LRow ((if big && (limit <=? i) then i + (n - 2 * limit) else i) + 1) r
      :: eager_lines limit n tt rest (S i)
  end.

Definition shown_lines (l : list A) (limit : nat) (tt lz : bool) : list line :=
  let '(t, ll) := select_rows l limit tt lz in
  if lz then lazy_lines limit ll t 0 1 else eager_lines limit (length l) tt t 0.

(* line 203 *)
Definition index_width (l : list A) (limit : nat) (tt lz : bool) : nat :=
  if lz then length (dec_nat (snd (select_rows l limit tt lz) + 1)) + 2
  else length (dec_nat (length l)) + 2.

(* the property's own description of what is shown *)
Fixpoint number (k : nat) (l : list A) : list line :=
  match l with [] => [] | r :: rest => LRow k r :: number (S k) rest end.

Definition spec_lines (l : list A) (limit : nat) (tt : bool) : list line :=
  let n := length l in
  if tt then
    if n <=? 2 * limit then number 1 l
    else number 1 (firstn limit l) ++ [LEllipsis] ++ number (n - limit + 1) (skipn (n - limit) l)
  else number 1 (firstn limit l).
End Select.
Arguments line : clear implicits.

(* ------------------------------------------------------------------ *)
(* (b) the table (lines 331-408) *)
Inductive coltype :=
| CtPlain (name : text)                                    (* str(column.type) *)
| CtArray (name : text) (elem : option text)               (* ARRAY, f"{element_type}" *)
| CtDecimal (name : text) (prec : option text) (scale : text).

Definition coltype_text (c : coltype) : text :=
  match c with
  | CtPlain n => n
  | CtArray n None => n
  | CtArray _ (Some e) => T "ARRAY<" ++ e ++ T ">"
  | CtDecimal n None _ => n
  | CtDecimal _ (Some p) s => T "DECIMAL(" ++ p ++ T "," ++ s ++ T ")"
  end.

Record frame := mkframe {
  names : list text;                 (* column_names *)
  ctypes : option (list coltype);    (* Some: RelationSchema columns; None: a list of names *)
  rows : list (list cell);
  lazy : bool
}.

(* the same frame with every subclass mark removed: each cell replaced by the base-class instance of equal content
   (round 4; Props: C18_subclass_frame_as_base) *)
Definition erase_cell (c : cell) : cell := mkcell (unsub (cv c)) (cs c).
Definition erase_frame (f : frame) : frame :=
  mkframe (names f) (ctypes f) (map (map erase_cell) (rows f)) (lazy f).

Record config := mkconfig {
  limit : nat; dwidth : nat; mcw : nat; colorize : bool; top_tail : bool; show_types : bool
}.

Definition col_types (f : frame) : list text :=
  match ctypes f with
  | Some cts => map coltype_text cts
  | None => map (fun _ => c18_missing_type) (names f)
  end.

(* calculate_data_width over column i of t *)
Definition data_width (t : list (list cell)) (i : nat) : nat :=
  fold_left (fun m r =>
    match nth_error r i with
    | Some c => if is_none c then m else Nat.max m (length (cell_str c))
    | None => m
    end) t 4.

Fixpoint zip3 {A B C} (a : list A) (b : list B) (c : list C) : list (A * B * C) :=
  match a, b, c with
  | x :: a', y :: b', z :: c' => (x, y, z) :: zip3 a' b' c'
  | _, _, _ => []
  end.

Definition col_widths (f : frame) (cfg : config) (t : list (list cell)) : list nat :=
  let cw := map (@length N) (names f) in
  let cts := col_types f in
  let ctw := if show_types cfg then map (@length N) cts else map (fun _ => 0) cts in
  let dw := map (data_width t) (seq 0 (length (names f))) in
  map (fun x => let '(a, b, c) := x in Nat.min (Nat.max (Nat.max a b) c) (mcw cfg)) (zip3 cw ctw dw).

Definition BAR := 9474%N.   (* │ *)
Definition rule (l m r fill : N) (iw : nat) (ws : list nat) : text :=
  [l] ++ repeat fill iw ++ [m; fill] ++ join [fill; m; fill] (map (repeat fill) ws) ++ [fill; r].

Definition head_line (tk : String.string) (iw : nat) (cells : list text) (ws : list nat) : text :=
  [BAR] ++ spaces iw ++ [BAR; 32%N]
  ++ join [32%N; BAR; 32%N] (map (fun vw => tok tk ++ take (snd vw) (center (snd vw) (fst vw)) ++ OFF) (combine cells ws))
  ++ [32%N; BAR].

Definition format_row (r : list cell) (ws : list nat) : result (list text) :=
  mapM (fun cw => type_formatter (fst cw) (snd cw)) (combine r ws).

Definition row_line (iw : nat) (label : nat) (cells : list text) : text :=
  [BAR] ++ tok "TYPE" ++ rjust (iw - 1) (dec_nat label) ++ OFF ++ [32%N; BAR; 32%N]
  ++ join [32%N; BAR; 32%N] cells ++ [32%N; BAR].

Inductive lkind := KBox | KEllipsis.

Definition data_line (lz : bool) (iw : nat) (ws : list nat) (ln : line (list cell)) : result (lkind * text) :=
  match ln with
  | LEllipsis => Ok (KEllipsis, if lz then T "..." else tok "PUNC" ++ T "..." ++ OFF)
  | LRow label r => bind (format_row r ws) (fun cells => Ok (KBox, row_line iw label cells))
  end.

(* the lines _inner yields, each tagged box line / ellipsis line *)
Definition inner_tagged (f : frame) (cfg : config) : result (list (lkind * text)) :=
  let lz := lazy f in
  let t := fst (select_rows (rows f) (limit cfg) (top_tail cfg) lz) in
  let iw := index_width (rows f) (limit cfg) (top_tail cfg) lz in
  let ws := col_widths f cfg t in
  let cts := col_types f in
  bind (mapM (data_line lz iw ws) (shown_lines (rows f) (limit cfg) (top_tail cfg) lz))
  (fun body =>
   Ok ([(KBox, rule 9484 9516 9488 9472 iw ws);
        (KBox, head_line "HEAD" iw (names f) ws)]
       ++ (if show_types cfg then [(KBox, head_line "TYPE" iw cts ws)] else [])
       ++ [(KBox, rule 9566 9578 9569 9552 iw ws)]
       ++ body
       ++ [(KBox, rule 9492 9524 9496 9472 iw ws)])).

(* printed width of a box line: index column, its borders, the cells and theirs *)
Fixpoint joinw (ws : list nat) : nat :=
  match ws with
  | [] => 0
  | w :: r => match r with [] => w | _ => w + 3 + joinw r end
  end.
Definition table_width (f : frame) (cfg : config) : nat :=
  let lz := lazy f in
  let t := fst (select_rows (rows f) (limit cfg) (top_tail cfg) lz) in
  index_width (rows f) (limit cfg) (top_tail cfg) lz + 5 + joinw (col_widths f cfg t).

(* str.replace(old, new), old non-empty *)
Fixpoint is_prefix (p s : text) : bool :=
  match p, s with
  | [], _ => true
  | x :: p', y :: s' => (x =? y)%N && is_prefix p' s'
  | _ :: _, [] => false
  end.

Fixpoint replace_go (old new s : text) (skip : nat) : text :=
  match s with
  | [] => []
  | c :: r =>
    match skip with
    | S k => replace_go old new r k
    | O => if is_prefix old s then new ++ replace_go old new r (length old - 1)
           else c :: replace_go old new r 0
    end
  end.
Definition replace (old new s : text) : text :=
  match old with [] => s | _ => replace_go old new s 0 end.

(* colorizer (lines 70-80) *)
Definition U0001 : text := T "\u0001".
Definition colorizer (record : text) (can_colorize : bool) : text :=
  fold_left (fun rec kv => replace (fst kv) (if can_colorize then snd kv else []) rec)
            c18_colors (replace U0001 [1%N] record).

(* lines 410-412: every line is cut to the display width, colorized, and the lines joined *)
Definition cut_lines (f : frame) (cfg : config) : result (list (lkind * text)) :=
  bind (inner_tagged f cfg) (fun ls =>
    Ok (map (fun l => (fst l, trunc_printable (snd l) (dwidth cfg) false)) ls)).

Definition finish (cfg : config) (cuts : list (lkind * text)) : text :=
  join [10%N] (map (fun l => colorizer (snd l) (colorize cfg)) cuts).

Definition ascii_table (f : frame) (cfg : config) : result text :=
  bind (cut_lines f cfg) (fun cuts => Ok (finish cfg cuts)).

(* ------------------------------------------------------------------ *)
(* markdown (lines 415-446), joined with "\n" as DataFrame.markdown does *)
Definition md_lines (f : frame) (lim mcw_ : nat) : list text :=
  let t := if lim =? 0 then rows f else firstn lim (rows f) in
  let iw := length (dec_nat (length (rows f))) in
  let dw := map (fun i => fold_left (fun m r =>
                  match nth_error r i with
                  | Some c => if is_none c then m else Nat.max m (length (cell_str c))
                  | None => m end) t 4) (seq 0 (length (names f))) in
  let ws := map (fun x => Nat.min (Nat.max (fst x) (snd x)) mcw_) (combine (map (@length N) (names f)) dw) in
  [ T "| #" ++ spaces (iw - 2) ++ T "| "
    ++ join (T " | ") (map (fun vw => take (snd vw) (ljust (snd vw) (fst vw))) (combine (names f) ws)) ++ T " |";
    T "|" ++ repeat 45%N iw ++ T "|-" ++ join (T "-|-") (map (repeat 45%N) ws) ++ T "-|" ]
  ++ map (fun ir =>
      T "|" ++ rjust (iw - 1) (dec_nat (fst ir + 1)) ++ T " | "
      ++ join (T " | ") (map (fun cw => take (snd cw) (rjust (snd cw) (cell_str (fst cw)))) (combine (snd ir) ws))
      ++ T " |") (combine (seq 0 (length t)) t).

Definition markdown (f : frame) (lim mcw_ : nat) : text := join [10%N] (md_lines f lim mcw_).

(* __str__ (lines 451-476), outside a notebook; [cols] = the terminal width *)
Definition str_config (cols : nat) : config :=
  mkconfig c18_str_limit cols c18_ascii_mcw c18_ascii_colorize true c18_ascii_show_types.

Definition df_str (f : frame) (cols : nat) : result text :=
  bind (ascii_table f (str_config cols)) (fun s =>
    (* after ascii_table a lazily backed frame's generator is spent: rowcount materialises nothing *)
    let rc := if lazy f then 0 else length (rows f) in
    Ok (s ++ [10%N] ++ T "[ " ++ dec_nat rc ++ T " rows x " ++ dec_nat (length (names f)) ++ T " columns ]")).

(* ------------------------------------------------------------------ *)
(* what the correspondence compares *)
(* printed width as trunc_printable itself accounts for it: characters outside
   \001...m / \033...m sequences, one column each; the end state is returned too *)
Fixpoint scan (s : text) (ign : bool) : nat * bool :=
  match s with
  | [] => (0, ign)
  | c :: r =>
    let ign1 := ign || (c =? 27)%N || (c =? 1)%N in
    let ign2 := if ign1 && (c =? 109)%N then false else ign1 in
    let '(k, e) := scan r ign2 in ((if ign1 then k else S k), e)
  end.
Definition pw (s : text) : nat := fst (scan s false).

(* 61-bit polynomial digest of a text (the real output travels as length + digest) *)
Definition DIGEST_P : N := 2305843009213693951%N.     (* 2^61 - 1 *)
(* x mod (2^61 - 1) for x < 2^122, the Mersenne way (no division) *)
Definition mod61 (x : N) : N :=
  let y := (N.land x DIGEST_P + N.shiftr x 61)%N in
  if (DIGEST_P <=? y)%N then (y - DIGEST_P)%N else y.
Definition digest (s : text) : N :=
  fold_left (fun h c => mod61 (h * 1000003 + c + 1)%N) s 7%N.

Inductive obs :=
| ORaise (e : exn)
| OOther                          (* raised something the model never raises *)
| OText (len : N) (dg : N).

Definition obs_match (r : result text) (o : obs) : bool :=
  match r, o with
  | Ok s, OText len dg => (N.of_nat (length s) =? len)%N && (digest s =? dg)%N
  | Raise ValueError, ORaise ValueError => true
  | Raise TypeError, ORaise TypeError => true
  | Raise UnicodeDecodeError, ORaise UnicodeDecodeError => true
  | _, _ => false
  end.

(* labels and ellipsis position as the selection model gives them: row labels in order,
   and the number of row lines that precede the ellipsis line (if any) *)
Definition labels_of {A} (ls : list (line A)) : list nat :=
  flat_map (fun l => match l with LRow k _ => [k] | LEllipsis => [] end) ls.
Fixpoint ellipsis_at {A} (ls : list (line A)) (i : nat) : list nat :=
  match ls with
  | [] => []
  | LEllipsis :: r => i :: ellipsis_at r i
  | LRow _ _ :: r => ellipsis_at r (S i)
  end.

Record case := mkcase {
  c_frame : frame; c_cfg : config;
  c_md_limit : nat; c_md_mcw : nat; c_cols : nat;
  o_display : obs; o_markdown : obs; o_str : option obs;
  o_labels : option (list nat * list nat);   (* parsed from the real output when the label column survived the cut *)
  o_widths : option (list nat)               (* printable-ASCII content only: len of each real line, colour codes stripped *)
}.

Definition list_nat_eqb (a b : list nat) : bool :=
  (length a =? length b) && forallb (fun p => fst p =? snd p) (combine a b).

Definition c18_check (c : case) : bool :=
  let f := c_frame c in let cfg := c_cfg c in
  let cuts := cut_lines f cfg in
  obs_match (bind cuts (fun cs => Ok (finish cfg cs))) (o_display c)      (* = ascii_table f cfg *)
  && obs_match (Ok (markdown f (c_md_limit c) (c_md_mcw c))) (o_markdown c)
  && match o_str c with None => true | Some o => obs_match (df_str f (c_cols c)) o end
  && match o_labels c with
     | None => true
     | Some (labs, ell) =>
       let ls := shown_lines (rows f) (limit cfg) (top_tail cfg) (lazy f) in
       list_nat_eqb (labels_of ls) labs && list_nat_eqb (ellipsis_at ls 0) ell
     end
  && match o_widths c with
     | None => true
     | Some ws => match cuts with Ok cs => list_nat_eqb (map (fun l => pw (snd l)) cs) ws | Raise _ => false end
     end.

(* the model's own output, for diagnosing a mismatch *)
Definition c18_show (c : case) :=
  (ascii_table (c_frame c) (c_cfg c),
   markdown (c_frame c) (c_md_limit c) (c_md_mcw c),
   df_str (c_frame c) (c_cols c),
   (labels_of (shown_lines (rows (c_frame c)) (limit (c_cfg c)) (top_tail (c_cfg c)) (lazy (c_frame c))),
    match cut_lines (c_frame c) (c_cfg c) with Ok cs => map (fun l => pw (snd l)) cs | Raise _ => [] end)).
