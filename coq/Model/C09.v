(* C09 - executable model of the compressed column encodings of orso/schema.py
   (FunctionColumn 358-378, ConstantColumn 381-405, SparseColumn 408-445, RLEColumn 448-492,
   DictionaryColumn 495-517).  No proofs here.

   Part 1: the codecs over an abstract value type (equality / inequality / order are
           parameters: Python ==, numpy !=, numpy's sort order).
   Part 2: concrete Python values, NumPy dtypes, NumPy's conversions ("the dtype layer").
   Part 3: the five columns as the code runs them on Python lists: input coercion by
           numpy.array, the codec of part 1, element-wise function on the stored values,
           materialize with the dtype the code chooses.  These are what the correspondence
           evaluates; the theorems of Props/C09.v are about these same definitions. *)
From Coq Require Import List ZArith NArith Bool Arith.
Import ListNotations.

(* ------------------------------------------------------------------ *)
(* Part 1: codecs over an abstract value type                          *)
(* ------------------------------------------------------------------ *)
Section Codec.
Variable A : Type.

(* --- RLEColumn.__init__: the run loop.  [prev]/[n] are prev_value/run_length; a finished
   run is emitted where the code appends to run_values / run_lengths; the test is
   [value == prev_value], in that order. --- *)
Variable eqb : A -> A -> bool.

Fixpoint rle_loop (prev : A) (n : nat) (rest : list A) : list (A * nat) :=
  match rest with
  | [] => [(prev, n)]
  | v :: r => if eqb v prev then rle_loop prev (S n) r
              else (prev, n) :: rle_loop v 1 r
  end.

Definition rle_runs (l : list A) : list (A * nat) :=
  match l with
  | [] => []                       (* len(values) == 0: early return, lengths stays [] *)
  | x :: r => rle_loop x 1 r
  end.

Definition rle_encode (l : list A) : list A * list nat := split (rle_runs l).

(* materialize: for value, length in zip(values, lengths): extend([value] * length) *)
Definition rle_decode (vs : list A) (ls : list nat) : list A :=
  flat_map (fun p => repeat (fst p) (snd p)) (combine vs ls).

Fixpoint adjacent_differ (vs : list A) : Prop :=
  match vs with
  | a :: (b :: _) as r => eqb b a = false /\ adjacent_differ r
  | _ => True
  end.

(* --- SparseColumn: indices where [values != default], the values there, total length;
   materialize = numpy.full(n, default) then materialized[indices] = values --- *)
Variable neqb : A -> A -> bool.

Fixpoint sparse_scan (i : nat) (l : list A) (d : A) : list (nat * A) :=
  match l with
  | [] => []
  | x :: r => if neqb x d then (i, x) :: sparse_scan (S i) r d else sparse_scan (S i) r d
  end.

Definition sparse_encode (l : list A) (d : A) : list nat * list A * nat :=
  let s := sparse_scan 0 l d in (map fst s, map snd s, length l).

Fixpoint set_nth (i : nat) (v : A) (l : list A) : list A :=
  match l, i with
  | [], _ => []
  | _ :: r, O => v :: r
  | x :: r, S j => x :: set_nth j v r
  end.

Definition scatter (base : list A) (idx : list nat) (vals : list A) : list A :=
  fold_left (fun acc p => set_nth (fst p) (snd p) acc) (combine idx vals) base.

Definition sparse_materialize (enc : list nat * list A * nat) (d : A) : list A :=
  let '(idx, vals, n) := enc in scatter (repeat d n) idx vals.

(* --- DictionaryColumn: numpy.unique(values, return_inverse=True) = (sorted distinct
   values, position of each element among them); materialize = values[encoding] --- *)
Variable deqb : A -> A -> bool.
Variable leb : A -> A -> bool.

Fixpoint insert_uniq (x : A) (s : list A) : list A :=
  match s with
  | [] => [x]
  | y :: r => if deqb x y then s else if leb x y then x :: s else y :: insert_uniq x r
  end.

Definition uniq_sorted (l : list A) : list A := fold_right insert_uniq [] l.

Fixpoint index_of (x : A) (s : list A) : nat :=
  match s with
  | [] => 0
  | y :: r => if deqb x y then 0 else S (index_of x r)
  end.

(* strict order induced by leb *)
Definition lt_of (x y : A) : Prop := leb x y = true /\ x <> y.

(* [let]: one sort per column, as numpy.unique does (and vm_compute then sorts once, not once per element) *)
Definition dict_encode (l : list A) : list A * list nat :=
  let u := uniq_sorted l in (u, map (fun x => index_of x u) l).

(* values[encoding]; None = IndexError *)
Fixpoint gather (d : list A) (codes : list nat) : option (list A) :=
  match codes with
  | [] => Some []
  | c :: r => match nth_error d c, gather d r with
              | Some v, Some t => Some (v :: t)
              | _, _ => None
              end
  end.

Definition dict_decode (enc : list A * list nat) : option (list A) := gather (fst enc) (snd enc).

(* --- ConstantColumn: values = numpy.array([value]); materialize = numpy.full(length, values)
   (a one-element array broadcasts; anything else does not) --- *)
Definition const_encode (v : A) : list A := [v].

Definition const_materialize (vals : list A) (n : nat) : option (list A) :=
  match vals with
  | [v] => Some (repeat v n)
  | _ => None
  end.

(* --- FunctionColumn: numpy.array([binding(cfg...)] times length) --- *)
Definition func_materialize (Cfg : Type) (binding : Cfg -> A) (cfg : Cfg) (n : Z) : list A :=
  repeat (binding cfg) (Z.to_nat n).

End Codec.

Arguments rle_loop {A}. Arguments rle_runs {A}. Arguments rle_encode {A}. Arguments rle_decode {A}.
Arguments adjacent_differ {A}.
Arguments sparse_scan {A}. Arguments sparse_encode {A}. Arguments set_nth {A}. Arguments scatter {A}.
Arguments sparse_materialize {A}.
Arguments insert_uniq {A}. Arguments uniq_sorted {A}. Arguments index_of {A}. Arguments dict_encode {A}.
Arguments gather {A}. Arguments dict_decode {A}. Arguments lt_of {A}.
Arguments const_encode {A}. Arguments const_materialize {A}. Arguments func_materialize {A Cfg}.

(* ------------------------------------------------------------------ *)
(* Part 2: Python values, NumPy dtypes and conversions                  *)
(* ------------------------------------------------------------------ *)
Inductive exn := ValueError | OverflowError | TypeError | IndexError | OtherError | Unmodelled.
Inductive result (T : Type) := Ok (x : T) | Raise (e : exn).
Arguments Ok {T}. Arguments Raise {T}.

Definition bind {S T : Type} (r : result S) (k : S -> result T) : result T :=
  match r with Ok x => k x | Raise e => Raise e end.
Notation "x <- r ;; k" := (bind r (fun x => k)) (at level 61, r at next level, right associativity).
Notation "' p <- r ;; k" := (bind r (fun p => k)) (at level 61, p pattern, r at next level, right associativity).

Fixpoint mapM {S T : Type} (f : S -> result T) (l : list S) : result (list T) :=
  match l with
  | [] => Ok []
  | x :: r => y <- f x ;; ys <- mapM f r ;; Ok (y :: ys)
  end.

(* binary64, every value exactly: FFin m e is m * 2^e with m odd; one NaN *)
Inductive fl := FNaN | FInf (neg : bool) | FZero (neg : bool) | FFin (m e : Z).

(* Python values of the kinds the property quantifies over; text = code points *)
Inductive val := VNull | VBool (b : bool) | VInt (z : Z) | VFloat (f : fl) | VStr (s : list N).

(* bool / int64 / uint64 (only ever the dtype of a default) / float64 / <U k / object *)
Inductive dtype := DBool | DInt | DUInt | DFloat | DStr (k : nat) | DObj.

Definition fl_eqb (a b : fl) : bool :=
  match a, b with
  | FNaN, FNaN => true
  | FInf s, FInf t => Bool.eqb s t
  | FZero s, FZero t => Bool.eqb s t
  | FFin m e, FFin n f => Z.eqb m n && Z.eqb e f
  | _, _ => false
  end.

Fixpoint text_eqb (a b : list N) : bool :=
  match a, b with
  | [], [] => true
  | x :: r, y :: s => N.eqb x y && text_eqb r s
  | _, _ => false
  end.

(* identity of values: same kind, same bits (all NaNs are one) *)
Definition val_eqb (a b : val) : bool :=
  match a, b with
  | VNull, VNull => true
  | VBool x, VBool y => Bool.eqb x y
  | VInt x, VInt y => Z.eqb x y
  | VFloat x, VFloat y => fl_eqb x y
  | VStr x, VStr y => text_eqb x y
  | _, _ => false
  end.

Definition dtype_eqb (a b : dtype) : bool :=
  match a, b with
  | DBool, DBool | DInt, DInt | DUInt, DUInt | DFloat, DFloat | DObj, DObj => true
  | DStr j, DStr k => Nat.eqb j k
  | _, _ => false
  end.

Definition exn_eqb (a b : exn) : bool :=
  match a, b with
  | ValueError, ValueError | OverflowError, OverflowError | TypeError, TypeError
  | IndexError, IndexError | OtherError, OtherError | Unmodelled, Unmodelled => true
  | _, _ => false
  end.

(* --- numbers --- *)
Definition in_int64 (z : Z) : bool := (- 2 ^ 63 <=? z)%Z && (z <? 2 ^ 63)%Z.
Definition wrap64 (z : Z) : Z := ((z + 2 ^ 63) mod 2 ^ 64 - 2 ^ 63)%Z.

Fixpoint pos_strip (p : positive) : positive * Z :=
  match p with
  | xO q => let '(r, k) := pos_strip q in (r, (k + 1)%Z)
  | _ => (p, 0%Z)
  end.

Definition fl_norm (m e : Z) : fl :=
  match m with
  | Z0 => FZero false
  | Zpos p => let '(r, k) := pos_strip p in FFin (Zpos r) (e + k)
  | Zneg p => let '(r, k) := pos_strip p in FFin (Zneg r) (e + k)
  end.

(* round a positive integer to 53 significant bits, ties to even: (q, s) stands for q * 2^s *)
Definition round53 (a : Z) : Z * Z :=
  let L := (Z.log2 a + 1)%Z in
  if (L <=? 53)%Z then (a, 0%Z) else
  let s := (L - 53)%Z in
  let q := Z.shiftr a s in
  let r := (a - Z.shiftl q s)%Z in
  let h := Z.shiftl 1 (s - 1) in
  let q' := if (h <? r)%Z || ((r =? h)%Z && Z.odd q) then (q + 1)%Z else q in
  (q', s).

(* float(z) / numpy.float64(z) for a Python int *)
Definition float_of_Z (z : Z) : result fl :=
  if (z =? 0)%Z then Ok (FZero false) else
  let '(q, s) := round53 (Z.abs z) in
  if (1024 <? Z.log2 q + 1 + s)%Z then Raise OverflowError
  else Ok (fl_norm (if (z <? 0)%Z then (- q)%Z else q) s).

(* int(f) *)
Definition trunc_fl (f : fl) : result Z :=
  match f with
  | FNaN => Raise ValueError
  | FInf _ => Raise OverflowError
  | FZero _ => Ok 0%Z
  | FFin m e => if (0 <=? e)%Z then Ok (m * 2 ^ e)%Z else Ok (Z.quot m (2 ^ (- e)))
  end.

Definition fl_nonzero (f : fl) : bool := match f with FZero _ => false | _ => true end.

(* exact numeric view shared by bool / int / float *)
Inductive num := NumNaN | NumInf (neg : bool) | NumFin (m e : Z).

Definition num_of_val (v : val) : option num :=
  match v with
  | VBool b => Some (NumFin (if b then 1 else 0) 0)
  | VInt z => Some (NumFin z 0)
  | VFloat FNaN => Some NumNaN
  | VFloat (FInf s) => Some (NumInf s)
  | VFloat (FZero _) => Some (NumFin 0 0)
  | VFloat (FFin m e) => Some (NumFin m e)
  | _ => None
  end.

Definition fin_cmp (m1 e1 m2 e2 : Z) : comparison :=
  let e := Z.min e1 e2 in Z.compare (m1 * 2 ^ (e1 - e)) (m2 * 2 ^ (e2 - e)).

Definition num_eqb (a b : num) : bool :=
  match a, b with
  | NumInf s, NumInf t => Bool.eqb s t
  | NumFin m1 e1, NumFin m2 e2 => match fin_cmp m1 e1 m2 e2 with Eq => true | _ => false end
  | _, _ => false                                   (* NaN equals nothing *)
  end.

(* sort order of numpy.sort / numpy.unique: NaN last *)
Definition num_leb (a b : num) : bool :=
  match a, b with
  | _, NumNaN => true
  | NumNaN, _ => false
  | NumInf true, _ => true
  | _, NumInf false => true
  | NumInf false, _ => false
  | _, NumInf true => false
  | NumFin m1 e1, NumFin m2 e2 => match fin_cmp m1 e1 m2 e2 with Gt => false | _ => true end
  end.

Fixpoint text_leb (a b : list N) : bool :=
  match a, b with
  | [], _ => true
  | _ :: _, [] => false
  | x :: r, y :: s => if N.ltb x y then true else if N.eqb x y then text_leb r s else false
  end.

(* Python's == : exact across bool / int / float, NaN unequal to itself, 0.0 == -0.0 *)
Definition py_eqb (a b : val) : bool :=
  match a, b with
  | VNull, VNull => true
  | VStr s, VStr t => text_eqb s t
  | _, _ => match num_of_val a, num_of_val b with
            | Some x, Some y => num_eqb x y
            | _, _ => false
            end
  end.

(* --- dtypes --- *)
Definition dtype_of_scalar (v : val) : dtype :=         (* numpy.asarray(v).dtype *)
  match v with
  | VNull => DObj
  | VBool _ => DBool
  | VInt z => if in_int64 z then DInt
              else if (0 <=? z)%Z && (z <? 2 ^ 64)%Z then DUInt else DObj
  | VFloat _ => DFloat
  | VStr s => DStr (Nat.max 1 (length s))
  end.

(* element of a list handed to numpy.array; integers outside int64 are outside the model *)
Definition elem_dtype (v : val) : option dtype :=
  match v with
  | VInt z => if in_int64 z then Some DInt else None
  | _ => Some (dtype_of_scalar v)
  end.

Definition join (a b : dtype) : option dtype :=
  match a, b with
  | DObj, _ | _, DObj => Some DObj
  | DUInt, _ | _, DUInt => None
  | DStr j, DStr k => Some (DStr (Nat.max j k))
  | DStr _, _ | _, DStr _ => None                    (* text mixed with numbers: not modelled *)
  | DFloat, _ | _, DFloat => Some DFloat
  | DInt, _ | _, DInt => Some DInt
  | DBool, DBool => Some DBool
  end.

Definition is_null (v : val) : bool := match v with VNull => true | _ => false end.
Definition elem_ok (v : val) : bool := match elem_dtype v with Some _ => true | None => false end.

(* numpy.array's dtype discovery.  Round 7: text next to numbers has no common dtype in the model
   ([join] = None; NumPy would stringify), EXCEPT when a null follows later in the list: then the
   array is an object array whatever else it holds (numpy.array([1, 'a', None]).dtype == object)
   and every element is kept as the Python object it is. *)
Fixpoint join_all (acc : dtype) (l : list val) : option dtype :=
  match l with
  | [] => Some acc
  | v :: r => match elem_dtype v with
              | None => None
              | Some d => match join acc d with
                          | None => if existsb is_null r && forallb elem_ok r then Some DObj else None
                          | Some a => join_all a r
                          end
              end
  end.

Definition np_dtype_of_list (l : list val) : option dtype :=
  match l with
  | [] => Some DFloat                                (* numpy.array([]).dtype *)
  | v :: r => match elem_dtype v with None => None | Some d => join_all d r end
  end.

(* NumPy's conversion of one Python value to a dtype (dtype.type(x), numpy.full's fill,
   numpy.array's per-element conversion).  Lossy where NumPy is lossy: text is cut to the
   width, floats are truncated to integers, integers are rounded to binary64. *)
Definition np_cast (dt : dtype) (v : val) : result val :=
  match dt, v with
  | DObj, _ => Ok v
  | DBool, VBool _ => Ok v
  | DBool, VInt z => Ok (VBool (negb (z =? 0)%Z))
  | DBool, VFloat f => Ok (VBool (fl_nonzero f))
  | DInt, VBool b => Ok (VInt (if b then 1 else 0))
  | DInt, VInt z => if in_int64 z then Ok v else Raise OverflowError
  | DInt, VFloat f => z <- trunc_fl f ;; if in_int64 z then Ok (VInt z) else Raise OverflowError
  | DFloat, VBool b => Ok (VFloat (if b then FFin 1 0 else FZero false))
  | DFloat, VInt z => f <- float_of_Z z ;; Ok (VFloat f)
  | DFloat, VFloat _ => Ok v
  | DStr k, VStr s => Ok (VStr (firstn k s))
  | _, _ => Raise Unmodelled
  end.

Definition np_array (l : list val) : result (dtype * list val) :=
  match np_dtype_of_list l with
  | None => Raise Unmodelled
  | Some dv => a <- mapM (np_cast dv) l ;; Ok (dv, a)
  end.

(* v is a possible element of an array of dtype dt *)
Definition has_dtype (dt : dtype) (v : val) : Prop :=
  match dt, v with
  | DBool, VBool _ => True
  | DInt, VInt z => in_int64 z = true
  | DFloat, VFloat _ => True
  | DStr k, VStr s => length s <= k
  | DObj, _ => True
  | _, _ => False
  end.

(* a Python list of one kind: all booleans, all int64 integers, all floats or all text *)
Definition one_kind (l : list val) : Prop :=
  Forall (fun v => exists b, v = VBool b) l \/
  Forall (fun v => exists z, v = VInt z /\ in_int64 z = true) l \/
  Forall (fun v => exists f, v = VFloat f) l \/
  Forall (fun v => exists s, v = VStr s) l.

(* NumPy's elementwise [array-of-dtype-dv element == Python scalar d]: both sides are taken
   to the common dtype first, so int64-against-float and float64-against-int compare in
   binary64; object arrays and everything else compare as Python does. *)
Definition np_eqb (dv : dtype) (x d : val) : bool :=
  match dv, d with
  | DInt, VFloat _ => match np_cast DFloat x with Ok x' => py_eqb x' d | Raise _ => false end
  | DFloat, VInt _ => match np_cast DFloat d with Ok d' => py_eqb x d' | Raise _ => false end
  | _, _ => py_eqb x d
  end.

Definition np_neqb (dv : dtype) (x y : val) : bool := negb (np_eqb dv x y).     (* array != scalar *)

(* ... and where that comparison itself raises (the Python int cannot be converted) *)
Definition np_cmp_guard (dv : dtype) (d : val) : result unit :=
  match dv, d with
  | DBool, VInt z => if in_int64 z then Ok tt else Raise OverflowError
  | DFloat, VInt z => _ <- float_of_Z z ;; Ok tt
  | _, _ => Ok tt
  end.

Definition numeric (dt : dtype) : bool :=
  match dt with DBool | DInt | DUInt | DFloat => true | _ => false end.

Definition kind_eqb (a b : dtype) : bool :=
  match a, b with
  | DStr _, DStr _ => true
  | _, _ => dtype_eqb a b
  end.

Definition result_type_same_kind (a b : dtype) : dtype :=
  match a, b with
  | DStr j, DStr k => DStr (Nat.max j k)
  | _, _ => b
  end.

(* SparseColumn.materialize, lines 428-441: the dtype of the result array.
   dv = values.dtype, d = default_value *)
Definition mat_dtype (dv : dtype) (d : val) : result dtype :=
  let dd := dtype_of_scalar d in
  if kind_eqb dd dv then Ok (result_type_same_kind dd dv)
  else if numeric dv && numeric dd then
    match np_cast dv d with                           (* try: values.dtype.type(self.default_value) *)
    | Ok c => Ok (if np_eqb dv c d then dv else DObj) (*      ... == self.default_value *)
    | Raise ValueError | Raise OverflowError => Ok DObj   (* except (ValueError, OverflowError): pass *)
    | Raise e => Raise e
    end
  else Ok DObj.

(* --- the element-wise functions the harness applies to the stored values --- *)
Inductive fn := Mul2 | Add1 | Upper | CatXY | Not.

Definition fl_mul2 (f : fl) : fl :=
  match f with
  | FFin m e => if (1024 <? Z.log2 (Z.abs m) + 1 + e + 1)%Z then FInf (m <? 0)%Z else FFin m (e + 1)
  | _ => f
  end.

(* x + 1.0 in binary64, exactly: the real sum m*2^e + 1 rounded to 53 bits, ties to even (it cannot overflow, and a
   result of magnitude >= 2^-53 is never subnormal; -1.0 + 1 is +0.0) *)
Definition fl_add1 (f : fl) : fl :=
  match f with
  | FNaN | FInf _ => f
  | FZero _ => FFin 1 0
  | FFin m e =>
      let e' := Z.min e 0 in
      let a := (m * 2 ^ (e - e') + 2 ^ (- e'))%Z in
      if (a =? 0)%Z then FZero false else
      let '(q, s) := round53 (Z.abs a) in
      fl_norm (if (a <? 0)%Z then (- q)%Z else q) (s + e')
  end.

Definition upper_cp (c : N) : N := if (97 <=? c)%N && (c <=? 122)%N then (c - 32)%N else c.

Definition py_mul2 (v : val) : result val :=          (* Python x * 2 on an object array *)
  match v with
  | VBool b => Ok (VInt (if b then 2 else 0))
  | VInt z => Ok (VInt (2 * z))
  | VFloat f => Ok (VFloat (fl_mul2 f))
  | _ => Raise Unmodelled
  end.

Definition py_add1 (v : val) : result val :=
  match v with
  | VBool b => Ok (VInt (if b then 2 else 1))
  | VInt z => Ok (VInt (z + 1))
  | VFloat f => Ok (VFloat (fl_add1 f))
  | _ => Raise Unmodelled
  end.

Definition int_of (v : val) : result Z :=
  match v with VInt z => Ok z | VBool b => Ok (if b then 1 else 0)%Z | _ => Raise Unmodelled end.

Definition apply_fn (f : option fn) (dv : dtype) (vals : list val) : result (dtype * list val) :=
  match f with
  | None => Ok (dv, vals)
  | Some Mul2 =>
      match dv with
      | DBool | DInt => r <- mapM (fun v => z <- int_of v ;; Ok (VInt (wrap64 (2 * z)))) vals ;; Ok (DInt, r)
      | DFloat => r <- mapM (fun v => match v with VFloat x => Ok (VFloat (fl_mul2 x)) | _ => Raise Unmodelled end) vals ;; Ok (DFloat, r)
      | DObj => r <- mapM py_mul2 vals ;; Ok (DObj, r)
      | _ => Raise Unmodelled
      end
  | Some Add1 =>
      match dv with
      | DBool | DInt => r <- mapM (fun v => z <- int_of v ;; Ok (VInt (wrap64 (z + 1)))) vals ;; Ok (DInt, r)
      | DObj => r <- mapM py_add1 vals ;; Ok (DObj, r)
      | DFloat => r <- mapM (fun v => match v with VFloat x => Ok (VFloat (fl_add1 x)) | _ => Raise Unmodelled end) vals ;; Ok (DFloat, r)
      | _ => Raise Unmodelled
      end
  | Some Upper =>
      match dv with
      | DStr k => r <- mapM (fun v => match v with VStr s => Ok (VStr (map upper_cp s)) | _ => Raise Unmodelled end) vals ;; Ok (DStr k, r)
      | _ => Raise Unmodelled
      end
  | Some CatXY =>
      match dv with
      | DStr k => r <- mapM (fun v => match v with VStr s => Ok (VStr (s ++ [120; 121]%N)) | _ => Raise Unmodelled end) vals ;; Ok (DStr (k + 2), r)
      | _ => Raise Unmodelled
      end
  | Some Not =>
      match dv with
      | DBool => r <- mapM (fun v => match v with VBool b => Ok (VBool (negb b)) | _ => Raise Unmodelled end) vals ;; Ok (DBool, r)
      | _ => Raise Unmodelled
      end
  end.

(* --- order and equality numpy.unique uses inside one array (NaNs collapse, NaN last) --- *)
Definition dict_eqb (a b : val) : bool :=
  match a, b with
  | VFloat FNaN, VFloat FNaN => true
  | _, _ => py_eqb a b
  end.

Definition dict_leb (a b : val) : bool :=
  match a, b with
  | VStr s, VStr t => text_leb s t
  | VNull, _ => true
  | _, _ => match num_of_val a, num_of_val b with
            | Some x, Some y => num_leb x y
            | _, _ => false
            end
  end.

(* ------------------------------------------------------------------ *)
(* Part 3: the columns on Python lists                                  *)
(* ------------------------------------------------------------------ *)
(* Everything the harness observes, in one shape: lists of value lists, of index lists,
   of dtypes (which ones, per column, is said at each model). *)
Record obs := mkobs { o_vals : list (list val); o_nats : list (list nat); o_dts : list dtype }.

(* RLEColumn(values=l); values = f(values); materialize()
   observes [.values (before f); materialize()], [.lengths], [.values.dtype; result dtype] *)
Definition rle_np (l : list val) (f : option fn) : result obs :=
  let '(rv, ls) := rle_encode py_eqb l in
  '(dv, sv) <- np_array rv ;;                         (* numpy.array(run_values) *)
  '(dv', sv') <- apply_fn f dv sv ;;
  '(odt, out) <- np_array (rle_decode sv' ls) ;;      (* numpy.array(materialized) *)
  Ok (mkobs [sv; out] [ls] [dv; odt]).

(* DictionaryColumn: [.values (before f); materialize()], [.encoding], [.values.dtype; result dtype] *)
Definition dict_np (l : list val) (f : option fn) : result obs :=
  '(dv, arr) <- np_array l ;;                         (* numpy.asarray(self.values) *)
  if dtype_eqb dv DObj && (2 <=? length arr) then Raise TypeError   (* sorting nulls *)
  else
  let '(u, codes) := dict_encode dict_eqb dict_leb arr in
  '(dv', u') <- apply_fn f dv u ;;
  match gather u' codes with
  | None => Raise IndexError
  | Some out => Ok (mkobs [u; out] [codes] [dv; dv'])
  end.

(* SparseColumn(values=l, default_value=d):
   [.values (before f); materialize()], [.indices], [.values.dtype; result dtype] *)
Definition sparse_np (l : list val) (d : val) (f : option fn) : result obs :=
  '(dv, arr) <- np_array l ;;                         (* numpy.array(self.values) *)
  _ <- np_cmp_guard dv d ;;                           (* ... != self.default_value *)
  let '(idx, vals, n) := sparse_encode (np_neqb dv) arr d in
  '(dv', vals') <- apply_fn f dv vals ;;
  dt <- mat_dtype dv' d ;;
  fill <- np_cast dt d ;;                             (* numpy.full(n, default, dtype=dt) *)
  vals'' <- mapM (np_cast dt) vals' ;;                (* materialized[indices] = values *)
  Ok (mkobs [vals; sparse_materialize (idx, vals'', n) fill] [idx] [dv; dt]).

(* ConstantColumn(value=v, length=n): [.values (before f); materialize()], [], [.values.dtype; result dtype] *)
Definition const_np (v : val) (n : Z) (f : option fn) : result obs :=
  '(dv, sv) <- np_array (const_encode v) ;;
  '(dv', sv') <- apply_fn f dv sv ;;
  if (n <? 0)%Z then Raise ValueError                 (* numpy.full: negative dimensions *)
  else match const_materialize sv' (Z.to_nat n) with
       | None => Raise ValueError
       | Some out => Ok (mkobs [sv; out] [] [dv; dv'])
       end.

(* FunctionColumn(binding, configuration, length): bindings used by the harness *)
Inductive binding := BFirst | BLast | BConstNull.
Definition binding_apply (b : binding) (cfg : list val) : val :=
  match b with
  | BFirst => hd VNull cfg
  | BLast => last cfg VNull
  | BConstNull => VNull
  end.

Definition func_np (b : binding) (cfg : list val) (n : Z) : result obs :=
  '(odt, out) <- np_array (func_materialize (binding_apply b) cfg n) ;;
  Ok (mkobs [out] [] [odt]).

(* ------------------------------------------------------------------ *)
(* comparison used by the correspondence                                *)
(* ------------------------------------------------------------------ *)
Fixpoint list_eqb {T : Type} (e : T -> T -> bool) (a b : list T) : bool :=
  match a, b with
  | [], [] => true
  | x :: r, y :: s => e x y && list_eqb e r s
  | _, _ => false
  end.

Definition obs_eqb (a b : obs) : bool :=
  list_eqb (list_eqb val_eqb) (o_vals a) (o_vals b) &&
  list_eqb (list_eqb Nat.eqb) (o_nats a) (o_nats b) &&
  list_eqb dtype_eqb (o_dts a) (o_dts b).

Definition res_eqb (a b : result obs) : bool :=
  match a, b with
  | Ok x, Ok y => obs_eqb x y
  | Raise e, Raise g => exn_eqb e g
  | _, _ => false
  end.

Definition c09_check_rle (c : list val * option fn * result obs) : bool :=
  let '(l, f, o) := c in res_eqb (rle_np l f) o.
Definition c09_show_rle (c : list val * option fn * result obs) := let '(l, f, o) := c in rle_np l f.

Definition c09_check_dict (c : list val * option fn * result obs) : bool :=
  let '(l, f, o) := c in res_eqb (dict_np l f) o.
Definition c09_show_dict (c : list val * option fn * result obs) := let '(l, f, o) := c in dict_np l f.

Definition c09_check_sparse (c : list val * val * option fn * result obs) : bool :=
  let '(l, d, f, o) := c in res_eqb (sparse_np l d f) o.
Definition c09_show_sparse (c : list val * val * option fn * result obs) := let '(l, d, f, o) := c in sparse_np l d f.

Definition c09_check_const (c : val * Z * option fn * result obs) : bool :=
  let '(v, n, f, o) := c in res_eqb (const_np v n f) o.
Definition c09_show_const (c : val * Z * option fn * result obs) := let '(v, n, f, o) := c in const_np v n f.

Definition c09_check_func (c : binding * list val * Z * result obs) : bool :=
  let '(b, cfg, n, o) := c in res_eqb (func_np b cfg n) o.
Definition c09_show_func (c : binding * list val * Z * result obs) := let '(b, cfg, n, o) := c in func_np b cfg n.

(* ------------------------------------------------------------------ *)
(* Part 4: sessions over several constant / function column OBJECTS     *)
(* ------------------------------------------------------------------ *)
(* State made explicit: the column objects created so far (each with its CURRENT binding /
   configuration / value, its current [length], and the size that was written into its declared
   type name, e.g. 20 for VARCHAR[20]) and the state of the one stateful binding the harness
   uses (a counter shared by the columns of a session).  A step creates a column, expands one,
   or rebinds a column's configuration / length.  What an expansion answers is computed from
   the CURRENT fields of that one column (and, for the counter, the number of calls so far):
   there is no memo, nothing is shared between columns, the declared size is not consulted. *)
Inductive sbinding := SPure (b : binding) | SCounter.
Inductive skind := KFunc (b : sbinding) (cfg : list val) | KConst (v : val).
Record scol := mkscol { sc_kind : skind; sc_len : Z; sc_decl : option N }.

Inductive sstep :=
| SNew (c : scol)                       (* Column(type=..., length=n, ...) *)
| SMat (i : nat)                        (* columns[i].materialize() *)
| SSetCfg (i : nat) (cfg : list val)    (* columns[i].configuration = cfg *)
| SSetLen (i : nat) (n : Z).            (* columns[i].length = n *)

Definition mat_only (r : result obs) : result (list val * dtype) :=
  match r with
  | Raise e => Raise e
  | Ok o => Ok (last (o_vals o) [], last (o_dts o) DObj)
  end.

(* one expansion: (answer, counter state afterwards) *)
Definition scol_mat (c : scol) (ticks : Z) : result (list val * dtype) * Z :=
  match sc_kind c with
  | KFunc (SPure b) cfg => (mat_only (func_np b cfg (sc_len c)), ticks)
  | KFunc SCounter _ => (mat_only (func_np BFirst [VInt ticks] (sc_len c)), (ticks + 1)%Z)
  | KConst v => (mat_only (const_np v (sc_len c) None), ticks)
  end.

Fixpoint set_col (i : nat) (f : scol -> scol) (cols : list scol) : list scol :=
  match cols, i with
  | [], _ => []
  | c :: r, O => f c :: r
  | c :: r, S j => c :: set_col j f r
  end.

Definition with_cfg (cfg : list val) (c : scol) : scol :=
  match sc_kind c with
  | KFunc b _ => mkscol (KFunc b cfg) (sc_len c) (sc_decl c)
  | KConst _ => c
  end.
Definition with_len (n : Z) (c : scol) : scol := mkscol (sc_kind c) n (sc_decl c).

Fixpoint sess_run (cols : list scol) (ticks : Z) (steps : list sstep) : list (result (list val * dtype)) :=
  match steps with
  | [] => []
  | SNew c :: r => sess_run (cols ++ [c]) ticks r
  | SMat i :: r => match nth_error cols i with
                   | None => [Raise Unmodelled]
                   | Some c => fst (scol_mat c ticks) :: sess_run cols (snd (scol_mat c ticks)) r
                   end
  | SSetCfg i cfg :: r => sess_run (set_col i (with_cfg cfg) cols) ticks r
  | SSetLen i n :: r => sess_run (set_col i (with_len n) cols) ticks r
  end.

(* forgetting the declared sizes *)
Definition erase_col (c : scol) : scol := mkscol (sc_kind c) (sc_len c) None.
Definition erase_step (s : sstep) : sstep := match s with SNew c => SNew (erase_col c) | _ => s end.
Definition pure_col (c : scol) : Prop := match sc_kind c with KFunc SCounter _ => False | _ => True end.

Definition res2_eqb (a b : result (list val * dtype)) : bool :=
  match a, b with
  | Ok (x, d), Ok (y, e) => list_eqb val_eqb x y && dtype_eqb d e
  | Raise e, Raise g => exn_eqb e g
  | _, _ => false
  end.

Definition c09_check_session (c : list sstep * list (result (list val * dtype))) : bool :=
  list_eqb res2_eqb (sess_run [] 0%Z (fst c)) (snd c).
Definition c09_show_session (c : list sstep * list (result (list val * dtype))) := sess_run [] 0%Z (fst c).

(* ------------------------------------------------------------------ *)
(* Part 5: what a column DECLARES next to its data                      *)
(* ------------------------------------------------------------------ *)
(* The descriptive constructor arguments that look like they could matter to an encoding: the size in the
   type name and the schema-level [default=] (FlatColumn.default - NOT the sparse [default_value]).
   SparseColumn(values=l, default_value=a, default=..., type=...): [a = None] is the argument left out;
   leaving it out is passing None, and nothing of the declaration is consulted. *)
Record decl := mkdecl { d_size : option N; d_default : option val }.

Definition sparse_default_arg (a : option val) : val := match a with None => VNull | Some v => v end.

Definition sparse_col_np (dc : decl) (a : option val) (l : list val) (f : option fn) : result obs :=
  sparse_np l (sparse_default_arg a) f.

Definition c09_check_sparse_decl (c : decl * option val * list val * option fn * result obs) : bool :=
  let '(dc, a, l, f, o) := c in res_eqb (sparse_col_np dc a l f) o.
Definition c09_show_sparse_decl (c : decl * option val * list val * option fn * result obs) :=
  let '(dc, a, l, f, o) := c in sparse_col_np dc a l f.

(* ------------------------------------------------------------------ *)
(* Part 6: scripts on ONE column object                                 *)
(* ------------------------------------------------------------------ *)
(* The object's state is its stored form (exactly the intermediate values of rle_np ... func_np).  Steps:
   expand; apply an element-wise function to the stored values (in place or by rebinding: the same new
   stored values); replace the object by a copy of it (copy.copy / copy.deepcopy / pickle round trip) or
   copy it and go on with the original: a copy is an equal, independent object, so the state is unchanged;
   change [length]; read an EARLIER expansion again: an expansion is a value the caller owns - it is what
   it was when it was returned, whatever happened to the column since. *)
Inductive stored :=
| StRle (dv : dtype) (sv : list val) (ls : list nat)
| StDict (dv : dtype) (u : list val) (codes : list nat)
| StSparse (dv : dtype) (vals : list val) (idx : list nat) (n : nat) (d : val)
| StConst (dv : dtype) (sv : list val) (n : Z)
| StFunc (b : binding) (cfg : list val) (n : Z).

Inductive colspec :=
| CRle (l : list val) | CDict (l : list val) | CSparse (l : list val) (d : val)
| CConst (v : val) (n : Z) | CFunc (b : binding) (cfg : list val) (n : Z).

Definition st_build (c : colspec) : result stored :=
  match c with
  | CRle l => let '(rv, ls) := rle_encode py_eqb l in '(dv, sv) <- np_array rv ;; Ok (StRle dv sv ls)
  | CDict l => '(dv, arr) <- np_array l ;;
               if dtype_eqb dv DObj && (2 <=? length arr) then Raise TypeError
               else let '(u, codes) := dict_encode dict_eqb dict_leb arr in Ok (StDict dv u codes)
  | CSparse l d => '(dv, arr) <- np_array l ;; _ <- np_cmp_guard dv d ;;
                   let '(idx, vals, n) := sparse_encode (np_neqb dv) arr d in Ok (StSparse dv vals idx n d)
  | CConst v n => '(dv, sv) <- np_array (const_encode v) ;; Ok (StConst dv sv n)
  | CFunc b cfg n => Ok (StFunc b cfg n)
  end.

Definition st_expand (s : stored) : result (list val * dtype) :=
  match s with
  | StRle dv sv ls => '(odt, out) <- np_array (rle_decode sv ls) ;; Ok (out, odt)
  | StDict dv u codes => match gather u codes with None => Raise IndexError | Some out => Ok (out, dv) end
  | StSparse dv vals idx n d =>
      dt <- mat_dtype dv d ;; fill <- np_cast dt d ;; vals' <- mapM (np_cast dt) vals ;;
      Ok (sparse_materialize (idx, vals', n) fill, dt)
  | StConst dv sv n => if (n <? 0)%Z then Raise ValueError
                       else match const_materialize sv (Z.to_nat n) with None => Raise ValueError | Some out => Ok (out, dv) end
  | StFunc b cfg n => mat_only (func_np b cfg n)
  end.

Definition st_fn (f : fn) (s : stored) : result stored :=
  match s with
  | StRle dv sv ls => '(dv', sv') <- apply_fn (Some f) dv sv ;; Ok (StRle dv' sv' ls)
  | StDict dv u codes => '(dv', u') <- apply_fn (Some f) dv u ;; Ok (StDict dv' u' codes)
  | StSparse dv vals idx n d => '(dv', vals') <- apply_fn (Some f) dv vals ;; Ok (StSparse dv' vals' idx n d)
  | StConst dv sv n => '(dv', sv') <- apply_fn (Some f) dv sv ;; Ok (StConst dv' sv' n)
  | StFunc _ _ _ => Raise Unmodelled
  end.

Definition st_len (n : Z) (s : stored) : stored :=
  match s with StConst dv sv _ => StConst dv sv n | StFunc b cfg _ => StFunc b cfg n | _ => s end.

Inductive kstep := KMat | KFn (f : fn) | KCopy | KLen (n : Z) | KReread (k : nat).

Fixpoint script_run (s : stored) (hist : list (result (list val * dtype))) (steps : list kstep)
  : list (result (list val * dtype)) :=
  match steps with
  | [] => []
  | KMat :: r => match st_expand s with
                 | Raise e => [Raise e]
                 | Ok o => Ok o :: script_run s (hist ++ [Ok o]) r
                 end
  | KFn f :: r => match st_fn f s with Raise e => [Raise e] | Ok s' => script_run s' hist r end
  | KCopy :: r => script_run s hist r
  | KLen n :: r => script_run (st_len n s) hist r
  | KReread k :: r => nth k hist (Raise Unmodelled) :: script_run s hist r
  end.

Definition script_np (c : colspec) (steps : list kstep) : list (result (list val * dtype)) :=
  match st_build c with Raise e => [Raise e] | Ok s => script_run s [] steps end.

(* the single-step shape: build, (function on the stored values,) expand *)
Definition one_fn (f : option fn) : list kstep := match f with Some g => [KFn g; KMat] | None => [KMat] end.

Definition not_copy (k : kstep) : bool := match k with KCopy => false | _ => true end.

Definition c09_check_script (c : colspec * list kstep * list (result (list val * dtype))) : bool :=
  let '(spec, steps, o) := c in list_eqb res2_eqb (script_np spec steps) o.
Definition c09_show_script (c : colspec * list kstep * list (result (list val * dtype))) :=
  let '(spec, steps, o) := c in script_np spec steps.
