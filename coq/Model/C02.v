(* C02 - executable model of "dictionary records map onto rows by field name".
   No proofs here: this file must keep running when a proof breaks.

   Modelled source (line numbers of /repo at the time of writing):
     orso/compute/compiled.pyx 74-99   extract_dict_columns(data, fields): per field PyDict_GetItem, None when absent
     orso/row.py 77-93                 Row.__new__: a dict goes through extract_dict_columns(data, cls._fields)
     orso/row.py 95-98                 Row.get(item, default=None)
     orso/row.py 100-126               as_map = tuple(zip(_fields, self)); as_dict = dict(as_map); values; keys
     orso/row.py 178-186               as_json = orjson.dumps(as_dict, default=str)   (as the association it encodes)
     orso/dataframe.py 64-87           DataFrame(dictionaries): columns from the first dictionary, one row per dictionary
     orso/dataframe.py 136-143         DataFrame.append(entry) through the row factory (names-only schema: no validation)

   A Python dictionary is an association list in insertion order; well-formed dictionaries have
   pairwise different keys (NoDup (map fst d)) - that is a hypothesis of the theorems that need it,
   the functions themselves are total on every list.  Keys and values are abstract; keys have a
   decidable equality (Python: str.__eq__/hash), and [vnone] is the value Python calls None. *)
From Coq Require Import List NArith ZArith Bool.
Import ListNotations.

Inductive exn := IndexError | ValueError | TypeError | KeyError | StopIteration | AttributeError | OtherError.

Inductive result (A : Type) :=
| Ok (a : A)
| Raise (e : exn).
Arguments Ok {A}. Arguments Raise {A}.

Section Dict.
Variables K V : Type.
Variable eqK : forall a b : K, {a = b} + {a <> b}.
Variable vnone : V.

Definition dict := list (K * V).

(* PyDict_GetItem / dict.get: the value stored under an equal key, if any *)
Fixpoint lookup (k : K) (d : dict) : option V :=
  match d with
  | [] => None
  | (k', v) :: r => if eqK k k' then Some v else lookup k r
  end.

(* data.get(k, None)  /  "value_ptr != NULL ? value : None" *)
Definition get_or_none (d : dict) (k : K) : V :=
  match lookup k d with Some v => v | None => vnone end.

(* extract_dict_columns(data, fields) : one cell per field, in field order *)
Definition extract (fields : list K) (d : dict) : list V := map (get_or_none d) fields.

Definition dict_keys (d : dict) : list K := map fst d.

(* ---- DataFrame(dictionaries) : (column names, rows) ---- *)
Definition frame := (list K * list (list V))%type.

(* first_dict = next(dicts, None); keys = list((first_dict or {}).keys());
   rows = [factory([row.get(k, None) for k in keys]) for row in chain([first_dict] if any, dicts)] *)
Definition frame_of_dicts (ds : list dict) : frame :=
  let keys := match ds with [] => [] | d :: _ => dict_keys d end in
  (keys, map (extract keys) ds).

(* DataFrame(rows=[...], schema=names) ; append(dict) = rows.append(factory(dict)), factory = Row(dict) *)
Definition frame_append (f : frame) (d : dict) : frame :=
  (fst f, snd f ++ [extract (fst f) d]).

Definition frame_appends (f : frame) (ds : list dict) : frame := fold_left frame_append ds f.

(* ---- the views of a row of class fields ---- *)
(* tuple(zip(self._fields, self)) : zip stops at the shorter *)
Definition as_map (fields : list K) (row : list V) : list (K * V) := combine fields row.

(* d[k] = v on an insertion-ordered dictionary: overwrite in place, else append *)
Fixpoint dict_set (k : K) (v : V) (d : dict) : dict :=
  match d with
  | [] => [(k, v)]
  | (k', v') :: r => if eqK k k' then (k', v) :: r else (k', v') :: dict_set k v r
  end.

(* dict(pairs) *)
Definition dict_of_list (l : list (K * V)) : dict :=
  fold_left (fun d kv => dict_set (fst kv) (snd kv) d) l [].

Definition as_dict (fields : list K) (row : list V) : dict := dict_of_list (as_map fields row).

Definition row_values (row : list V) : list V := row.
Definition row_keys (fields : list K) : list K := fields.

(* orjson.dumps(as_dict, default=str), read back as the sequence of (name, encoded value) members;
   [jenc] is the JSON rendering of one value *)
Definition as_json (J : Type) (jenc : V -> J) (fields : list K) (row : list V) : list (K * J) :=
  map (fun kv => (fst kv, jenc (snd kv))) (as_dict fields row).

(* tuple.index *)
Fixpoint index_of (k : K) (l : list K) : option nat :=
  match l with
  | [] => None
  | x :: r => if eqK k x then Some 0 else match index_of k r with Some i => Some (S i) | None => None end
  end.

(* Row.get: "if item not in self._fields: return default; return self[self._fields.index(item)]" *)
Definition row_get (fields : list K) (row : list V) (name : K) (default : V) : result V :=
  match index_of name fields with
  | None => Ok default
  | Some i => match nth_error row i with Some v => Ok v | None => Raise IndexError end
  end.

End Dict.

Arguments lookup {K V}. Arguments get_or_none {K V}. Arguments extract {K V}. Arguments dict_keys {K V}.
Arguments frame_of_dicts {K V}. Arguments frame_append {K V}. Arguments frame_appends {K V}.
Arguments as_map {K V}. Arguments dict_set {K V}. Arguments dict_of_list {K V}. Arguments as_dict {K V}.
Arguments row_values {V}. Arguments row_keys {K}. Arguments as_json {K V} eqK {J}. Arguments index_of {K}.
Arguments row_get {K V}.

(* ================= instance used by the correspondence =================
   names are texts (lists of code points, compared code point by code point like str.__eq__),
   values are identified by integers: 0 is None, n > 0 the n-th distinct value of the case. *)
Definition key := list N.
Definition key_dec : forall a b : key, {a = b} + {a <> b} := list_eq_dec N.eq_dec.

Fixpoint list_eqb {A : Type} (e : A -> A -> bool) (a b : list A) : bool :=
  match a, b with
  | [], [] => true
  | x :: r, y :: s => e x y && list_eqb e r s
  | _, _ => false
  end.

Definition key_eqb (a b : key) : bool := list_eqb N.eqb a b.
Definition pair_eqb (a b : key * Z) : bool := key_eqb (fst a) (fst b) && Z.eqb (snd a) (snd b).
Definition row_eqb (a b : list Z) : bool := list_eqb Z.eqb a b.

Definition exn_eqb (a b : exn) : bool :=
  match a, b with
  | IndexError, IndexError | ValueError, ValueError | TypeError, TypeError | KeyError, KeyError
  | StopIteration, StopIteration | AttributeError, AttributeError | OtherError, OtherError => true
  | _, _ => false
  end.

Definition result_eqb {A : Type} (e : A -> A -> bool) (a b : result A) : bool :=
  match a, b with
  | Ok x, Ok y => e x y
  | Raise x, Raise y => exn_eqb x y
  | _, _ => false
  end.

(* JSON class of a value id, from the table the harness measured with orjson; -2 = not in the table *)
Fixpoint jenc_of (tbl : list (Z * Z)) (v : Z) : Z :=
  match tbl with
  | [] => (-2)%Z
  | (a, b) :: r => if Z.eqb v a then b else jenc_of r v
  end.

Definition zdict := list (key * Z).

Definition c02_extract := extract key_dec 0%Z.

(* ---- stream "row": one field list, one dictionary (and its reversed insertion order) ---- *)
Record row_case := RowCase {
  rc_fields : list key;
  rc_dict : zdict;
  rc_lookups : list (key * option Z);       (* looked-up name, default (None = argument omitted) *)
  rc_jtable : list (Z * Z);
  ro_row : result (list Z);                 (* Row.create_class(fields)(dict) *)
  ro_row_rev : result (list Z);             (* the same dictionary inserted in reverse order *)
  ro_append : result (list (list Z));       (* DataFrame(rows=[], schema=fields).append(dict) -> rows *)
  ro_as_map : result (list (key * Z));
  ro_as_dict : result (list (key * Z));     (* items() in dictionary order *)
  ro_values : result (list Z);
  ro_keys : result (list key);
  ro_as_json : result (list (key * Z));     (* members in document order, values as JSON classes *)
  ro_get : list (result Z)
}.

Definition row_model (c : row_case) :=
  let fields := rc_fields c in
  let row := c02_extract fields (rc_dict c) in
  (row,
   c02_extract fields (rev (rc_dict c)),
   snd (frame_append key_dec 0%Z (fields, []) (rc_dict c)),
   as_map fields row,
   as_dict key_dec fields row,
   (row_values row, row_keys fields),
   as_json key_dec (jenc_of (rc_jtable c)) fields row,
   map (fun l => row_get key_dec fields row (fst l) (match snd l with Some dflt => dflt | None => 0%Z end))
       (rc_lookups c)).

Definition c02_row_check (c : row_case) : bool :=
  let '(row, row_rev, app, amap, adict, (vals, keys), ajson, gets) := row_model c in
  result_eqb row_eqb (ro_row c) (Ok row) &&
  result_eqb row_eqb (ro_row_rev c) (Ok row_rev) &&
  result_eqb (list_eqb row_eqb) (ro_append c) (Ok app) &&
  result_eqb (list_eqb pair_eqb) (ro_as_map c) (Ok amap) &&
  result_eqb (list_eqb pair_eqb) (ro_as_dict c) (Ok adict) &&
  result_eqb row_eqb (ro_values c) (Ok vals) &&
  result_eqb (list_eqb key_eqb) (ro_keys c) (Ok keys) &&
  result_eqb (list_eqb pair_eqb) (ro_as_json c) (Ok ajson) &&
  list_eqb (result_eqb Z.eqb) (ro_get c) gets.

Definition c02_row_show (c : row_case) := row_model c.

(* ---- stream "frame": DataFrame(dicts), then append(dict) for each further dictionary ---- *)
Record frame_case := FrameCase {
  fc_dicts : list zdict;
  fc_appends : list zdict;
  fo_columns : result (list key);                    (* column_names after construction *)
  fo_rows : result (list (list Z));                  (* rows after construction *)
  fo_columns_after : result (list key);              (* after the appends *)
  fo_rows_after : result (list (list Z));
  fo_dicts_after : result (list (list (key * Z)))    (* [r.as_dict for r in df] after the appends *)
}.

Definition frame_model (c : frame_case) :=
  let f0 := frame_of_dicts key_dec 0%Z (fc_dicts c) in
  let f1 := frame_appends key_dec 0%Z f0 (fc_appends c) in
  (f0, f1, map (as_dict key_dec (fst f1)) (snd f1)).

Definition c02_frame_check (c : frame_case) : bool :=
  let '(f0, f1, ds) := frame_model c in
  result_eqb (list_eqb key_eqb) (fo_columns c) (Ok (fst f0)) &&
  result_eqb (list_eqb row_eqb) (fo_rows c) (Ok (snd f0)) &&
  result_eqb (list_eqb key_eqb) (fo_columns_after c) (Ok (fst f1)) &&
  result_eqb (list_eqb row_eqb) (fo_rows_after c) (Ok (snd f1)) &&
  result_eqb (list_eqb (list_eqb pair_eqb)) (fo_dicts_after c) (Ok ds).

Definition c02_frame_show (c : frame_case) := frame_model c.

(* ================= sessions: several row classes and frames alive in one process =================
   Row.create_class(fields, tuples_only) (row.py 193-216) returns a fresh class whose behaviour is fixed by its
   own arguments; DataFrame.from_arrow (converters.py 88-126) creates a tuples-only class for the table's
   columns; DataFrame(dicts) / DataFrame(rows=[], schema=names) create a dictionary-aware class for theirs.
   A session is a history of such creations and of uses of the handles created so far.  Handles are
   positions in creation order (classes, frames and rows are numbered separately). *)
Section Session.
Variables K V : Type.
Variable eqK : forall a b : K, {a = b} + {a <> b}.
Variable vnone : V.

Record sstate := SState {
  s_classes : list (list K * bool);                   (* (fields, tuples_only) *)
  s_frames : list (bool * (list K * list (list V)));  (* (takes dictionaries by name?, (columns, rows)) *)
  s_rows : list (list K * list V)                     (* (fields of the row's class, cells) *)
}.

Definition s_init : sstate := SState [] [] [].

Inductive sop :=
| SClass (fields : list K) (tuples_only : bool)   (* Row.create_class(fields, tuples_only)      -> new class handle *)
| SArrow (cols : list K) (rows : list (list V))   (* DataFrame.from_arrow(table)                 -> new frame handle *)
| SFrame (ds : list (list (K * V)))               (* DataFrame(dicts)                            -> new frame handle *)
| SNamed (cols : list K)                          (* DataFrame(rows=[], schema=cols)             -> new frame handle *)
| SRowDict (c : nat) (d : list (K * V))           (* class c applied to a dictionary             -> new row handle *)
| SRowTuple (c : nat) (cells : list V)            (* class c applied to a tuple                  -> new row handle *)
| SAppend (f : nat) (d : list (K * V))            (* frame f .append(dictionary) *)
| SRows (f : nat)                                 (* read column_names and the rows of frame f *)
| SView (r : nat)                                 (* read keys / cells / as_dict of row r again *)
| SReframe (f : nat) (cols : list K)              (* DataFrame(rows=list(frame f), schema=cols): the Row objects of
                                                     frame f under a column list of its own  -> new frame handle *)
| SDerive (f : nat) (n : nat).                    (* frame f .head(n) / .slice(0, n) / .query(always true): a frame over the
                                                     first n Row objects of frame f, same columns -> new frame handle.
                                                     It takes dictionaries (if frame f came from Arrow only ones that pass
                                                     its schema's validation, which the harness guarantees) *)

Inductive sout :=
| SOClass
| SOFrame (cols : list K) (rows : list (list V))
| SORow (fields : list K) (cells : list V) (asdict : list (K * V))
| SOSkip                                          (* not a call this property speaks about (bad handle,
                                                     dictionary to a tuples-only class or to an Arrow frame) *)
| SORaise (e : exn).                              (* never produced by the model: the call raised *)

Fixpoint set_nth {A : Type} (l : list A) (i : nat) (x : A) : list A :=
  match l, i with
  | [], _ => []
  | _ :: r, O => x :: r
  | y :: r, S j => y :: set_nth r j x
  end.

Definition row_out (fr : list K * list V) : sout :=
  SORow (fst fr) (snd fr) (as_dict eqK (fst fr) (snd fr)).

Definition sstep (s : sstate) (o : sop) : sstate * sout :=
  match o with
  | SClass fs t => (SState (s_classes s ++ [(fs, t)]) (s_frames s) (s_rows s), SOClass)
  | SArrow cols rows => (SState (s_classes s) (s_frames s ++ [(false, (cols, rows))]) (s_rows s), SOFrame cols rows)
  | SFrame ds =>
      let f := frame_of_dicts eqK vnone ds in
      (SState (s_classes s) (s_frames s ++ [(true, f)]) (s_rows s), SOFrame (fst f) (snd f))
  | SNamed cols => (SState (s_classes s) (s_frames s ++ [(true, (cols, []))]) (s_rows s), SOFrame cols [])
  | SRowDict c d =>
      match nth_error (s_classes s) c with
      | Some (fs, false) =>
          let fr := (fs, extract eqK vnone fs d) in
          (SState (s_classes s) (s_frames s) (s_rows s ++ [fr]), row_out fr)
      | _ => (s, SOSkip)
      end
  | SRowTuple c cells =>
      match nth_error (s_classes s) c with
      | Some (fs, _) =>
          let fr := (fs, cells) in
          (SState (s_classes s) (s_frames s) (s_rows s ++ [fr]), row_out fr)
      | None => (s, SOSkip)
      end
  | SAppend f d =>
      match nth_error (s_frames s) f with
      | Some (true, fr) =>
          let fr' := frame_append eqK vnone fr d in
          (SState (s_classes s) (set_nth (s_frames s) f (true, fr')) (s_rows s), SOFrame (fst fr') (snd fr'))
      | _ => (s, SOSkip)
      end
  | SRows f =>
      match nth_error (s_frames s) f with
      | Some (_, fr) => (s, SOFrame (fst fr) (snd fr))
      | None => (s, SOSkip)
      end
  | SView r =>
      match nth_error (s_rows s) r with
      | Some fr => (s, row_out fr)
      | None => (s, SOSkip)
      end
  | SReframe f cols =>
      match nth_error (s_frames s) f with
      | Some (_, fr) =>
          (SState (s_classes s) (s_frames s ++ [(true, (cols, snd fr))]) (s_rows s), SOFrame cols (snd fr))
      | None => (s, SOSkip)
      end
  | SDerive f n =>
      match nth_error (s_frames s) f with
      | Some (_, fr) =>
          (SState (s_classes s) (s_frames s ++ [(true, (fst fr, firstn n (snd fr)))]) (s_rows s),
           SOFrame (fst fr) (firstn n (snd fr)))
      | None => (s, SOSkip)
      end
  end.

Fixpoint srun (s : sstate) (ops : list sop) : sstate * list sout :=
  match ops with
  | [] => (s, [])
  | o :: r => let '(s1, x) := sstep s o in
              let '(s2, xs) := srun s1 r in (s2, x :: xs)
  end.

End Session.

Arguments SState {K V}. Arguments s_classes {K V}. Arguments s_frames {K V}. Arguments s_rows {K V}.
Arguments s_init {K V}.
Arguments SClass {K V}. Arguments SArrow {K V}. Arguments SFrame {K V}. Arguments SNamed {K V}.
Arguments SRowDict {K V}. Arguments SRowTuple {K V}. Arguments SAppend {K V}. Arguments SRows {K V}.
Arguments SView {K V}. Arguments SReframe {K V}. Arguments SDerive {K V}.
Arguments SOClass {K V}. Arguments SOFrame {K V}. Arguments SORow {K V}. Arguments SOSkip {K V}.
Arguments SORaise {K V}.
Arguments row_out {K V}. Arguments sstep {K V}. Arguments srun {K V}.

Definition sout_eqb (a b : sout key Z) : bool :=
  match a, b with
  | SOClass, SOClass => true
  | SOFrame c1 r1, SOFrame c2 r2 => list_eqb key_eqb c1 c2 && list_eqb row_eqb r1 r2
  | SORow f1 c1 d1, SORow f2 c2 d2 => list_eqb key_eqb f1 f2 && row_eqb c1 c2 && list_eqb pair_eqb d1 d2
  | SOSkip, SOSkip => true
  | SORaise x, SORaise y => exn_eqb x y
  | _, _ => false
  end.

(* stream "session": (history, what each call returned on the implementation) *)
Definition c02_session_show (c : list (sop key Z) * list (sout key Z)) : list (sout key Z) :=
  snd (srun key_dec 0%Z s_init (fst c)).

Definition c02_session_check (c : list (sop key Z) * list (sout key Z)) : bool :=
  list_eqb sout_eqb (c02_session_show c) (snd c).

(* ================= the object that delivers the dictionaries =================
   DataFrame(dictionaries) (dataframe.py 71-87) does   dicts = iter(dictionaries); first = next(dicts, None);
   rows from chain([first] if there was one, dicts).   What that reads depends on the iteration protocol of the
   object handed over, which has state of its own:
     - a container (list, tuple, dict view) hands out a fresh iterator that starts at the beginning every time
       and reading it consumes nothing                                             [src_rewinds = true];
     - a one-shot iterator (generator, list iterator, map) is its own iterator; a reader over read-once state
       (open file, queue drain) or a wrapper round a stored generator hands out iterator objects that all
       advance the same position                                                   [src_rewinds = false].
   The caller may have read from the object before and may use it again afterwards. *)
Section Source.
Variables K V : Type.
Variable eqK : forall a b : K, {a = b} + {a <> b}.
Variable vnone : V.

Record source := Source {
  src_items : list (list (K * V));     (* everything the object was made to deliver *)
  src_pos : nat;                       (* shared read position (one-shot / read-once objects) *)
  src_rewinds : bool
}.

Inductive cursor :=                    (* what iter(source) returns *)
| CPrivate (pos : nat)                 (* an iterator with a position of its own *)
| CShared.                             (* an iterator advancing the object's position *)

Definition src_iter (s : source) : cursor := if src_rewinds s then CPrivate 0 else CShared.

(* next(cursor, None) *)
Definition cur_next (s : source) (c : cursor) : option (list (K * V)) * source * cursor :=
  match c with
  | CPrivate p => (nth_error (src_items s) p, s, CPrivate (S p))
  | CShared =>
      match nth_error (src_items s) (src_pos s) with
      | Some d => (Some d, Source (src_items s) (S (src_pos s)) (src_rewinds s), CShared)
      | None => (None, s, CShared)
      end
  end.

(* "for row in cursor": fuel = an upper bound on what can still come *)
Fixpoint cur_drain (fuel : nat) (s : source) (c : cursor) : list (list (K * V)) * source :=
  match fuel with
  | O => ([], s)
  | S n =>
      match cur_next s c with
      | (Some d, s1, c1) => let '(l, s2) := cur_drain n s1 c1 in (d :: l, s2)
      | (None, s1, _) => ([], s1)
      end
  end.

(* DataFrame(source): one iter(), one next(), then the same iterator to its end *)
Definition frame_from_source (s : source) : (list K * list (list V)) * source :=
  let '(first, s1, c1) := cur_next s (src_iter s) in
  let '(rest, s2) := cur_drain (length (src_items s)) s1 c1 in
  (frame_of_dicts eqK vnone (match first with Some d => d :: rest | None => rest end), s2).

(* what one pass over the object delivers now *)
Definition src_pending (s : source) : list (list (K * V)) :=
  if src_rewinds s then src_items s else skipn (src_pos s) (src_items s).

Inductive src_op :=
| SrcNext          (* the caller reads one record:  next(iter(obj), None) *)
| SrcList          (* the caller reads what is left: list(obj) *)
| SrcFrame.        (* DataFrame(obj) *)

Inductive src_out :=
| SrcItem (d : option (list (K * V)))
| SrcItems (l : list (list (K * V)))
| SrcFrameOut (cols : list K) (rows : list (list V))
| SrcRaise (e : exn).                  (* never produced by the model *)

Definition src_step (s : source) (o : src_op) : source * src_out :=
  match o with
  | SrcNext => let '(d, s1, _) := cur_next s (src_iter s) in (s1, SrcItem d)
  | SrcList => let '(l, s1) := cur_drain (length (src_items s)) s (src_iter s) in (s1, SrcItems l)
  | SrcFrame => let '(f, s1) := frame_from_source s in (s1, SrcFrameOut (fst f) (snd f))
  end.

Fixpoint src_run (s : source) (ops : list src_op) : source * list src_out :=
  match ops with
  | [] => (s, [])
  | o :: r => let '(s1, x) := src_step s o in
              let '(s2, xs) := src_run s1 r in (s2, x :: xs)
  end.

End Source.

Arguments Source {K V}. Arguments src_items {K V}. Arguments src_pos {K V}. Arguments src_rewinds {K V}.
Arguments src_iter {K V}. Arguments cur_next {K V}. Arguments cur_drain {K V}. Arguments frame_from_source {K V}.
Arguments src_pending {K V}. Arguments SrcItem {K V}. Arguments SrcItems {K V}. Arguments SrcFrameOut {K V}.
Arguments SrcRaise {K V}. Arguments src_step {K V}. Arguments src_run {K V}.

Definition zdict_eqb (a b : zdict) : bool := list_eqb pair_eqb a b.

Definition src_out_eqb (a b : src_out key Z) : bool :=
  match a, b with
  | SrcItem None, SrcItem None => true
  | SrcItem (Some x), SrcItem (Some y) => zdict_eqb x y
  | SrcItems x, SrcItems y => list_eqb zdict_eqb x y
  | SrcFrameOut c1 r1, SrcFrameOut c2 r2 => list_eqb key_eqb c1 c2 && list_eqb row_eqb r1 r2
  | SrcRaise x, SrcRaise y => exn_eqb x y
  | _, _ => false
  end.

(* stream "source": (rewinds?, records, history, what each call returned on the implementation) *)
Definition c02_source_show (c : bool * list zdict * list src_op * list (src_out key Z)) : list (src_out key Z) :=
  let '(rw, ds, ops, _) := c in snd (src_run key_dec 0%Z (Source ds 0 rw) ops).

Definition c02_source_check (c : bool * list zdict * list src_op * list (src_out key Z)) : bool :=
  list_eqb src_out_eqb (c02_source_show c) (snd c).

(* ================= lazily produced records =================
   When the dictionaries come from a generator the producer runs between the constructor's reads and still
   holds the record objects it has handed over: it may annotate the previous record, refill one buffer
   dictionary for every record, or delete a key.  The constructor (dataframe.py 74-87) fixes the columns from a
   copy of the first record's keys taken when that record is read (list(first_dict.keys())) and builds each
   row when its record is read.  A producer is a list of actions over numbered record objects. *)
Section Producer.
Variables K V : Type.
Variable eqK : forall a b : K, {a = b} + {a <> b}.
Variable vnone : V.

Inductive pact :=
| PNew (d : list (K * V))              (* a new record object; its handle is the number of objects so far *)
| PSet (r : nat) (k : K) (v : V)       (* record r [k] = v *)
| PDel (r : nat) (k : K)               (* record r .pop(k, None) *)
| PYield (r : nat).                    (* hand record object r to the consumer *)

Definition dict_del (k : K) (d : list (K * V)) : list (K * V) :=
  filter (fun kv => if eqK k (fst kv) then false else true) d.

Fixpoint upd_nth {A : Type} (l : list A) (i : nat) (f : A -> A) : list A :=
  match l, i with
  | [], _ => []
  | x :: r, O => f x :: r
  | x :: r, S j => x :: upd_nth r j f
  end.

Definition pstore_step (st : list (list (K * V))) (a : pact) : list (list (K * V)) :=
  match a with
  | PNew d => st ++ [d]
  | PSet r k v => upd_nth st r (dict_set eqK k v)
  | PDel r k => upd_nth st r (dict_del k)
  | PYield _ => st
  end.

(* what the consumer is handed: each yielded record as it is at the moment it is yielded *)
Fixpoint delivered (st : list (list (K * V))) (acts : list pact) : list (list (K * V)) :=
  match acts with
  | [] => []
  | PYield r :: rest =>
      match nth_error st r with
      | Some d => d :: delivered st rest
      | None => delivered st rest
      end
  | a :: rest => delivered (pstore_step st a) rest
  end.

(* the constructor reading lazily: rows are built as the records arrive, against the key list copied from the
   first record when it was read *)
Fixpoint lazy_rows (keys : list K) (st : list (list (K * V))) (acts : list pact) : list (list V) :=
  match acts with
  | [] => []
  | PYield r :: rest =>
      match nth_error st r with
      | Some d => extract eqK vnone keys d :: lazy_rows keys st rest
      | None => lazy_rows keys st rest
      end
  | a :: rest => lazy_rows keys (pstore_step st a) rest
  end.

Fixpoint frame_from_producer (st : list (list (K * V))) (acts : list pact) : list K * list (list V) :=
  match acts with
  | [] => ([], [])
  | PYield r :: rest =>
      match nth_error st r with
      | Some d => let keys := dict_keys d in (keys, extract eqK vnone keys d :: lazy_rows keys st rest)
      | None => frame_from_producer st rest
      end
  | a :: rest => frame_from_producer (pstore_step st a) rest
  end.

End Producer.

Arguments PNew {K V}. Arguments PSet {K V}. Arguments PDel {K V}. Arguments PYield {K V}.
Arguments dict_del {K V}. Arguments pstore_step {K V}. Arguments delivered {K V}. Arguments lazy_rows {K V}. Arguments frame_from_producer {K V}.

(* stream "producer": (actions, observed columns, rows, [r.as_dict for r in frame]) *)
Definition c02_producer_show (c : list (pact key Z) * result (list key * list (list Z) * list (list (key * Z)))) :=
  let f := frame_from_producer key_dec 0%Z [] (fst c) in
  (fst f, snd f, map (as_dict key_dec (fst f)) (snd f)).

Definition c02_producer_check (c : list (pact key Z) * result (list key * list (list Z) * list (list (key * Z)))) : bool :=
  let '(cols, rows, ds) := c02_producer_show c in
  match snd c with
  | Ok (ocols, orows, ods) =>
      list_eqb key_eqb ocols cols && list_eqb row_eqb orows rows && list_eqb (list_eqb pair_eqb) ods ds
  | Raise _ => false
  end.

(* ================= dictionaries whose keys are not all strings =================
   DataFrame(dictionaries) (dataframe.py 79-87) names the columns  [str(k) for k in first_dict]  but extracts with
   the key OBJECTS of the first dictionary:  keys = list(first_dict.keys());  row.get(k, None) for k in keys.
   So a value stored under 1, (x, 1), None, b'k' or a date stays in its column, and the keys 1 and '1' of one
   dictionary give two columns both named '1' that hold their own values.  append(dict) afterwards goes through the
   row factory, whose fields are the column NAMES (strings): a key object matches a column only if it is that string.
   An entry of a keyed dictionary is ((key object, str(key object)), value): lookups compare key objects, names
   only label columns.  [inj name] is the key object that the string [name] is. *)
Section Keyed.
Variables PK K V : Type.
Variable eqPK : forall a b : PK, {a = b} + {a <> b}.
Variable vnone : V.
Variable inj : K -> PK.

Definition kdict := list ((PK * K) * V).

(* the dictionary as Python sees it: key object -> value *)
Definition kd_ident (d : kdict) : list (PK * V) := map (fun e => (fst (fst e), snd e)) d.
(* the key objects, and their str() *)
Definition kd_objs (d : kdict) : list PK := map (fun e => fst (fst e)) d.
Definition kd_names (d : kdict) : list K := map (fun e => snd (fst e)) d.

Definition keyed_frame (ds : list kdict) : list K * list (list V) :=
  let first := match ds with [] => [] | d :: _ => d end in
  (kd_names first, map (fun d => extract eqPK vnone (kd_objs first) (kd_ident d)) ds).

(* append(dict): the row factory looks the column names up as strings *)
Definition keyed_append (f : list K * list (list V)) (d : kdict) : list K * list (list V) :=
  (fst f, snd f ++ [extract eqPK vnone (map inj (fst f)) (kd_ident d)]).

Definition keyed_appends (f : list K * list (list V)) (ds : list kdict) := fold_left keyed_append ds f.

(* a dictionary with string keys only, as a keyed dictionary *)
Definition kd_of_dict (d : list (K * V)) : kdict := map (fun kv => ((inj (fst kv), fst kv), snd kv)) d.

End Keyed.

Arguments kd_ident {PK K V}. Arguments kd_objs {PK K V}. Arguments kd_names {PK K V}.
Arguments keyed_frame {PK K V}. Arguments keyed_append {PK K V}. Arguments keyed_appends {PK K V}.
Arguments kd_of_dict {PK K V}.

(* key objects of the correspondence.  Equality is Python's ==/hash on dictionary keys: bool, int and integral
   floats are one number (True == 1 == 1.0); str, bytes and None are only equal to themselves; every other
   hashable (tuple, date, non-integral float, frozenset) is numbered per case by the harness with Python's own
   equality. *)
Inductive pkey :=
| PKStr (s : list N)
| PKNum (z : Z)
| PKNone
| PKBytes (b : list N)
| PKObj (class : N).

Definition pkey_dec : forall a b : pkey, {a = b} + {a <> b}.
Proof.
  decide equality; try apply (list_eq_dec N.eq_dec); try apply Z.eq_dec; apply N.eq_dec.
Defined.

Definition zkdict := list ((pkey * key) * Z).

Record keyed_case := KeyedCase {
  kc_dicts : list zkdict;
  kc_appends : list zkdict;
  ko_columns : result (list key);
  ko_rows : result (list (list Z));
  ko_columns_after : result (list key);
  ko_rows_after : result (list (list Z));
  ko_dicts_after : result (list (list (key * Z)))
}.

Definition keyed_model (c : keyed_case) :=
  let f0 := keyed_frame pkey_dec 0%Z (kc_dicts c) in
  let f1 := keyed_appends pkey_dec 0%Z PKStr f0 (kc_appends c) in
  (f0, f1, map (as_dict key_dec (fst f1)) (snd f1)).

Definition c02_keyed_check (c : keyed_case) : bool :=
  let '(f0, f1, ds) := keyed_model c in
  result_eqb (list_eqb key_eqb) (ko_columns c) (Ok (fst f0)) &&
  result_eqb (list_eqb row_eqb) (ko_rows c) (Ok (snd f0)) &&
  result_eqb (list_eqb key_eqb) (ko_columns_after c) (Ok (fst f1)) &&
  result_eqb (list_eqb row_eqb) (ko_rows_after c) (Ok (snd f1)) &&
  result_eqb (list_eqb (list_eqb pair_eqb)) (ko_dicts_after c) (Ok ds).

Definition c02_keyed_show (c : keyed_case) := keyed_model c.
