(* C05 - executable model of RelationSchema.validate (orso/schema.py:677-725), of the
   table lookup / isinstance test it performs (orso/types.py ORSO_TO_PYTHON_MAP, regenerated
   into Gen/C05_Types.v) and of DataFrame.append (orso/dataframe.py:136-143; Row.__new__ row.py:77-98,
   Row.nbytes row.py:144-147) together with the three ways a frame is created (dataframe.py:37-93).  No proofs here.

   Values are abstracted to  None | object of exact class [cls] with identity [id] and a
   flag saying whether Row.nbytes (msgpack) can serialise it.  [isinstance v C] is
   [issubclass (type v) C], read from the regenerated matrix.  Column names / keys are
   numbers.  A record is the association list of a str-keyed mapping (distinct keys). *)
From Coq Require Import List NArith ZArith Bool.
From Orso Require Import Gen.C05_Types.
Import ListNotations.

Definition key := N.

Inductive value :=
| VNone
| VObj (cls : N) (id : Z) (packable : bool).

Record column := mkcol { cname : key; ctype : option N (* None: _MISSING_TYPE or 0 *); cnullable : bool }.
Definition schema := list column.

(* A FlatColumn as the harness builds it: the three attributes validate reads (its core) plus attributes it
   must NOT read (round 4): a declared default value, aliases (other names of the column - never keys validate
   may accept), and which of the remaining descriptive attributes are set (0 description, 1 length,
   2 precision, 3 scale, 4 null_count, 5 lowest_value, 6 highest_value, 7 origin, 8 disposition,
   9 element_type).  The model of validate / append takes [fcore] of every column: that IS the statement that
   nothing else of the column enters; the correspondence runs the real code on columns carrying them. *)
Record fcolumn := mkfcol {
  fcore : column;
  fdefault : option value;
  faliases : list key;
  fothers : list N
}.
Definition record := list (key * value).
Definition row := list value.

Definition mem (k : N) (l : list N) : bool := existsb (N.eqb k) l.

Fixpoint assoc {A : Type} (k : N) (l : list (N * A)) : option A :=
  match l with
  | [] => None
  | (k', a) :: rest => if N.eqb k k' then Some a else assoc k rest
  end.

Definition lookup (k : key) (r : record) : option value := assoc k r.
Definition keys (r : record) : list key := map fst r.
Definition names (s : schema) : list key := map cname s.

(* ---- the tables ---- *)
Inductive tclass :=
| HasClass (c : N)      (* ORSO_TO_PYTHON_MAP[t] is a class *)
| NoClass               (* ORSO_TO_PYTHON_MAP[t] is None (NULL): isinstance raises TypeError *)
| NotMapped.            (* t is not a key: KeyError *)

Definition type_class (t : N) : tclass :=
  match assoc t type_class_table with
  | Some (Some c) => HasClass c
  | Some None => NoClass
  | None => NotMapped
  end.

(* isinstance(v, C) for a value whose exact class is vc *)
Definition isinst (vc c : N) : bool :=
  match assoc vc subclass_table with
  | Some l => mem c l
  | None => false
  end.

(* ---- validate ---- *)
Inductive exn := TypeError | KeyError.

Inductive verdict :=
| VOk                                                      (* returns True *)
| VExcess (ks : list key)                                  (* ExcessColumnsInDataError(columns) *)
| VErrors (missing notnull : list key) (wrong : list (key * value * N))   (* DataValidationError(errors) *)
| VRaise (e : exn).

(* set(data.keys()) - set(column names), in the record's key order *)
Definition extra_keys (s : schema) (r : record) : list key :=
  filter (fun k => negb (mem k (names s))) (keys r).

Inductive cstat := CFine | CMissing | CNotNull | CWrong (v : value) (t : N) | CRaise (e : exn).

(* the body of the for loop for one column *)
Definition check_col (r : record) (c : column) : cstat :=
  match lookup (cname c) r with
  | None => CMissing
  | Some VNone => if cnullable c then CFine else CNotNull
  | Some (VObj cls i p) =>
      match ctype c with
      | None => CFine
      | Some t =>
          match type_class t with
          | HasClass k => if isinst cls k then CFine else CWrong (VObj cls i p) t
          | NoClass => CRaise TypeError
          | NotMapped => CRaise KeyError
          end
      end
  end.

Definition finish (m n : list key) (w : list (key * value * N)) : verdict :=
  match m, n, w with
  | [], [], [] => VOk
  | _, _, _ => VErrors m n w
  end.

(* the loop: the three lists of the errors dictionary grow at the end, in schema order *)
Fixpoint vloop (r : record) (cols : list column) (m n : list key) (w : list (key * value * N)) : verdict :=
  match cols with
  | [] => finish m n w
  | c :: rest =>
      match check_col r c with
      | CFine => vloop r rest m n w
      | CMissing => vloop r rest (m ++ [cname c]) n w
      | CNotNull => vloop r rest m (n ++ [cname c]) w
      | CWrong v t => vloop r rest m n (w ++ [(cname c, v, t)])
      | CRaise e => VRaise e
      end
  end.

Definition validate (s : schema) (r : record) : verdict :=
  match extra_keys s r with
  | [] => vloop r s [] [] []
  | x => VExcess x
  end.

(* ---- entries handed to validate / append ---- *)
Inductive ekind :=
| KDict        (* an exact dict *)
| KDictSub     (* an instance of a dict subclass: OrderedDict, Counter, defaultdict, user subclasses *)
| KMapping     (* a MutableMapping that is not a dict *)
| KTuple       (* a tuple of the values (keys of the items are ignored) *)
| KScalar.     (* not iterable *)

Record entry := mkent { ekind_of : ekind; eitems : record }.

Definition validate_entry (s : schema) (e : entry) : verdict :=
  match ekind_of e with
  | KDict | KDictSub | KMapping => validate s (eitems e)
  | KTuple | KScalar => VRaise TypeError     (* "Cannot validate non Dictionary-type value" *)
  end.

(* ---- frames ---- *)
Inductive fkind :=
| FSchema (s : schema)        (* _schema is a RelationSchema: append validates *)
| FNames (ns : list key).     (* _schema is a list of names: no validation *)

Record frame := mkfr {
  fk : fkind;
  frows : list row;
  fnb : bool;          (* _nbytes is not None *)
  fcur : bool          (* _cursor is not None *)
}.

Definition fields (k : fkind) : list key :=
  match k with FSchema s => names s | FNames ns => ns end.

(* extract_dict_columns(data, fields): dict.get per field *)
Definition extract (ns : list key) (r : record) : row :=
  map (fun k => match lookup k r with Some v => v | None => VNone end) ns.

Inductive init :=
| IRows (s : schema) (rows : list row)          (* DataFrame(rows=..., schema=RelationSchema); rows = [] is the empty frame *)
| INames (ns : list key) (rows : list row)      (* DataFrame(rows=..., schema=[names]) *)
| IDicts (ds : list record).                    (* DataFrame(dictionaries=[...]) *)

Definition init_frame (i : init) : frame :=
  match i with
  | IRows s rows => mkfr (FSchema s) rows true true
  | INames ns rows => mkfr (FNames ns) rows true true
  | IDicts ds =>
      let ns := match ds with [] => [] | d :: _ => keys d end in
      mkfr (FNames ns) (map (extract ns) ds) false true
  end.

(* ---- append: validate -> build row -> size -> store -> update size -> invalidate cursor ---- *)
Inductive aexn :=
| AExcess (ks : list key)
| AErrors (missing notnull : list key) (wrong : list (key * value * N))
| AExn (e : exn).

Inductive result (A : Type) := Ok (a : A) | Raise (x : aexn).
Arguments Ok {A}. Arguments Raise {A}.

Inductive aout := AOk | ARaise (x : aexn).

Definition step_validate (f : frame) (e : entry) : result unit :=
  match fk f with
  | FNames _ => Ok tt
  | FSchema s =>
      match validate_entry s e with
      | VOk => Ok tt
      | VExcess ks => Raise (AExcess ks)
      | VErrors m n w => Raise (AErrors m n w)
      | VRaise x => Raise (AExn x)
      end
  end.

(* the str object that is key k, seen as a value: only used to encode an OBSERVED row cell that is a key
   string (what the code stored for a non-dict mapping before fix 4269430); the model never produces it *)
Definition key_value (k : key) : value := VObj cls_str (1000 + Z.of_N k) true.

(* self._row_factory(entry): Row.__new__ (row.py:77-98) turns any Mapping that is not an exact dict (other
   mappings since 4269430, dict subclasses since 9637b46) into a dict, extracts the fields of a dict by name,
   and otherwise calls tuple(entry) *)
Definition step_build (f : frame) (e : entry) : result row :=
  match ekind_of e with
  | KDict | KDictSub | KMapping => Ok (extract (fields (fk f)) (eitems e))
  | KTuple => Ok (map snd (eitems e))
  | KScalar => Raise (AExn TypeError)
  end.

Definition packable (v : value) : bool :=
  match v with VNone => true | VObj _ _ p => p end.

(* new_row.nbytes() *)
Definition step_size (rw : row) : result unit :=
  if forallb packable rw then Ok tt else Raise (AExn TypeError).

(* _rows.append(new_row); _nbytes = (_nbytes or 0) + size; _cursor = None  -- none of these raises *)
Definition step_store (f : frame) (rw : row) : frame :=
  mkfr (fk f) (frows f ++ [rw]) true false.

Definition append (f : frame) (e : entry) : frame * aout :=
  match step_validate f e with
  | Raise x => (f, ARaise x)
  | Ok _ =>
      match step_build f e with
      | Raise x => (f, ARaise x)
      | Ok rw =>
          match step_size rw with
          | Raise x => (f, ARaise x)
          | Ok _ => (step_store f rw, AOk)
          end
      end
  end.

(* the order of the pinned tree before fix 421aa6e: store first, then size (kept only to show what the
   ordering buys; see Props/C05.v C05_store_before_size_not_atomic) *)
Definition append_store_first (f : frame) (e : entry) : frame * aout :=
  match step_validate f e with
  | Raise x => (f, ARaise x)
  | Ok _ =>
      match step_build f e with
      | Raise x => (f, ARaise x)
      | Ok rw =>
          let f1 := mkfr (fk f) (frows f ++ [rw]) (fnb f) (fcur f) in
          match step_size rw with
          | Raise x => (f1, ARaise x)
          | Ok _ => (step_store f rw, AOk)
          end
      end
  end.

Fixpoint run (f : frame) (es : list entry) : frame * list aout :=
  match es with
  | [] => (f, [])
  | e :: rest =>
      let '(f1, o) := append f e in
      let '(f2, os) := run f1 rest in (f2, o :: os)
  end.

(* ==== comparison functions used by the correspondence files ==== *)

(* pool value i of the harness (Gen/C05_Types.pool_table); value 0 is None *)
Definition pv (i : N) : value :=
  match assoc i pool_table with
  | Some (c, p) => VObj c (Z.of_N i) p
  | None => VNone
  end.

Fixpoint list_eqb {A : Type} (eqb : A -> A -> bool) (a b : list A) : bool :=
  match a, b with
  | [], [] => true
  | x :: r, y :: s => eqb x y && list_eqb eqb r s
  | _, _ => false
  end.

Definition value_eqb (a b : value) : bool :=
  match a, b with
  | VNone, VNone => true
  | VObj c i p, VObj c' i' p' => N.eqb c c' && Z.eqb i i' && Bool.eqb p p'
  | _, _ => false
  end.

Definition row_eqb : row -> row -> bool := list_eqb value_eqb.
Definition rows_eqb : list row -> list row -> bool := list_eqb row_eqb.

Definition wrong_eqb (a b : key * value * N) : bool :=
  let '(k, v, t) := a in let '(k', v', t') := b in
  N.eqb k k' && value_eqb v v' && N.eqb t t'.

(* the exception's .columns is a set: compare as sets *)
Definition keyset_eqb (a b : list key) : bool :=
  forallb (fun k => mem k b) a && forallb (fun k => mem k a) b && Nat.eqb (length a) (length b).

Definition exn_eqb (a b : exn) : bool :=
  match a, b with TypeError, TypeError | KeyError, KeyError => true | _, _ => false end.

(* what the harness observed *)
Inductive oout :=
| OOk
| OExcess (ks : list key)
| OErrors (missing notnull : list key) (wrong : list (key * value * N))
| ORaise (e : exn)
| OOther.           (* anything the model cannot produce: never equal *)

Definition verdict_matches (v : verdict) (o : oout) : bool :=
  match v, o with
  | VOk, OOk => true
  | VExcess a, OExcess b => keyset_eqb a b
  | VErrors m n w, OErrors m' n' w' => list_eqb N.eqb m m' && list_eqb N.eqb n n' && list_eqb wrong_eqb w w'
  | VRaise e, ORaise e' => exn_eqb e e'
  | _, _ => false
  end.

Definition aout_verdict (a : aout) : verdict :=
  match a with
  | AOk => VOk
  | ARaise (AExcess ks) => VExcess ks
  | ARaise (AErrors m n w) => VErrors m n w
  | ARaise (AExn e) => VRaise e
  end.

Definition c05_validate_case : Type := (schema * entry * oout)%type.
Definition c05_hist_case : Type :=
  (init * list entry * (list row * bool * bool) * list (oout * list row * bool * bool))%type.

Definition c05_validate_check (c : schema * entry * oout) : bool :=
  let '(s, e, o) := c in verdict_matches (validate_entry s e) o.

Definition c05_validate_show (c : schema * entry * oout) : verdict :=
  let '(s, e, o) := c in validate_entry s e.

Definition state_matches (f : frame) (o : list row * bool * bool) : bool :=
  let '(rows, nb, cur) := o in
  rows_eqb (frows f) rows && Bool.eqb (fnb f) nb && Bool.eqb (fcur f) cur.

Fixpoint steps_match (f : frame) (es : list entry) (obs : list (oout * list row * bool * bool)) : bool :=
  match es, obs with
  | [], [] => true
  | e :: es', (o, rows, nb, cur) :: obs' =>
      let '(f1, a) := append f e in
      verdict_matches (aout_verdict a) o && state_matches f1 (rows, nb, cur) && steps_match f1 es' obs'
  | _, _ => false
  end.

(* a case: (how the frame was created, entries appended, observed initial state, observed (outcome, state) per append) *)
Definition c05_hist_check (c : init * list entry * (list row * bool * bool) * list (oout * list row * bool * bool)) : bool :=
  let '(i, es, o0, obs) := c in
  state_matches (init_frame i) o0 && steps_match (init_frame i) es obs.

Fixpoint trace (f : frame) (es : list entry) : list (aout * list row * bool * bool) :=
  match es with
  | [] => []
  | e :: rest => let '(f1, a) := append f e in (a, frows f1, fnb f1, fcur f1) :: trace f1 rest
  end.

Definition c05_hist_show (c : init * list entry * (list row * bool * bool) * list (oout * list row * bool * bool))
  : list row * list (aout * list row * bool * bool) :=
  let '(i, es, o0, obs) := c in (frows (init_frame i), trace (init_frame i) es).

(* ================================================================================================ *)
(* Sessions: schema OBJECTS that are used, mutated in place, and used again (round 3).               *)
(* A session owns a list of RelationSchema objects (addressed by position) and at most one current   *)
(* DataFrame, created from one of them.  The frame keeps a REFERENCE to its schema object            *)
(* (dataframe.py:89 self._schema = schema), so append validates against that object's columns as     *)
(* they are at the time of the call, but the Row class with the field names is made once, when the   *)
(* frame is created (dataframe.py:91 Row.create_class): the field list is a snapshot.                *)

(* in-place changes of a schema object *)
Inductive mut :=
| MAdd (c : column)                    (* schema.columns.append(c) *)
| MInsert (c : column)                 (* schema.columns.insert(0, c) *)
| MPop (k : key)                       (* schema.pop_column(k): removes the first column of that name, if any *)
| MSetType (i : nat) (t : option N)    (* schema.columns[i].type = t *)
| MSetNullable (i : nat) (b : bool)    (* schema.columns[i].nullable = b *)
| MRename (i : nat) (k : key)          (* schema.columns[i].name = k *)
| MReverse                             (* schema.columns.reverse() *)
| MSetAttrs (i : nat) (d : option value) (al : list key) (ot : list N).
                                       (* columns[i].default / .aliases / descriptive attributes assigned: the core is unchanged *)

Fixpoint pop_first (k : key) (s : schema) : schema :=
  match s with
  | [] => []
  | c :: r => if N.eqb (cname c) k then r else c :: pop_first k r
  end.

Fixpoint update_nth {A : Type} (i : nat) (f : A -> A) (l : list A) : list A :=
  match l, i with
  | [], _ => []                       (* index out of range: never generated (Python would raise IndexError) *)
  | x :: r, O => f x :: r
  | x :: r, S j => x :: update_nth j f r
  end.

Definition apply_mut (m : mut) (s : schema) : schema :=
  match m with
  | MAdd c => s ++ [c]
  | MInsert c => c :: s
  | MPop k => pop_first k s
  | MSetType i t => update_nth i (fun c => mkcol (cname c) t (cnullable c)) s
  | MSetNullable i b => update_nth i (fun c => mkcol (cname c) (ctype c) b) s
  | MRename i k => update_nth i (fun c => mkcol k (ctype c) (cnullable c)) s
  | MReverse => rev s
  | MSetAttrs _ _ _ _ => s
  end.

Inductive sop :=
| SValidate (o : nat) (e : entry)      (* <schema object o>.validate(e) *)
| SMutate (o : nat) (m : mut)          (* change schema object o in place *)
| SNewFrame (o : nat)                  (* DataFrame(rows=[], schema=<schema object o>) becomes the current frame *)
| SAppend (e : entry).                 (* <current frame>.append(e) *)

Record sstate := mkss {
  sobjs : list schema;                 (* the current columns of every schema object *)
  sframe : option (nat * frame)        (* current frame: (its schema object, state); fk = FSchema <columns at creation> *)
}.

Definition obj (st : sstate) (o : nat) : schema := nth o (sobjs st) [].

(* append to a frame whose schema object currently has the columns vs: validation reads vs, the row is
   built from the frame's own (snapshot) field list *)
Definition append_with (vs : schema) (f : frame) (e : entry) : frame * aout :=
  match validate_entry vs e with
  | VExcess ks => (f, ARaise (AExcess ks))
  | VErrors m n w => (f, ARaise (AErrors m n w))
  | VRaise x => (f, ARaise (AExn x))
  | VOk =>
      match step_build f e with
      | Raise x => (f, ARaise x)
      | Ok rw =>
          match step_size rw with
          | Raise x => (f, ARaise x)
          | Ok _ => (step_store f rw, AOk)
          end
      end
  end.

Inductive sout :=
| SOVerdict (v : verdict)              (* validate returned / raised *)
| SOUnit                               (* a mutation or a frame creation *)
| SOAppend (a : aout) (f : frame)      (* append's outcome and the frame afterwards *)
| SONoFrame.                           (* append without a frame: not a session the harness runs *)

Definition sstep (st : sstate) (op : sop) : sstate * sout :=
  match op with
  | SValidate o e => (st, SOVerdict (validate_entry (obj st o) e))
  | SMutate o m => (mkss (update_nth o (apply_mut m) (sobjs st)) (sframe st), SOUnit)
  | SNewFrame o => (mkss (sobjs st) (Some (o, init_frame (IRows (obj st o) []))), SOUnit)
  | SAppend e =>
      match sframe st with
      | None => (st, SONoFrame)
      | Some (o, f) =>
          let '(f1, a) := append_with (obj st o) f e in
          (mkss (sobjs st) (Some (o, f1)), SOAppend a f1)
      end
  end.

Fixpoint srun (st : sstate) (ops : list sop) : sstate * list sout :=
  match ops with
  | [] => (st, [])
  | op :: rest =>
      let '(st1, x) := sstep st op in
      let '(st2, xs) := srun st1 rest in (st2, x :: xs)
  end.

(* what the harness observed for one operation *)
Inductive sobs :=
| BValidate (o : oout)
| BUnit
| BAppend (o : oout) (rows : list row) (nb cur : bool).

Definition sout_matches (x : sout) (b : sobs) : bool :=
  match x, b with
  | SOVerdict v, BValidate o => verdict_matches v o
  | SOUnit, BUnit => true
  | SOAppend a f, BAppend o rows nb cur => verdict_matches (aout_verdict a) o && state_matches f (rows, nb, cur)
  | _, _ => false
  end.

Fixpoint souts_match (xs : list sout) (bs : list sobs) : bool :=
  match xs, bs with
  | [], [] => true
  | x :: xs', b :: bs' => sout_matches x b && souts_match xs' bs'
  | _, _ => false
  end.

(* a case: (the schema objects as created, the operations, what was observed for each) *)
Definition c05_session_case : Type := (list schema * list sop * list sobs)%type.

Definition c05_session_check (c : c05_session_case) : bool :=
  let '(objs, ops, obs) := c in souts_match (snd (srun (mkss objs None) ops)) obs.

Definition c05_session_show (c : c05_session_case) : list sout :=
  let '(objs, ops, obs) := c in snd (srun (mkss objs None) ops).

(* ================================================================================================ *)
(* Round 6: an outcome is a VALUE.  The harness keeps every exception object it caught and reads its   *)
(* contents a second time after all later operations of the case (and a further, unrelated validation) *)
(* have run; what is read late is compared with the same model output as what was read at once.        *)

Definition c05_validate_case2 : Type := (c05_validate_case * oout)%type.
Definition c05_validate_check2 (c : c05_validate_case2) : bool :=
  let '(c1, late) := c in
  c05_validate_check c1 && (let '(s, e, _) := c1 in verdict_matches (validate_entry s e) late).

Fixpoint aouts_match (xs : list aout) (ls : list oout) : bool :=
  match xs, ls with
  | [], [] => true
  | a :: xs', o :: ls' => verdict_matches (aout_verdict a) o && aouts_match xs' ls'
  | _, _ => false
  end.

Definition c05_hist_case2 : Type := (c05_hist_case * list oout)%type.
Definition c05_hist_check2 (c : c05_hist_case2) : bool :=
  let '(c1, late) := c in
  c05_hist_check c1 && (let '(i, es, _, _) := c1 in aouts_match (snd (run (init_frame i) es)) late).

Fixpoint souts_late_match (xs : list sout) (ls : list (option oout)) : bool :=
  match xs, ls with
  | [], [] => true
  | x :: xs', l :: ls' =>
      match x, l with
      | SOVerdict v, Some o => verdict_matches v o
      | SOAppend a _, Some o => verdict_matches (aout_verdict a) o
      | SOUnit, None => true
      | _, _ => false
      end && souts_late_match xs' ls'
  | _, _ => false
  end.

Definition c05_session_case2 : Type := (c05_session_case * list (option oout))%type.
Definition c05_session_check2 (c : c05_session_case2) : bool :=
  let '(c1, late) := c in
  c05_session_check c1 && (let '(objs, ops, _) := c1 in souts_late_match (snd (srun (mkss objs None) ops)) late).

Definition c05_validate_show2 (c : c05_validate_case2) := c05_validate_show (fst c).
Definition c05_hist_show2 (c : c05_hist_case2) := c05_hist_show (fst c).
Definition c05_session_show2 (c : c05_session_case2) := c05_session_show (fst c).

(* ================================================================================================ *)
(* Round 7: TWO frames created from ONE rows argument (the same, still empty, collection object - or   *)
(* the same list of dictionaries) and appended to in any interleaving.  `self._rows = rows or []`      *)
(* (dataframe.py:89) gives every frame made from an empty collection a list of its own, and the        *)
(* dictionaries form always builds a new list (dataframe.py:84), so the two frames are separate         *)
(* values: an append addresses one frame and leaves the other (and the caller's collection) as it was. *)

Definition twin_step (fs : frame * frame) (x : bool * entry) : (frame * frame) * aout :=
  let '(f0, f1) := fs in
  let '(b, e) := x in
  if b then (let '(g, a) := append f1 e in ((f0, g), a))
  else (let '(g, a) := append f0 e in ((g, f1), a)).

Fixpoint twin_run (fs : frame * frame) (xs : list (bool * entry)) : (frame * frame) * list aout :=
  match xs with
  | [] => (fs, [])
  | x :: rest =>
      let '(fs1, o) := twin_step fs x in
      let '(fs2, os) := twin_run fs1 rest in (fs2, o :: os)
  end.

(* the entries addressed to frame b, in order *)
Definition twin_sel (b : bool) (xs : list (bool * entry)) : list entry :=
  map snd (filter (fun x => Bool.eqb (fst x) b) xs).

(* the creation forms for which /repo gives each frame a row store of its own: an EMPTY rows collection
   (a non-empty list is adopted as the store itself - two frames made from it share it; not generated,
   see notes/C05.md round 7) or dictionaries *)
Definition init_fresh (i : init) : bool :=
  match i with
  | IRows _ [] | INames _ [] | IDicts _ => true
  | _ => false
  end.

(* observed after one append: outcome, state of frame 0, state of frame 1, the caller's rows collection *)
Definition twin_obs : Type := (oout * (list row * bool * bool) * (list row * bool * bool) * list row)%type.

Fixpoint twin_match (fs : frame * frame) (caller : list row) (xs : list (bool * entry)) (obs : list twin_obs) : bool :=
  match xs, obs with
  | [], [] => true
  | x :: xs', (o, s0, s1, cr) :: obs' =>
      let '(fs1, a) := twin_step fs x in
      verdict_matches (aout_verdict a) o && state_matches (fst fs1) s0 && state_matches (snd fs1) s1
      && rows_eqb cr caller && twin_match fs1 caller xs' obs'
  | _, _ => false
  end.

(* a case: (the one creation argument, (addressed frame, entry) list, observed initial states of both frames,
   observations per append, every outcome read a second time at the end) *)
Definition c05_twin_case : Type :=
  (init * list (bool * entry) * ((list row * bool * bool) * (list row * bool * bool)) * list twin_obs * list oout)%type.

Definition c05_twin_check (c : c05_twin_case) : bool :=
  let '(i, xs, (o0, o1), obs, late) := c in
  let f := init_frame i in
  init_fresh i && state_matches f o0 && state_matches f o1
  && twin_match (f, f) [] xs obs && aouts_match (snd (twin_run (f, f) xs)) late.

Definition c05_twin_show (c : c05_twin_case) :=
  let '(i, xs, _, _, _) := c in
  let r := twin_run (init_frame i, init_frame i) xs in
  (frows (fst (fst r)), frows (snd (fst r)), snd r).
