(* C10 - executable model of the native kernels of orso/compute/compiled.pyx:
     collect_cython        (compiled.pyx:102-154)
     extract_dict_columns  (compiled.pyx:74-99)
     calculate_data_width  (compiled.pyx:157-168)
   and of the caller DataFrame.collect (dataframe.py:200-240).
   No proofs here: this file must keep running when a proof breaks.

   The module is compiled with boundscheck=False / wraparound=False / nonecheck=False, so
   an item read from a tuple-typed variable is PyTuple_GET_ITEM: no type test, no bounds
   test.  The model makes that explicit: a read yields [Ok v], [Raise e] (a Python
   exception) or [UB] (a read outside the object: anything may happen, including the
   death of the interpreter).  [UB] is a value of the model, so "no input reaches UB"
   is a statement that can be proved or refuted. *)
From Coq Require Import List ZArith Bool NArith.
Import ListNotations.

Inductive exn := IndexError | TypeError | OverflowError | KeyError.

Inductive access (T : Type) :=
| Ok (x : T)
| Raise (e : exn)
| UB.
Arguments Ok {T}. Arguments Raise {T}. Arguments UB {T}.

Definition bind {T U : Type} (a : access T) (f : T -> access U) : access U :=
  match a with
  | Ok x => f x
  | Raise e => Raise e
  | UB => UB
  end.

(* a [for] loop whose body may raise / go wrong: stops at the first such iteration *)
Fixpoint mapM {T U : Type} (f : T -> access U) (l : list T) : access (list U) :=
  match l with
  | [] => Ok []
  | x :: r => bind (f x) (fun y => bind (mapM f r) (fun ys => Ok (y :: ys)))
  end.

Section Collect.
Variable A : Type.                 (* cell values: opaque object references *)

(* What an element of the Python list [rows] may be.  [cdef tuple tuple_row = <tuple>rows[i]]
   is an unchecked cast, so the kind matters. *)
Inductive rowobj :=
| RTuple (l : list A)              (* a tuple (or orso Row, a tuple subclass) *)
| RNone                            (* None *)
| RSeq (n : nat)                   (* not a tuple, but len() = n: list, str, bytes, dict ... *)
| RScalar.                         (* not a tuple, no len(): int, float, ... *)

Definition py_len (r : rowobj) : access nat :=      (* len(rows[0]), a checked Python call *)
  match r with
  | RTuple l => Ok (length l)
  | RSeq n => Ok n
  | RNone | RScalar => Raise TypeError
  end.

(* PyTuple_GET_ITEM(row, i) on an object that IS a tuple *)
Definition get_unchecked (row : list A) (i : nat) : access A :=
  match nth_error row i with        (* i < length row *)
  | Some v => Ok v
  | None => UB
  end.

(* tuple_row[c] as generated: a None test (Cython always emits it), then PyTuple_GET_ITEM *)
Definition tuple_item_unchecked (r : rowobj) (c : Z) : access A :=
  match r with
  | RNone => Raise TypeError
  | RTuple l => if (c <? 0)%Z then UB else get_unchecked l (Z.to_nat c)
  | RSeq _ | RScalar => UB          (* the object's memory read as if it were a tuple *)
  end.

(* rows[i] as generated: PyList_GET_ITEM, no bounds test *)
Definition list_item_unchecked (rows : list rowobj) (i : nat) : access rowobj :=
  match nth_error rows i with
  | Some r => Ok r
  | None => UB
  end.

(* compiled.pyx:124-127, the one-time bounds loop against the first row's width *)
Fixpoint bounds_loop (cols : list Z) (w : nat) : access unit :=
  match cols with
  | [] => Ok tt
  | c :: r => if ((c <? 0) || (c >=? Z.of_nat w))%Z then Raise IndexError else bounds_loop r w
  end.

(* compiled.pyx:120-121 *)
Definition clamp_limit (limit : Z) (num_rows : nat) : nat :=
  if ((0 <=? limit) && (limit <? Z.of_nat num_rows))%Z then Z.to_nat limit else num_rows.

(* result[j, i] = picked_i[j] : the rows' picks laid out column-major *)
Fixpoint zip_cons (p : list A) (acc : list (list A)) : list (list A) :=
  match p, acc with
  | x :: p', c :: acc' => (x :: c) :: zip_cons p' acc'
  | _, _ => []
  end.

Definition transpose (ncols : nat) (picked : list (list A)) : list (list A) :=
  fold_right zip_cons (repeat [] ncols) picked.

(* compiled.pyx:133-138 *)
Definition path1 (rows : list rowobj) (n : nat) (c0 : Z) : access (list (list A)) :=
  bind (mapM (fun i => bind (list_item_unchecked rows i) (fun r => tuple_item_unchecked r c0)) (seq 0 n))
       (fun col0 => Ok [col0]).

(* compiled.pyx:139-146 *)
Definition path2 (rows : list rowobj) (n : nat) (c0 c1 : Z) : access (list (list A)) :=
  bind (mapM (fun i => bind (list_item_unchecked rows i) (fun r =>
                       bind (tuple_item_unchecked r c0) (fun a =>
                       bind (tuple_item_unchecked r c1) (fun b => Ok (a, b))))) (seq 0 n))
       (fun ps => Ok [map fst ps; map snd ps]).

(* compiled.pyx:147-152 *)
Definition pathn (rows : list rowobj) (n : nat) (cols : list Z) : access (list (list A)) :=
  bind (mapM (fun i => bind (list_item_unchecked rows i) (fun r =>
                       mapM (tuple_item_unchecked r) cols)) (seq 0 n))
       (fun picked => Ok (transpose (length cols) picked)).

(* the part of collect_cython common to all paths; [k] is the extraction path taken *)
Definition collect_with (k : list rowobj -> nat -> list Z -> access (list (list A)))
           (rows : list rowobj) (cols : list Z) (limit : Z) : access (list (list A)) :=
  match rows, cols with
  | [], _ | _, [] => Ok (repeat [] (length cols))           (* early exit: np.empty((num_cols, num_rows)) *)
  | r0 :: _, _ :: _ =>
      bind (py_len r0) (fun row_width =>
      let num_rows := clamp_limit limit (length rows) in
      bind (bounds_loop cols row_width) (fun _ =>
      k rows num_rows cols))
  end.

Definition dispatch (rows : list rowobj) (n : nat) (cols : list Z) : access (list (list A)) :=
  match cols with
  | [c0] => path1 rows n c0
  | [c0; c1] => path2 rows n c0 c1
  | _ => pathn rows n cols
  end.

(* collect_cython(rows, columns, limit) *)
Definition collect := collect_with dispatch.
(* the same function with the two fast paths deleted *)
Definition collect_general := collect_with pathn.

(* ---- the plain-Python definition: result[i][j] = rows[j][cols[i]], first n rows ---- *)
Fixpoint mapO {T U : Type} (f : T -> option U) (l : list T) : option (list U) :=
  match l with
  | [] => Some []
  | x :: r => match f x with
              | None => None
              | Some y => match mapO f r with None => None | Some ys => Some (y :: ys) end
              end
  end.

Definition get_def (row : list A) (c : Z) : option A :=      (* rows[j][c] for 0 <= c < len *)
  if (c <? 0)%Z then None else nth_error row (Z.to_nat c).

Definition eff_limit (limit : Z) (n : nat) : nat :=           (* "first limit rows, all when negative or too big" *)
  if (limit <? 0)%Z then n else Nat.min (Z.to_nat limit) n.

Definition collect_def (rows : list (list A)) (cols : list Z) (n : nat) : option (list (list A)) :=
  mapO (fun c => mapO (fun row => get_def row c) (firstn n rows)) cols.

Definition in_range (w : nat) (c : Z) : bool := ((0 <=? c) && (c <? Z.of_nat w))%Z.

(* ---- DataFrame.collect (dataframe.py:200-240), integer columns ---- *)
Definition df_collect (rows : list rowobj) (cols : list Z) (limit : option Z) : access (list (list A)) :=
  collect rows cols (match limit with
                     | None => (-1)%Z
                     | Some l => if (l <? 0)%Z then (-1)%Z else l
                     end).

(* DataFrame.collect as called from Python: the index vector is built by
   numpy.array(indexes, dtype=numpy.int32), which raises OverflowError for a Python int outside the
   int32 range (no wrap-around), and [limit] is converted to a C int at the call of collect_cython,
   which raises OverflowError above INT_MAX (a negative limit was replaced by -1 before). *)
Definition fits_int32 (z : Z) : bool := ((-2147483648 <=? z) && (z <=? 2147483647))%Z.

Definition limit_fits (limit : option Z) : bool :=
  match limit with
  | None => true
  | Some l => (l <=? 2147483647)%Z
  end.

Definition df_collect_conv (rows : list rowobj) (cols : list Z) (limit : option Z) : access (list (list A)) :=
  if forallb fits_int32 cols && limit_fits limit then df_collect rows cols limit else Raise OverflowError.

End Collect.

Arguments RTuple {A}. Arguments RNone {A}. Arguments RSeq {A}. Arguments RScalar {A}.
Arguments py_len {A}. Arguments get_unchecked {A}. Arguments tuple_item_unchecked {A}.
Arguments list_item_unchecked {A}. Arguments zip_cons {A}. Arguments transpose {A}.
Arguments path1 {A}. Arguments path2 {A}. Arguments pathn {A}. Arguments collect_with {A}.
Arguments dispatch {A}. Arguments collect {A}. Arguments collect_general {A}.
Arguments get_def {A}. Arguments collect_def {A}. Arguments df_collect {A}. Arguments df_collect_conv {A}.

(* ---- the DataFrame as an OBJECT WITH STATE (dataframe.py:88-94 __init__, 136-144 append, 184-189
   materialize, 200-240 collect, 242-243 __getitem__, 418-421 rowcount, 439-441 __len__) ----
   [self._rows] is whatever the caller handed over ([rows or []]): a list, a re-iterable non-list
   (tuple, deque), or a one-shot iterator (generator, iter(...)).  Every reader materialises first
   ([self._rows = list(self._rows)] unless it is a list already), so what a collect returns must depend
   neither on the kind of object the rows arrived in nor on the calls made before.  The model keeps
   the two representations apart, so that this is a theorem (Props: the C10_frame theorems) rather than a
   convention, and so that sequences of calls on one frame are cases of the correspondence. *)
Section Frame.
Variable A : Type.

Inductive backing := KList | KTuple | KDeque | KIter.

Inductive store :=
| SEager (rows : list (rowobj A))                (* self._rows is a Python list *)
| SLazy (k : backing) (rows : list (rowobj A)).  (* still the caller's object; KIter: the rows it has yet to yield *)

Definition contents (s : store) : list (rowobj A) :=
  match s with SEager r => r | SLazy _ r => r end.

(* DataFrame(rows=..., schema=...): [self._rows = rows or []] - an empty tuple/deque is falsy and is
   replaced by a new list; an iterator object is always truthy *)
Definition frame_init (k : backing) (rows : list (rowobj A)) : store :=
  match k, rows with
  | KList, _ => SEager rows
  | KIter, _ => SLazy KIter rows
  | _, [] => SEager []
  | _, _ :: _ => SLazy k rows
  end.

(* materialize(): list(self._rows) unless a list already *)
Definition materialize (s : store) : store := SEager (contents s).

Inductive fop :=
| OpCollect (cols : list Z) (limit : option Z)   (* df.collect(cols, limit); names resolved by the harness *)
| OpGetitem (cols : list Z)                      (* df[cols] = collect(cols, None) *)
| OpCollectUnknown                               (* df.collect(<name not in the schema>): materialises, then ValueError from tuple.index *)
| OpRowcount                                     (* df.rowcount / len(df) / df.shape[0] *)
| OpMaterialize                                  (* df.materialize() *)
| OpAppend (entry : list A).                     (* df.append(entry): self._rows.append(Row(entry)) *)

Inductive fout :=
| FCols (r : access (list (list A)))
| FCount (n : nat)
| FNone
| FValueError
| FAttributeError.                               (* tuple / generator / iterator have no .append *)

(* self._rows.append exists: a list, or a deque not yet materialised *)
Definition appendable (s : store) : bool :=
  match s with
  | SEager _ => true
  | SLazy KDeque _ => true
  | SLazy _ _ => false
  end.

Definition push (s : store) (r : rowobj A) : store :=
  match s with
  | SEager rows => SEager (rows ++ [r])
  | SLazy k rows => SLazy k (rows ++ [r])
  end.

Definition step (s : store) (o : fop) : store * fout :=
  match o with
  | OpCollect cols limit => (materialize s, FCols (df_collect_conv (contents s) cols limit))
  | OpGetitem cols => (materialize s, FCols (df_collect_conv (contents s) cols None))
  | OpCollectUnknown => (materialize s, FValueError)
  | OpRowcount => (materialize s, FCount (length (contents s)))
  | OpMaterialize => (materialize s, FNone)
  | OpAppend e => if appendable s then (push s (RTuple e), FNone) else (s, FAttributeError)
  end.

Fixpoint run (s : store) (ops : list fop) : list fout :=
  match ops with
  | [] => []
  | o :: r => snd (step s o) :: run (fst (step s o)) r
  end.

Fixpoint state_after (s : store) (ops : list fop) : store :=
  match ops with
  | [] => s
  | o :: r => state_after (fst (step s o)) r
  end.

(* the rows successfully appended by [ops], in order *)
Fixpoint appended (s : store) (ops : list fop) : list (rowobj A) :=
  match ops with
  | [] => []
  | o :: r => (match o with
               | OpAppend e => if appendable s then [RTuple e] else []
               | _ => []
               end) ++ appended (fst (step s o)) r
  end.

(* an operation that only reads the frame *)
Definition is_read (o : fop) : bool :=
  match o with OpAppend _ => false | _ => true end.

(* what a reading operation returns on a frame whose rows are [rows] - no state, no history *)
Definition read_out (rows : list (rowobj A)) (o : fop) : fout :=
  match o with
  | OpCollect cols limit => FCols (df_collect_conv rows cols limit)
  | OpGetitem cols => FCols (df_collect_conv rows cols None)
  | OpCollectUnknown => FValueError
  | OpRowcount => FCount (length rows)
  | OpMaterialize => FNone
  | OpAppend _ => FNone
  end.

End Frame.
Arguments SEager {A}. Arguments SLazy {A}. Arguments contents {A}. Arguments frame_init {A}.
Arguments materialize {A}. Arguments OpCollect {A}. Arguments OpGetitem {A}. Arguments OpCollectUnknown {A}.
Arguments OpRowcount {A}. Arguments OpMaterialize {A}. Arguments OpAppend {A}.
Arguments FCols {A}. Arguments FCount {A}. Arguments FNone {A}. Arguments FValueError {A}.
Arguments FAttributeError {A}. Arguments appendable {A}. Arguments push {A}. Arguments step {A}.
Arguments run {A}. Arguments state_after {A}. Arguments appended {A}. Arguments is_read {A}.
Arguments read_out {A}.

(* ---- extract_dict_columns (compiled.pyx:74-99) ---- *)
Section Extract.
Variable K V : Type.
Variable keq : K -> K -> bool.     (* Python's hash-and-== on hashable keys *)
Variable none : V.                 (* the object None *)

Inductive field := FKey (k : K) | FUnhashable.   (* PyDict_GetItem swallows the TypeError of an unhashable key *)

Fixpoint lookup (d : list (K * V)) (k : K) : option V :=
  match d with
  | [] => None
  | (k', v) :: r => if keq k' k then Some v else lookup r k
  end.

(* PyDict_GetItem(data, f): NULL when absent, when f is unhashable, or when data is not a dict
   (data = None passes the argument test because nonecheck=False) *)
Definition dict_get_item (data : option (list (K * V))) (f : field) : option V :=
  match data, f with
  | Some d, FKey k => lookup d k
  | _, _ => None
  end.

Definition extract (data : option (list (K * V))) (fields : list field) : list V :=
  map (fun f => match dict_get_item data f with Some v => v | None => none end) fields.

End Extract.
Arguments FKey {K}. Arguments FUnhashable {K}.
Arguments lookup {K V}. Arguments dict_get_item {K V}. Arguments extract {K V}.

(* ---- SESSIONS: several row classes and frames alive in one process ----
   Row.create_class(fields, tuples_only) (row.py:196-214) builds a NEW class each time; DataFrame.__init__
   builds an ordinary one for its schema (dataframe.py:91), converters.from_arrow a tuples-only one.
   A class turns data into a row (Row.__new__, row.py:79-97): a dict goes through extract_dict_columns
   with the class's own fields - unless the class is tuples-only, whose __new__ is tuple's, so a dict is
   iterated (its keys); a tuple / list is taken as it is.  DataFrame.append(entry) uses the frame's own
   class.  Objects are explicit here (a heap indexed by creation order) so that "what one object returns
   depends only on that object's own definition and history, not on which other classes / frames were
   built or used before" is a theorem (C10_session_local / C10_session_output), and so that sessions over several
   objects with equal or overlapping field names are cases of the correspondence. *)
Section Session.
Variable A : Type.                 (* objects: cells, dictionary keys and field names alike *)
Variable keq : A -> A -> bool.
Variable none : A.

Inductive rdata := DDict (d : list (A * A)) | DTuple (l : list A).

Definition make_row (fields : list A) (tuples_only : bool) (data : rdata) : list A :=
  match data with
  | DTuple l => l
  | DDict d => if tuples_only then map fst d
               else extract keq none (Some d) (map (fun f => FKey f) fields)
  end.

Inductive obj :=
| OClass (fields : list A) (tuples_only : bool)
| OFrame (names : list A) (s : store A).

Inductive action :=
| AMake (data : rdata)             (* cls(data) *)
| AFrame (o : fop A)               (* a call on the frame, as in Section Frame *)
| AAppendDict (d : list (A * A)).  (* df.append({...}) *)

Inductive sout :=
| SNone
| SRow (l : list A)
| SFrameOut (f : fout A)
| SBad.                            (* action addressed to the wrong kind of object / no such object *)

Definition obj_step (o : obj) (a : action) : obj * sout :=
  match o, a with
  | OClass f t, AMake data => (o, SRow (make_row f t data))
  | OFrame names s, AFrame op => (OFrame names (fst (step s op)), SFrameOut (snd (step s op)))
  | OFrame names s, AAppendDict d =>
      (OFrame names (fst (step s (OpAppend (make_row names false (DDict d))))),
       SFrameOut (snd (step s (OpAppend (make_row names false (DDict d))))))
  | _, _ => (o, SBad)
  end.

Inductive sop :=
| NewClass (fields : list A) (tuples_only : bool)
| NewFrame (k : backing) (names : list A) (rows : list (rowobj A))
| On (i : nat) (a : action)
| NewCopy (i : nat)                (* copy.deepcopy(object i): an equal, independent object *)
| NewHead (i : nat) (n : nat).     (* frame i .head(n) = slice(0, n): materialises frame i, the new frame holds a NEW list of its first n rows *)

Fixpoint set_nth {T : Type} (l : list T) (i : nat) (x : T) : list T :=
  match l, i with
  | [], _ => []
  | _ :: r, O => x :: r
  | y :: r, S j => y :: set_nth r j x
  end.

Definition sess_step (st : list obj) (op : sop) : list obj * sout :=
  match op with
  | NewClass f t => (st ++ [OClass f t], SNone)
  | NewFrame k names rows => (st ++ [OFrame names (frame_init k rows)], SNone)
  | On i a => match nth_error st i with
              | Some o => (set_nth st i (fst (obj_step o a)), snd (obj_step o a))
              | None => (st, SBad)
              end
  | NewCopy i => match nth_error st i with
                 | Some o => (st ++ [o], SNone)
                 | None => (st, SBad)
                 end
  | NewHead i n => match nth_error st i with
                   | Some (OFrame names s) =>
                       (set_nth st i (OFrame names (materialize s)) ++ [OFrame names (SEager (firstn n (contents s)))], SNone)
                   | _ => (st, SBad)
                   end
  end.

Fixpoint sess_run (st : list obj) (ops : list sop) : list sout :=
  match ops with
  | [] => []
  | op :: r => snd (sess_step st op) :: sess_run (fst (sess_step st op)) r
  end.

Fixpoint sess_state (st : list obj) (ops : list sop) : list obj :=
  match ops with
  | [] => st
  | op :: r => sess_state (fst (sess_step st op)) r
  end.

(* the actions of a session that are addressed to object i, in order *)
Fixpoint actions_on (i : nat) (ops : list sop) : list action :=
  match ops with
  | [] => []
  | On j a :: r => if Nat.eqb j i then a :: actions_on i r else actions_on i r
  | NewHead j n :: r => if Nat.eqb j i then AFrame OpMaterialize :: actions_on i r else actions_on i r   (* head materialises its source *)
  | _ :: r => actions_on i r
  end.

(* one object on its own *)
Fixpoint obj_after (o : obj) (acts : list action) : obj :=
  match acts with
  | [] => o
  | a :: r => obj_after (fst (obj_step o a)) r
  end.

End Session.
Arguments DDict {A}. Arguments DTuple {A}. Arguments make_row {A}. Arguments OClass {A}. Arguments OFrame {A}.
Arguments AMake {A}. Arguments AFrame {A}. Arguments AAppendDict {A}. Arguments SNone {A}. Arguments SRow {A}.
Arguments SFrameOut {A}. Arguments SBad {A}. Arguments obj_step {A}. Arguments NewClass {A}. Arguments NewFrame {A}.
Arguments On {A}. Arguments NewCopy {A}. Arguments NewHead {A}. Arguments sess_step {A}. Arguments sess_run {A}. Arguments sess_state {A}.
Arguments actions_on {A}. Arguments obj_after {A}.

(* ---- orso.row.extract_columns (row.py:49-68): the plain-Python definition kept beside the compiled
   collector, as it is written: one output list per REQUESTED column (by position in the request, so a
   column requested twice - or through equal-but-distinct keys 1 / True / 1.0 - gives two lists), filled
   row by row with row[column] in the order rows-then-columns; the first row[column] that raises ends
   the call.  row[column] is Python subscription: a tuple / list takes an int (bool included) with
   wrap-around of negative positions, anything else is a TypeError; a dict takes a hashable key
   (KeyError when absent); None is not subscriptable. ---- *)
Section PyDef.
Variable A : Type.                 (* cells *)
Variable K : Type.                 (* dictionary keys, up to Python equality *)
Variable keq : K -> K -> bool.

Inductive prow :=
| PTuple (l : list A)              (* tuple or list *)
| PDict (d : list (K * A))
| PNone.

(* a requested column as Python sees it: its value as a sequence position (ints and bools), its
   identity as a dictionary key (hashable objects) *)
Record pcol := PCol { as_index : option Z; as_key : option K }.

(* l[c] for a tuple / list *)
Definition py_index (l : list A) (c : Z) : option A :=
  let n := Z.of_nat (length l) in
  if ((c <? - n) || (n <=? c))%Z then None
  else nth_error l (Z.to_nat (if (c <? 0)%Z then c + n else c)).

Definition py_item (r : prow) (c : pcol) : access A :=
  match r with
  | PTuple l => match as_index c with
                | Some z => match py_index l z with Some v => Ok v | None => Raise IndexError end
                | None => Raise TypeError
                end
  | PDict d => match as_key c with
               | Some k => match lookup keq d k with Some v => Ok v | None => Raise KeyError end
               | None => Raise TypeError
               end
  | PNone => Raise TypeError
  end.

Definition extract_columns_py (rows : list prow) (cols : list pcol) : access (list (list A)) :=
  bind (mapM (fun r => mapM (py_item r) cols) rows)
       (fun picked => Ok (transpose (length cols) picked)).

Definition int_col (z : Z) : pcol := PCol (Some z) None.

End PyDef.
Arguments PTuple {A K}. Arguments PDict {A K}. Arguments PNone {A K}. Arguments PCol {K}.
Arguments as_index {K}. Arguments as_key {K}. Arguments py_index {A}. Arguments py_item {A K}.
Arguments extract_columns_py {A K}. Arguments int_col {K}.

(* ---- calculate_data_width (compiled.pyx:157-168) ----
   An element is None, or an object with its rendering str(v) as code points. *)
Fixpoint width_loop (vals : list (option (list N))) (max_width : Z) : Z :=
  match vals with
  | [] => max_width
  | None :: r => width_loop r max_width
  | Some s :: r =>
      let width := Z.of_nat (length s) in
      width_loop r (if (width >? max_width)%Z then width else max_width)
  end.

Definition data_width (vals : list (option (list N))) : Z := width_loop vals 4%Z.

(* ---- the SECOND width path: orso.display.markdown (display.py:427-444), plain Python ----
     t = table.slice(length=limit) if limit > 0 else table
     data_width = [max(list(map(len, map(str, [p for p in h if p is not None]))) + [4]) for h in columns of t]
     col_width  = [min(max(len(name), dw), max_column_width) ...]
   written as the source writes it (a maximum over the list of lengths with 4 appended), NOT through
   width_loop: that the two agree is a theorem (C10_markdown_width_agrees). *)
Fixpoint nonnull_lengths (vals : list (option (list N))) : list Z :=
  match vals with
  | [] => []
  | None :: r => nonnull_lengths r
  | Some s :: r => Z.of_nat (length s) :: nonnull_lengths r
  end.

Definition md_data_width (vals : list (option (list N))) : Z :=
  fold_right Z.max 4%Z (nonnull_lengths vals).        (* max(lengths + [4]) *)

Definition md_head (limit : Z) (vals : list (option (list N))) : list (option (list N)) :=
  if (0 <? limit)%Z then firstn (Z.to_nat limit) vals else vals.

Definition md_col_width (name_len : Z) (vals : list (option (list N))) (limit max_column_width : Z) : Z :=
  Z.min (Z.max name_len (md_data_width (md_head limit vals))) max_column_width.

(* ---- comparison used by the correspondence files (cells identified by integers) ---- *)
Inductive obs :=
| ORes (r : list (list Z))     (* returned; the array as a list of columns *)
| OIndexError
| OTypeError
| OOverflowError
| OKeyError
| OOtherExc                    (* some other Python exception *)
| ODied.                       (* the sacrificial process was killed *)

Definition llz_eqb (a b : list (list Z)) : bool :=
  if list_eq_dec (list_eq_dec Z.eq_dec) a b then true else false.

Definition obs_matches (m : access (list (list Z))) (o : obs) : bool :=
  match m, o with
  | Ok r, ORes r' => llz_eqb r r'
  | Raise IndexError, OIndexError => true
  | Raise TypeError, OTypeError => true
  | Raise OverflowError, OOverflowError => true
  | Raise KeyError, OKeyError => true
  | UB, ODied => true            (* a model UB is never acceptable as a normal outcome *)
  | _, _ => false
  end.

Definition c10_collect_check (c : list (rowobj Z) * list Z * Z * obs) : bool :=
  let '(rows, cols, limit, o) := c in obs_matches (collect rows cols limit) o.
Definition c10_collect_show (c : list (rowobj Z) * list Z * Z * obs) :=
  let '(rows, cols, limit, o) := c in collect rows cols limit.

Definition c10_df_check (c : list (rowobj Z) * list Z * option Z * obs) : bool :=
  let '(rows, cols, limit, o) := c in obs_matches (df_collect_conv rows cols limit) o.
Definition c10_df_show (c : list (rowobj Z) * list Z * option Z * obs) :=
  let '(rows, cols, limit, o) := c in df_collect_conv rows cols limit.

(* extract: keys and values interned as integers by the harness; value None = None *)
Definition oz_eqb (a b : option Z) : bool :=
  match a, b with
  | Some x, Some y => Z.eqb x y
  | None, None => true
  | _, _ => false
  end.

Fixpoint loz_eqb (a b : list (option Z)) : bool :=
  match a, b with
  | [], [] => true
  | x :: r, y :: s => oz_eqb x y && loz_eqb r s
  | _, _ => false
  end.

Definition c10_extract_check (c : option (list (Z * option Z)) * list (@field Z) * list (option Z)) : bool :=
  let '(data, fields, o) := c in loz_eqb (extract Z.eqb None data fields) o.
Definition c10_extract_show (c : option (list (Z * option Z)) * list (@field Z) * list (option Z)) :=
  let '(data, fields, o) := c in extract Z.eqb None data fields.

Definition c10_width_check (c : list (option (list N)) * Z) : bool :=
  let '(vals, o) := c in Z.eqb (data_width vals) o.
Definition c10_width_show (c : list (option (list N)) * Z) :=
  let '(vals, o) := c in data_width vals.

(* ---- sequences of calls on one DataFrame (stream "dfseq") ---- *)
Inductive fobs :=
| QCols (o : obs)              (* a collect / __getitem__ step: what it returned or raised *)
| QCount (n : Z)               (* rowcount / len / shape[0] *)
| QNone                        (* returned None *)
| QValueError
| QAttributeError
| QOtherExc.

Definition fout_matches (m : fout Z) (o : fobs) : bool :=
  match m, o with
  | FCols a, QCols o' => obs_matches a o'
  | FCount n, QCount z => Z.eqb (Z.of_nat n) z
  | FNone, QNone => true
  | FValueError, QValueError => true
  | FAttributeError, QAttributeError => true
  | _, _ => false
  end.

Fixpoint fouts_match (ms : list (fout Z)) (os : list fobs) : bool :=
  match ms, os with
  | [], [] => true
  | m :: mr, o :: orr => fout_matches m o && fouts_match mr orr
  | _, _ => false
  end.

Definition c10_dfseq_check (c : backing * list (rowobj Z) * list (fop Z) * list fobs) : bool :=
  let '(k, rows, ops, os) := c in fouts_match (run (frame_init k rows) ops) os.
Definition c10_dfseq_show (c : backing * list (rowobj Z) * list (fop Z) * list fobs) :=
  let '(k, rows, ops, os) := c in run (frame_init k rows) ops.

(* ---- sessions over several row classes and frames (stream "sess"); objects interned as integers,
   None = 0, key equality = equality of the interned ids ---- *)
Inductive sobs :=
| XNone
| XRow (l : list Z)
| XFrame (q : fobs)
| XExc.

Definition lz_eqb (a b : list Z) : bool := if list_eq_dec Z.eq_dec a b then true else false.

Definition sout_matches (m : sout Z) (o : sobs) : bool :=
  match m, o with
  | SNone, XNone => true
  | SRow l, XRow l' => lz_eqb l l'
  | SFrameOut f, XFrame q => fout_matches f q
  | _, _ => false
  end.

Fixpoint souts_match (ms : list (sout Z)) (os : list sobs) : bool :=
  match ms, os with
  | [], [] => true
  | m :: mr, o :: orr => sout_matches m o && souts_match mr orr
  | _, _ => false
  end.

Definition c10_sess_check (c : list (sop Z) * list sobs) : bool :=
  let '(ops, os) := c in souts_match (sess_run Z.eqb 0%Z [] ops) os.
Definition c10_sess_show (c : list (sop Z) * list sobs) :=
  let '(ops, os) := c in sess_run Z.eqb 0%Z [] ops.

(* ---- the plain-Python definition, run beside the compiled collector (stream "pydef") ----
   observed: what extract_columns returned / raised and, when the harness also made the compiled call
   on the same tuple rows and int32-representable indexes, what collect_cython returned / raised *)
Definition prow_to_rowobj (r : prow Z Z) : rowobj Z :=
  match r with PTuple l => RTuple l | _ => RNone end.

Definition c10_pydef_check (c : list (prow Z Z) * list (pcol Z) * obs * option (list Z * obs)) : bool :=
  let '(rows, cols, o, native) := c in
  obs_matches (extract_columns_py Z.eqb rows cols) o &&
  match native with
  | None => true
  | Some (icols, o') => obs_matches (collect (map prow_to_rowobj rows) icols (-1)%Z) o'
  end.
Definition c10_pydef_show (c : list (prow Z Z) * list (pcol Z) * obs * option (list Z * obs)) :=
  let '(rows, cols, o, native) := c in extract_columns_py Z.eqb rows cols.

(* ---- DataFrame.markdown column widths beside the compiled helper (stream "md") ----
   per column: (len(name), rendered cells of ALL rows); observed: the widths markdown used (read off its
   separator line) and what calculate_data_width returned for the same head columns *)
Fixpoint lzz_eqb (a b : list Z) : bool :=
  match a, b with
  | [], [] => true
  | x :: r, y :: t => Z.eqb x y && lzz_eqb r t
  | _, _ => false
  end.

Definition c10_md_check (c : list (Z * list (option (list N))) * Z * Z * list Z * list Z) : bool :=
  let '(cols, limit, maxw, got, native) := c in
  lzz_eqb (map (fun nc => md_col_width (fst nc) (snd nc) limit maxw) cols) got &&
  lzz_eqb (map (fun nc => data_width (md_head limit (snd nc))) cols) native.
Definition c10_md_show (c : list (Z * list (option (list N))) * Z * Z * list Z * list Z) :=
  let '(cols, limit, maxw, got, native) := c in
  (map (fun nc => md_col_width (fst nc) (snd nc) limit maxw) cols,
   map (fun nc => data_width (md_head limit (snd nc))) cols).
