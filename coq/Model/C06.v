(* C06 - executable model of type-name resolution.  No proofs here.

   orso/types.py   _parse_type (lines 29-66)          -> m_array / m_decimal / m_varchar / m_blob, py_int, parse_type
                   OrsoTypes.from_name (147-218)      -> from_upper, from_name_gen, from_name
   orso/schema.py  FlatColumn.__init__ (180-210)      -> column_of
   orso/dataframe.py DataFrame.description (342-394)  -> type_code, desc_prec, desc_scale

   Text is a list of code points.  The tables (enum members, the if/elif chain of from_name, the
   startswith blacklist, the DECIMAL guards, interpreter limits) are regenerated from /repo into
   coq/Gen/C06_*.v on every run; the recognisers below are hand-written for the four regular
   expressions whose source text is in Gen/C06_Regex.v (Proofs/C06.v checks that the texts are
   the ones intended here; the correspondence run compares recogniser and re.match on every case).

   What CPython does with characters outside ASCII is a parameter ([cext]): for a code point
   >= 128, whether \d / \w / \s match it and which digit value int() gives it.  str.upper is a
   parameter of [from_name_gen]; [from_name] is the instance for ASCII text. *)
From Coq Require Import List NArith ZArith Bool String.
From Orso Require Import Base.C06_Defs Gen.C06_Types Gen.C06_Names Gen.C06_Env.
Import ListNotations.
Open Scope N_scope.

(* ---------- text helpers ---------- *)
Fixpoint str_eqb (a b : str) : bool :=
  match a, b with
  | [], [] => true
  | x :: a', y :: b' => (x =? y) && str_eqb a' b'
  | _, _ => false
  end.

(* [strip_prefix pre l] = Some rest  iff  l = pre ++ rest   (str.startswith / a literal regex prefix) *)
Fixpoint strip_prefix (pre l : str) : option str :=
  match pre, l with
  | [], _ => Some l
  | a :: pre', b :: l' => if a =? b then strip_prefix pre' l' else None
  | _ :: _, [] => None
  end.

Definition prefixb (pre l : str) : bool :=
  match strip_prefix pre l with Some _ => true | None => false end.

(* longest prefix of characters in a class, and the rest (a greedy  [class]*  ) *)
Fixpoint span (p : N -> bool) (l : str) : str * str :=
  match l with
  | [] => ([], [])
  | c :: r => if p c then let '(a, b) := span p r in (c :: a, b) else ([], l)
  end.

Definition mem (x : str) (l : list str) : bool := existsb (str_eqb x) l.

Definition upper_char (c : N) : N := if (97 <=? c) && (c <=? 122) then c - 32 else c.
Definition upper (s : str) : str := map upper_char s.     (* str.upper on ASCII text *)
Definition is_ascii (s : str) : bool := forallb (fun c => c <? 128) s.

(* ---------- literals of the four patterns ---------- *)
Definition pfx_array   : str := Eval vm_compute in txt "ARRAY<"%string.
Definition pfx_decimal : str := Eval vm_compute in txt "DECIMAL("%string.
Definition pfx_varchar : str := Eval vm_compute in txt "VARCHAR["%string.
Definition pfx_blob    : str := Eval vm_compute in txt "BLOB["%string.
Definition ty_array    : str := Eval vm_compute in txt "ARRAY"%string.
Definition ty_decimal  : str := Eval vm_compute in txt "DECIMAL"%string.
Definition ty_varchar  : str := Eval vm_compute in txt "VARCHAR"%string.
Definition ty_blob     : str := Eval vm_compute in txt "BLOB"%string.
Definition ty_missing  : str := Eval vm_compute in txt "_MISSING_TYPE"%string.
Definition ch_gt : N := 62.       (* > *)
Definition ch_comma : N := 44.    (* , *)
Definition ch_rpar : N := 41.     (* ) *)
Definition ch_lpar : N := 40.     (* ( *)
Definition ch_lbr : N := 91.      (* [ *)
Definition ch_rbr : N := 93.      (* ] *)

(* ---------- character classes ---------- *)
Record cext := mkX {
  xdigit : N -> option N;    (* code point >= 128: Some v if \d matches it, v = its digit value for int() *)
  xword  : N -> bool;        (* \w *)
  xspace : N -> bool         (* \s *)
}.
Definition X0 : cext := mkX (fun _ => None) (fun _ => false) (fun _ => false).

Inductive tyref :=
| TMember (name : str)     (* OrsoTypes[name] *)
| TZero                    (* the integer 0 (VARIANT / MISSING / "0") *)
| TOther.                  (* anything else the harness might observe; the model never produces it *)

Record descr := mkD {
  d_ty : tyref;
  d_len : option N;
  d_prec : option N;
  d_scale : option N;
  d_elt : option str          (* element type: a member name *)
}.

Inductive parsed :=
| PArray (g : str)
| PDecimal (p s : N)
| PVarchar (n : N)
| PBlob (n : N)
| PName (u : str).

Section Classes.
Variable X : cext.

Definition digit_val (c : N) : option N :=
  if c <? 128 then (if (48 <=? c) && (c <=? 57) then Some (c - 48) else None) else xdigit X c.
Definition is_digit (c : N) : bool := match digit_val c with Some _ => true | None => false end.
Definition is_word (c : N) : bool :=
  if c <? 128
  then ((48 <=? c) && (c <=? 57)) || ((65 <=? c) && (c <=? 90)) || (c =? 95) || ((97 <=? c) && (c <=? 122))
  else xword X c.
Definition is_space (c : N) : bool :=
  if c <? 128 then ((9 <=? c) && (c <=? 13)) || ((28 <=? c) && (c <=? 32)) else xspace X c.
(* [\w\s\[\]\(\)] *)
Definition is_elem (c : N) : bool :=
  is_word c || is_space c || (c =? ch_lbr) || (c =? ch_rbr) || (c =? ch_lpar) || (c =? ch_rpar).

(* ARRAY<([\w\s\[\]\(\)]+)>   -> group 1 *)
Definition m_array (u : str) : option str :=
  match strip_prefix pfx_array u with
  | None => None
  | Some r =>
      let '(g, r') := span is_elem r in
      match g, r' with
      | _ :: _, c :: _ => if c =? ch_gt then Some g else None
      | _, _ => None
      end
  end.

(* (\d+) followed by the literal character [close]: the digits and what follows the literal *)
Definition m_digits_close (close : N) (r : str) : option (str * str) :=
  let '(ds, r') := span is_digit r in
  match ds, r' with
  | _ :: _, c :: r'' => if c =? close then Some (ds, r'') else None
  | _, _ => None
  end.

(* DECIMAL\((\d+),\s*(\d+)\)   -> groups 1, 2 *)
Definition m_decimal (u : str) : option (str * str) :=
  match strip_prefix pfx_decimal u with
  | None => None
  | Some r =>
      match m_digits_close ch_comma r with
      | None => None
      | Some (d1, r1) =>
          match m_digits_close ch_rpar (snd (span is_space r1)) with
          | None => None
          | Some (d2, _) => Some (d1, d2)
          end
      end
  end.

(* VARCHAR\[(\d+)\]  /  BLOB\[(\d+)\]   -> group 1 *)
Definition m_bracket (pfx u : str) : option str :=
  match strip_prefix pfx u with
  | None => None
  | Some r => match m_digits_close ch_rbr r with Some (ds, _) => Some ds | None => None end
  end.
Definition m_varchar := m_bracket pfx_varchar.
Definition m_blob := m_bracket pfx_blob.

(* int(ds) for a run matched by \d+ *)
Definition int_digits (ds : str) : N :=
  fold_left (fun a c => 10 * a + match digit_val c with Some v => v | None => 0 end) ds 0.
Definition py_int (ds : str) : result N :=
  if max_str_digits <? N.of_nat (List.length ds) then Raise ValueError else Ok (int_digits ds).

Definition parse_type (u : str) : result parsed :=
  match m_array u with
  | Some g => Ok (PArray g)
  | None =>
  match m_decimal u with
  | Some (d1, d2) =>
      match py_int d1 with
      | Raise e => Raise e
      | Ok p => match py_int d2 with Raise e => Raise e | Ok s => Ok (PDecimal p s) end
      end
  | None =>
  match m_varchar u with
  | Some d => match py_int d with Raise e => Raise e | Ok n => Ok (PVarchar n) end
  | None =>
  match m_blob u with
  | Some d => match py_int d with Raise e => Raise e | Ok n => Ok (PBlob n) end
  | None => Ok (PName (upper u))
  end end end end.

(* ---- from_name: plain-name branch, interpreted from Gen.C06_Names.name_rules ---- *)
Definition var_val (u pn : str) (v : svar) : str := match v with VParsed => pn | VTypeName => u end.

Definition test_holds (u pn : str) (t : stest) : bool :=
  match t with
  | TEq v c => str_eqb (var_val u pn v) c
  | TIn v => mem (var_val u pn v) member_names
  end.

Definition plain (t : tyref) (e : option str) : descr := mkD t None None None e.

Definition run_act (u pn : str) (a : sact) : result descr :=
  match a with
  | ASet ty elt => Ok (plain (TMember ty) elt)
  | AMember v => if mem (var_val u pn v) member_names
                 then Ok (plain (TMember (var_val u pn v)) None)
                 else Raise OtherExn                       (* OrsoTypes[...] KeyError *)
  | AZero => Ok (plain TZero None)
  | ARaise e => Raise e
  end.

Fixpoint run_rules (u pn : str) (rs : list srule) : result descr :=
  match rs with
  | [] => run_act u pn name_default
  | (ts, a) :: r => if existsb (test_holds u pn) ts then run_act u pn a else run_rules u pn r
  end.

(* ---- ARRAY<g> ---- *)
Definition from_array (g : str) : result descr :=
  if existsb (fun b => prefixb b g) array_blacklist then Raise array_blacklist_exn
  else if mem g member_names then Ok (plain (TMember ty_array) (Some g))
  else Raise array_unknown_exn.

(* ---- DECIMAL(p,s), guards interpreted from Gen.C06_Names.decimal_guards ---- *)
Definition dterm_val (p s : N) (t : dterm) : Z :=
  match t with DPrec => Z.of_N p | DScale => Z.of_N s | DConst z => z end.
Definition dcmp_holds (p s : N) (c : dcmp) : bool :=
  let '(a, o, b) := c in
  let x := dterm_val p s a in
  let y := dterm_val p s b in
  match o with
  | OLt => (x <? y)%Z | OGt => (x >? y)%Z | OLe => (x <=? y)%Z
  | OGe => (x >=? y)%Z | OEq => (x =? y)%Z | ONe => negb (x =? y)%Z
  end.
Fixpoint run_guards (p s : N) (gs : list dguard) : option exn :=
  match gs with
  | [] => None
  | (cs, e) :: r => if existsb (dcmp_holds p s) cs then Some e else run_guards p s r
  end.
Definition from_decimal (p s : N) : result descr :=
  match run_guards p s decimal_guards with
  | Some e => Raise e
  | None => Ok (mkD (TMember ty_decimal) None (Some p) (Some s) None)
  end.

(* from_name after  type_name = str(name).upper() *)
Definition from_upper (u : str) : result descr :=
  match parse_type u with
  | Raise e => Raise e
  | Ok (PName pn) => run_rules u pn name_rules
  | Ok (PArray g) => from_array g
  | Ok (PDecimal p s) => from_decimal p s
  | Ok (PVarchar n) => Ok (mkD (TMember ty_varchar) (Some n) None None None)
  | Ok (PBlob n) => Ok (mkD (TMember ty_blob) (Some n) None None None)
  end.

Definition from_name_gen (up : str -> str) (s : str) : result descr := from_upper (up s).

End Classes.

(* OrsoTypes.from_name on ASCII text *)
Definition from_name (s : str) : result descr := from_name_gen X0 upper s.

(* ---------- decimal rendering of a non-negative int (str(n) / f"{n}") ---------- *)
Fixpoint dec_aux (fuel : nat) (n : N) (acc : str) : str :=
  match fuel with
  | O => acc
  | S f => let acc' := (48 + n mod 10) :: acc in
           if n / 10 =? 0 then acc' else dec_aux f (n / 10) acc'
  end.
Definition dec (n : N) : str := dec_aux (S (N.to_nat (N.size n))) n [].

Definition txt_none : str := Eval vm_compute in txt "None"%string.
Definition opt_dec (o : option N) : str := match o with Some n => dec n | None => txt_none end.

(* ---------- FlatColumn(type=<name>): what the column carries ---------- *)
Definition column_of (d : descr) : descr :=
  match d_ty d with
  | TMember m =>
      if str_eqb m ty_decimal then
        let p := match d_prec d with Some p => p | None => default_prec end in
        let s := match d_scale d with Some s => s | None => 3 * p / 4 end in   (* int(0.75 * precision) *)
        mkD (TMember m) (d_len d) (Some p) (Some s) (d_elt d)
      else d
  | t => plain t None                   (* type 0 is not an OrsoTypes: nothing is copied *)
  end.

(* ---------- DataFrame.description: type code, precision, scale ---------- *)
Fixpoint lookup (k : str) (l : list (str * str)) : option str :=
  match l with
  | [] => None
  | (a, b) :: r => if str_eqb k a then Some b else lookup k r
  end.
Definition value_of_name (m : str) : str := match lookup m members with Some v => v | None => [] end.
Definition value_of (t : tyref) : str :=
  match t with
  | TMember m => value_of_name m
  | _ => value_of_name ty_missing        (* `if not column_type: column_type = _MISSING_TYPE` *)
  end.

Definition type_code (c : descr) : str :=
  let v := value_of (d_ty c) in
  let v1 := if str_eqb v ty_decimal
            then pfx_decimal ++ opt_dec (d_prec c) ++ [ch_comma] ++ opt_dec (d_scale c) ++ [ch_rpar]
            else v in
  if str_eqb v ty_array
  then match d_elt c with Some e => pfx_array ++ value_of_name e ++ [ch_gt] | None => v1 end
  else v1.
Definition desc_prec (c : descr) : option N := if str_eqb (value_of (d_ty c)) ty_decimal then d_prec c else None.
Definition desc_scale (c : descr) : option N := if str_eqb (value_of (d_ty c)) ty_decimal then d_scale c else None.

(* ---------- well-formed descriptions (boolean; Proofs/C06.v relates it to the Prop form) ---------- *)
Definition onone {A} (o : option A) : bool := match o with None => true | Some _ => false end.

Definition scalar_elt (e : str) : bool :=
  mem e member_names && negb (str_eqb e ty_array) && negb (str_eqb e ty_decimal).

Definition wfb (d : descr) : bool :=
  match d_ty d with
  | TOther => false
  | TZero => onone (d_len d) && onone (d_prec d) && onone (d_scale d) && onone (d_elt d)
  | TMember m =>
      mem m member_names &&
      (if str_eqb m ty_decimal then
         onone (d_len d) && onone (d_elt d) &&
         match d_prec d, d_scale d with
         | None, None => true
         | Some p, Some s => (s <=? p) && (p <=? 38)
         | _, _ => false
         end
       else if str_eqb m ty_varchar || str_eqb m ty_blob then
         onone (d_prec d) && onone (d_scale d) && onone (d_elt d)
       else if str_eqb m ty_array then
         onone (d_len d) && onone (d_prec d) && onone (d_scale d) &&
         match d_elt d with None => true | Some e => scalar_elt e end
       else onone (d_len d) && onone (d_prec d) && onone (d_scale d) && onone (d_elt d))
  end.

(* ---------- well-formed type names, what they denote, how they are written ---------- *)
Inductive tname :=
| NBase (m : str)            (* a member name *)
| NDecimal (p s : N)         (* DECIMAL(p,s) *)
| NVarchar (n : N)           (* VARCHAR[n] *)
| NBlob (n : N)              (* BLOB[n] *)
| NArray (e : str).          (* ARRAY<e> *)

Definition digits_ok (n : N) : bool := N.of_nat (List.length (dec n)) <=? max_str_digits.

Definition wf_name (t : tname) : bool :=
  match t with
  | NBase m => mem m member_names
  | NDecimal p s => (s <=? p) && (p <=? 38)
  | NVarchar n | NBlob n => digits_ok n
  | NArray e => scalar_elt e
  end.

Definition render (t : tname) : str :=
  match t with
  | NBase m => m
  | NDecimal p s => pfx_decimal ++ dec p ++ [ch_comma] ++ dec s ++ [ch_rpar]
  | NVarchar n => pfx_varchar ++ dec n ++ [ch_rbr]
  | NBlob n => pfx_blob ++ dec n ++ [ch_rbr]
  | NArray e => pfx_array ++ e ++ [ch_gt]
  end.

Definition denote (t : tname) : descr :=
  match t with
  | NBase m => if str_eqb m ty_array then plain (TMember m) (Some ty_varchar)   (* documented default *)
               else plain (TMember m) None
  | NDecimal p s => mkD (TMember ty_decimal) None (Some p) (Some s) None
  | NVarchar n => mkD (TMember ty_varchar) (Some n) None None None
  | NBlob n => mkD (TMember ty_blob) (Some n) None None None
  | NArray e => plain (TMember ty_array) (Some e)
  end.

(* ---------- comparison used by the correspondence files ---------- *)
Definition optN_eqb (a b : option N) : bool :=
  match a, b with None, None => true | Some x, Some y => x =? y | _, _ => false end.
Definition optS_eqb (a b : option str) : bool :=
  match a, b with None, None => true | Some x, Some y => str_eqb x y | _, _ => false end.
Definition tyref_eqb (a b : tyref) : bool :=
  match a, b with
  | TMember x, TMember y => str_eqb x y
  | TZero, TZero => true
  | _, _ => false                       (* TOther equals nothing *)
  end.
Definition descr_eqb (a b : descr) : bool :=
  tyref_eqb (d_ty a) (d_ty b) && optN_eqb (d_len a) (d_len b) && optN_eqb (d_prec a) (d_prec b)
  && optN_eqb (d_scale a) (d_scale b) && optS_eqb (d_elt a) (d_elt b).
Definition exn_eqb (a b : exn) : bool :=
  match a, b with ValueError, ValueError => true | OtherExn, OtherExn => true | _, _ => false end.
Definition result_eqb (a b : result descr) : bool :=
  match a, b with
  | Ok x, Ok y => descr_eqb x y
  | Raise x, Raise y => exn_eqb x y
  | _, _ => false
  end.

Inductive colobs :=
| ColRaise (e : exn)
| ColOk (c : descr) (code : str) (dprec dscale : option N) (back : result descr).

Definition col_eqb (a b : colobs) : bool :=
  match a, b with
  | ColRaise x, ColRaise y => exn_eqb x y
  | ColOk c1 k1 p1 s1 b1, ColOk c2 k2 p2 s2 b2 =>
      descr_eqb c1 c2 && str_eqb k1 k2 && optN_eqb p1 p2 && optN_eqb s1 s2 && result_eqb b1 b2
  | _, _ => false
  end.

(* FlatColumn(type=s), DataFrame.description, from_name(type code) *)
Definition column_model (X : cext) (up : str -> str) (s : str) : colobs :=
  match from_name_gen X up s with
  | Raise e => ColRaise e
  | Ok d => let c := column_of d in
            ColOk c (type_code c) (desc_prec c) (desc_scale c) (from_name (type_code c))
  end.

Definition rxobs := (option str * option (str * str) * option str * option str)%type.
Definition rx_eqb (a b : rxobs) : bool :=
  let '(a1, a2, a3, a4) := a in
  let '(b1, b2, b3, b4) := b in
  optS_eqb a1 b1 &&
  match a2, b2 with
  | None, None => true
  | Some (x1, x2), Some (y1, y2) => str_eqb x1 y1 && str_eqb x2 y2
  | _, _ => false
  end && optS_eqb a3 b3 && optS_eqb a4 b4.

Definition ext_table := list (N * (option N * bool * bool)).
Fixpoint ext_find (l : ext_table) (c : N) : option (option N * bool * bool) :=
  match l with
  | [] => None
  | (k, v) :: r => if k =? c then Some v else ext_find r c
  end.
Definition ext_of (l : ext_table) : cext :=
  mkX (fun c => match ext_find l c with Some (d, _, _) => d | None => None end)
      (fun c => match ext_find l c with Some (_, w, _) => w | None => false end)
      (fun c => match ext_find l c with Some (_, _, s) => s | None => false end).

Definition rx_model (X : cext) (u : str) : rxobs := (m_array X u, m_decimal X u, m_varchar X u, m_blob X u).

(* a case: (s, str.upper(s) as computed by CPython, classes of the non-ASCII characters of that,
   re.match groups of the four patterns on it, from_name(s), column/description/back) *)
Definition c06_case := (str * str * ext_table * rxobs * result descr * colobs)%type.

Definition c06_check (c : c06_case) : bool :=
  let '(s, u, ext, rx, nm, col) := c in
  if is_ascii s then
    str_eqb (upper s) u && rx_eqb (rx_model X0 (upper s)) rx
    && result_eqb (from_name s) nm && col_eqb (column_model X0 upper s) col
  else
    let X := ext_of ext in
    rx_eqb (rx_model X u) rx
    && result_eqb (from_name_gen X (fun _ => u) s) nm && col_eqb (column_model X (fun _ => u) s) col.

Definition c06_show (c : c06_case) :=
  let '(s, u, ext, rx, nm, col) := c in
  if is_ascii s then (upper s, rx_model X0 (upper s), from_name s, column_model X0 upper s)
  else let X := ext_of ext in (u, rx_model X u, from_name_gen X (fun _ => u) s, column_model X (fun _ => u) s).

(* literal helpers for the generated case files: long runs of one character, and
   integers above 64 bits as little-endian 64-bit limbs *)
Definition rep (k c : N) : str := N.iter k (cons c) [].
(* k copies of a short text (generated case files: deeply nested / periodic names) *)
Definition reps (k : N) (u : str) : str := N.iter k (fun acc => u ++ acc) [].
Definition limbs (l : list N) : N := fold_right (fun x a => x + 18446744073709551616 * a) 0 l.

(* a description whose type (and element type) has an enum value equal to its name: all
   members except the placeholder _MISSING_TYPE, whose value is "0" *)
Definition proper (d : descr) : bool :=
  match d_ty d with
  | TMember m => str_eqb (value_of_name m) m &&
                 match d_elt d with Some e => str_eqb (value_of_name e) e | None => true end
  | _ => false
  end.

(* the canonical name of a description: None for the integer 0 and for ARRAY without an
   element type (what the deprecated alias LIST yields), which no well-formed name denotes *)
Definition name_of (d : descr) : option tname :=
  match d_ty d with
  | TMember m =>
      if str_eqb m ty_decimal then
        match d_prec d, d_scale d with Some p, Some s => Some (NDecimal p s) | _, _ => Some (NBase m) end
      else if str_eqb m ty_varchar then
        match d_len d with Some n => Some (NVarchar n) | None => Some (NBase m) end
      else if str_eqb m ty_blob then
        match d_len d with Some n => Some (NBlob n) | None => Some (NBase m) end
      else if str_eqb m ty_array then
        match d_elt d with Some e => Some (NArray e) | None => None end
      else Some (NBase m)
  | _ => None
  end.

(* an ASCII digit 0-9 (used to state the spelling theorems) *)
Definition ascii_digit (c : N) : Prop := 48 <= c <= 57.

(* ====================================================================================
   Round 2: DataFrame.description over a WHOLE schema (orso/dataframe.py 342-394 is a loop
   over self.column_names; each iteration looks its column up BY NAME with
   RelationSchema.find_column (orso/schema.py 581-600: the first column whose names contain
   it) and renders it).  The single-column [column_model] above says nothing about what one
   column's entry may depend on; the definitions below make the frame the unit.
   ==================================================================================== *)
Definition schema := list (str * descr).          (* (column name, what the column carries), schema order *)

(* RelationSchema.find_column(name): the first column with that name (no aliases are declared) *)
Fixpoint find_column (n : str) (sch : schema) : option descr :=
  match sch with
  | [] => None
  | (m, c) :: r => if str_eqb n m then Some c else find_column n r
  end.

(* one description tuple: (name, type_code, precision, scale)   [display/internal size are None] *)
Definition desc_entry := (str * str * option N * option N)%type.
Definition entry_of (n : str) (c : descr) : desc_entry := (n, type_code c, desc_prec c, desc_scale c).
Definition e_name (e : desc_entry) : str := let '(n, _, _, _) := e in n.
Definition e_code (e : desc_entry) : str := let '(_, k, _, _) := e in k.

(* the loop body: look the column up by name, render it.  (A name that find_column does not
   find cannot occur - the names come from the schema itself, Proofs/C06_Frame.v
   [description_first_match] - the implementation would raise AttributeError there.) *)
Definition describe_column (sch : schema) (n : str) : desc_entry :=
  match find_column n sch with
  | Some c => entry_of n c
  | None => (n, [], None, None)
  end.
Definition description (sch : schema) : list desc_entry := map (describe_column sch) (map fst sch).

(* a declared column as the correspondence supplies it: column name, the type-name string s,
   CPython's str.upper(s) and the classes of its non-ASCII characters (used only when s is
   not ASCII, exactly as in [c06_check]) *)
Definition col_in := (str * str * str * ext_table)%type.
Definition ci_name (ci : col_in) : str := let '(n, _, _, _) := ci in n.
Definition ci_text (ci : col_in) : str := let '(_, s, _, _) := ci in s.
Definition ci_X (ci : col_in) : cext := let '(_, s, _, ext) := ci in if is_ascii s then X0 else ext_of ext.
Definition ci_upper (ci : col_in) : str := let '(_, s, u, _) := ci in if is_ascii s then upper s else u.
Definition ci_resolve (ci : col_in) : result descr :=
  from_name_gen (ci_X ci) (fun _ => ci_upper ci) (ci_text ci).
(* FlatColumn(name=n, type=s): raises what from_name raises, else carries [column_of] *)
Definition declared (ci : col_in) : result descr :=
  match ci_resolve ci with Ok d => Ok (column_of d) | Raise e => Raise e end.
(* the schema built from the columns whose constructor did not raise, in order *)
Definition schema_of (cols : list col_in) : schema :=
  flat_map (fun ci => match declared ci with Ok c => [(ci_name ci, c)] | Raise _ => [] end) cols.

(* what is observed of a frame: every description entry and from_name(its type code) *)
Definition desc_obs := (desc_entry * result descr)%type.
Definition frame_desc (cols : list col_in) : list desc_obs :=
  map (fun e => (e, from_name (e_code e))) (description (schema_of cols)).

Definition entry_eqb (a b : desc_entry) : bool :=
  let '(n1, k1, p1, s1) := a in
  let '(n2, k2, p2, s2) := b in
  str_eqb n1 n2 && str_eqb k1 k2 && optN_eqb p1 p2 && optN_eqb s1 s2.
Definition dobs_eqb (a b : desc_obs) : bool := entry_eqb (fst a) (fst b) && result_eqb (snd a) (snd b).
Fixpoint list_eqb {A : Type} (eqb : A -> A -> bool) (l1 l2 : list A) : bool :=
  match l1, l2 with
  | [], [] => true
  | a :: r1, b :: r2 => eqb a b && list_eqb eqb r1 r2
  | _, _ => false
  end.

(* a frame case: the declared columns, each with what the constructor did (Raise, or the
   attributes read AFTER the frame was built and described), and the list returned by each of
   the successive calls of .description on that one frame (None: the call raised / returned
   something that is not a list of tuples of the expected shape) *)
Definition frame_case := (list (col_in * result descr) * list (option (list desc_obs)))%type.

Definition c06_frame_check (fc : frame_case) : bool :=
  let '(cols, calls) := fc in
  let want := frame_desc (map fst cols) in
  forallb (fun cr => result_eqb (declared (fst cr)) (snd cr)) cols
  && match calls with [] => false | _ => true end
  && forallb (fun call => match call with Some l => list_eqb dobs_eqb l want | None => false end) calls.

Definition c06_frame_show (fc : frame_case) :=
  let '(cols, calls) := fc in (map (fun cr => declared (fst cr)) cols, frame_desc (map fst cols)).

(* ====================================================================================
   Round 3: SESSIONS on one RelationSchema object.  The schema is a mutable object shared by
   every DataFrame built on it; columns are re-declared in place, appended, popped, or have
   their attributes assigned, between calls of .description through the same or another
   DataFrame object.  The state below is explicit about the two things that outlive a call in
   the implementation: the schema object's current column list, and the process-wide
   single-item cache of DataFrame.column_names (orso/dataframe.py 400-405, orso/tools.py
   single_item_cache: ONE entry, keyed by the DataFrame object) - the only memory
   .description has besides the schema.
   ==================================================================================== *)
Record sess := mkS {
  s_schema : schema;                       (* the schema object's columns, now *)
  s_cache : option (nat * list str)        (* column_names cache: (frame object, the names it saw) *)
}.

Inductive op :=
| ODescribe (f : nat)                (* frames[f].description; frame f is created on the schema at first use *)
| OReplace (i : nat) (ci : col_in)   (* schema.columns[i mod len] = FlatColumn(name, type) *)
| OAppend (ci : col_in)              (* schema.columns.append(FlatColumn(name, type)) *)
| OPop (n : str)                     (* schema.pop_column(n): removes the first column named n *)
| ORetype (i : nat) (ci : col_in)    (* in place on the column OBJECT schema.columns[i mod len]:
                                        type, length, precision, scale, element_type = from_name(s) *)
(* round 6: copies.  how = 0 copy.copy, 1 copy.deepcopy, 2 pickle.loads(pickle.dumps(.)): a copy is an
   equal object, so which one is used makes no difference to what is reported *)
| ODescribeCopy (how : nat)          (* DataFrame(rows=[], schema=<copy of the schema object>).description *)
| OCopyColumn (i : nat) (how : nat). (* schema.columns[i mod len] = <copy of that column object> *)

Inductive sobs :=
| SDesc (now : schema) (r : result (list desc_obs))   (* the schema as read from the objects at this step; what .description did *)
| SDecl (r : result descr)                            (* what FlatColumn(...) / from_name(...) did *)
| SPop (found : bool).

(* the loop of .description over a given list of names *)
Fixpoint describe_names (sch : schema) (names : list str) : result (list desc_entry) :=
  match names with
  | [] => Ok []
  | n :: r =>
      match find_column n sch with
      | None => Raise OtherExn                    (* None.type: AttributeError *)
      | Some c => match describe_names sch r with Ok l => Ok (entry_of n c :: l) | Raise e => Raise e end
      end
  end.

Definition with_back (l : list desc_entry) : list desc_obs := map (fun e => (e, from_name (e_code e))) l.

Fixpoint update_nth {A : Type} (i : nat) (g : A -> A) (l : list A) : list A :=
  match l, i with
  | [], _ => []
  | a :: r, O => g a :: r
  | a :: r, S j => a :: update_nth j g r
  end.

Fixpoint remove_first (n : str) (sch : schema) : schema * bool :=
  match sch with
  | [] => ([], false)
  | (m, c) :: r => if str_eqb m n then (r, true) else let '(r', b) := remove_first n r in ((m, c) :: r', b)
  end.

Definition idx_of (i : nat) (sch : schema) : nat := Nat.modulo i (List.length sch).

Definition step (st : sess) (o : op) : sess * sobs :=
  let sch := s_schema st in
  match o with
  | ODescribe f =>
      let names := match s_cache st with
                   | Some (g, ns) => if Nat.eqb g f then ns else map fst sch
                   | None => map fst sch
                   end in
      (mkS sch (Some (f, names)),
       SDesc sch (match describe_names sch names with Ok l => Ok (with_back l) | Raise e => Raise e end))
  | OReplace i ci =>
      match declared ci with
      | Ok c => (mkS (update_nth (idx_of i sch) (fun _ => (ci_name ci, c)) sch) (s_cache st), SDecl (Ok c))
      | Raise e => (st, SDecl (Raise e))
      end
  | OAppend ci =>
      match declared ci with
      | Ok c => (mkS (sch ++ [(ci_name ci, c)]) (s_cache st), SDecl (Ok c))
      | Raise e => (st, SDecl (Raise e))
      end
  | OPop n => let '(sch', b) := remove_first n sch in (mkS sch' (s_cache st), SPop b)
  | ORetype i ci =>
      match ci_resolve ci with
      | Ok d => (mkS (update_nth (idx_of i sch) (fun nc => (fst nc, d)) sch) (s_cache st), SDecl (Ok d))
      | Raise e => (st, SDecl (Raise e))
      end
  | ODescribeCopy _ =>
      (* a new frame on the copy: its names are computed afresh (and it becomes the cached frame, which
         no frame of the session is: the same as an empty cache) *)
      (mkS sch None,
       SDesc sch (match describe_names sch (map fst sch) with Ok l => Ok (with_back l) | Raise e => Raise e end))
  | OCopyColumn i _ =>
      (st, match nth_error sch (idx_of i sch) with Some nc => SDecl (Ok (snd nc)) | None => SPop false end)
  end.

Fixpoint run (st : sess) (ops : list op) : sess * list sobs :=
  match ops with
  | [] => (st, [])
  | o :: r => let '(st1, ob) := step st o in let '(st2, obs) := run st1 r in (st2, ob :: obs)
  end.

Definition start (cols : list col_in) : sess := mkS (schema_of cols) None.

(* ---- comparison ---- *)
Definition schema_eqb (a b : schema) : bool :=
  list_eqb (fun x y => str_eqb (fst x) (fst y) && descr_eqb (snd x) (snd y)) a b.
Definition sobs_eqb (a b : sobs) : bool :=
  match a, b with
  | SDesc s1 (Ok l1), SDesc s2 (Ok l2) => schema_eqb s1 s2 && list_eqb dobs_eqb l1 l2
  | SDesc s1 (Raise e1), SDesc s2 (Raise e2) => schema_eqb s1 s2 && exn_eqb e1 e2
  | SDecl r1, SDecl r2 => result_eqb r1 r2
  | SPop b1, SPop b2 => Bool.eqb b1 b2
  | _, _ => false
  end.

(* a session case: the columns the schema is created with (each with what its constructor
   did), the operations each with what was observed, and the schema read back at the end *)
Definition session_case := (list (col_in * result descr) * list (op * sobs) * schema)%type.

Definition c06_session_check (sc : session_case) : bool :=
  let '(cols, steps, final) := sc in
  let '(st, obs) := run (start (map fst cols)) (map fst steps) in
  forallb (fun cr => result_eqb (declared (fst cr)) (snd cr)) cols
  && list_eqb sobs_eqb obs (map snd steps)
  && schema_eqb (s_schema st) final.

Definition c06_session_show (sc : session_case) :=
  let '(cols, steps, final) := sc in run (start (map fst cols)) (map fst steps).

(* ---- vocabulary of the session theorems (Props/C06.v) ---- *)
(* what .description must answer in state st: the schema as it is now, rendered column by column *)
Definition current_view (st : sess) : sobs := SDesc (s_schema st) (Ok (with_back (description (s_schema st)))).

(* the frame object is not the one the column_names cache remembers (a new frame, or any frame
   other than the last one described) *)
Definition not_cached (f : nat) (st : sess) : Prop :=
  match s_cache st with Some (g, _) => g <> f | None => True end.

(* the cache remembers this frame, with the names the schema has now *)
Definition cached_current (f : nat) (st : sess) : Prop :=
  s_cache st = Some (f, map fst (s_schema st)).

(* an operation that re-declares a column in place under the name it already has *)
Definition in_place (o : op) (st : sess) : Prop :=
  match o with
  | ORetype _ _ => True
  | OReplace i ci => forall nc, nth_error (s_schema st) (idx_of i (s_schema st)) = Some nc -> fst nc = ci_name ci
  | _ => False
  end.

(* ====================================================================================
   Round 4: FlatColumn(name=..., type=<name>, length=?, precision=?, scale=?, element_type=?)
   - the constructor's own keyword arguments next to the type name (orso/schema.py 153-206).
   Every keyword may be omitted, passed as None, or passed with a value.  __init__ first stores
   what was passed (or the dataclass default None), resolves a non-OrsoTypes element_type with
   from_name(...)[0], resolves the type name, and then copies each parameter parsed from the
   name onto the column WHERE THE ATTRIBUTE IS NONE (only if the resolved type is an OrsoTypes
   member); then the DECIMAL defaults.
   ==================================================================================== *)
Inductive kwN := KOmit | KNone | KVal (n : N).
Inductive kwE :=
| EOmit | ENone
| EMember (m : str)         (* element_type=OrsoTypes.<m> *)
| EName (ci : col_in).      (* element_type="<type name>": from_name(...)[0]; the column name of ci is unused *)
Record kwargs := mkKw { k_len : kwN; k_prec : kwN; k_scale : kwN; k_elt : kwE }.
Definition kw_omitted : kwargs := mkKw KOmit KOmit KOmit EOmit.

Definition kwN_value (k : kwN) : option N := match k with KVal n => Some n | _ => None end.

(* the element type the caller passed, resolved.  (A name that resolves to the integer 0 -
   VARIANT, MISSING, "0" - would leave element_type = 0; the description record cannot say
   that, the harness does not send such cases to Coq.) *)
Definition elt_resolve (k : kwE) : result (option str) :=
  match k with
  | EOmit | ENone => Ok None
  | EMember m => Ok (Some m)
  | EName ci => match ci_resolve ci with
                | Raise e => Raise e
                | Ok d => match d_ty d with TMember m => Ok (Some m) | _ => Ok None end
                end
  end.

Definition fill (own parsed : option N) (copy : bool) : option N :=
  match own with Some v => Some v | None => if copy then parsed else None end.

(* what the column carries: the caller's own value where one was passed, else (for an OrsoTypes
   type) the parameter parsed from the name; then the DECIMAL defaults *)
Definition column_kw (kw : kwargs) (e0 : option str) (d : descr) : descr :=
  let copy := match d_ty d with TMember _ => true | _ => false end in
  let l := fill (kwN_value (k_len kw)) (d_len d) copy in
  let p := fill (kwN_value (k_prec kw)) (d_prec d) copy in
  let s := fill (kwN_value (k_scale kw)) (d_scale d) copy in
  let e := match e0 with Some m => Some m | None => if copy then d_elt d else None end in
  match d_ty d with
  | TMember m =>
      if str_eqb m ty_decimal then
        let p' := match p with Some p => p | None => default_prec end in
        let s' := match s with Some s => s | None => 3 * p' / 4 end in
        mkD (TMember m) l (Some p') (Some s') e
      else mkD (TMember m) l p s e
  | t => mkD t l p s e
  end.

(* FlatColumn(type=s, **kw), DataFrame.description of the one-column frame, from_name(type code) *)
Definition decl_model (ci : col_in) (kw : kwargs) : colobs :=
  match elt_resolve (k_elt kw) with
  | Raise e => ColRaise e
  | Ok e0 =>
      match ci_resolve ci with
      | Raise e => ColRaise e
      | Ok d => let c := column_kw kw e0 d in
                ColOk c (type_code c) (desc_prec c) (desc_scale c) (from_name (type_code c))
      end
  end.

(* no keyword carries a value: each is omitted or an explicit None *)
Definition unspecified (kw : kwargs) : bool :=
  onone (kwN_value (k_len kw)) && onone (kwN_value (k_prec kw)) && onone (kwN_value (k_scale kw))
  && match k_elt kw with EOmit | ENone => true | _ => false end.

Definition decl_case := (col_in * kwargs * colobs)%type.
Definition c06_decl_check (c : decl_case) : bool := let '(ci, kw, obs) := c in col_eqb (decl_model ci kw) obs.
Definition c06_decl_show (c : decl_case) := let '(ci, kw, obs) := c in decl_model ci kw.
