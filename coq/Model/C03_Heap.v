(* C03 (round 2) - object-level model of DataFrames whose derived lazy frames stay UNFORCED
   while other frames (their sources included) are observed.

   Model/C03.v lists every result at once, so "when does a lazy result look at its source"
   cannot be seen there.  Here frames and generators are objects:

     frame      = schema + _rows, where _rows is a list or a reference to a generator object
     generator  = one of
       GRows p            a plain one-shot generator of rows handed to DataFrame(rows=...)
       GSelectNew src ix  select()'s _inner_projection(), not yet started: a generator FUNCTION
                          with [self] in its closure - it reads  self._rows  (frame src, as it
                          is THEN) when it is first advanced
       GSelect it ix      the same, started: iterating [it]
       GFilterNew src m   filter()'s _inner_filter(), not yet started (since the repair of F-C03-6,
                          75a1e72, a generator function like select's: zip(self._rows, mask) is
                          evaluated when it is first advanced)
       GFilter it mask    the same, started: zip(it, mask)
       GTakeNew src idx   take()'s _inner_take(), not yet started (likewise)
       GTake it idx i     the same, started: enumerate(it) at position i
       GDone              finished
     iter       = ILst rest (a list iterator: private) | IGen g (iter(generator) is the generator
                  itself: shared with every other holder)

   [gnext] advances a generator by one item the way CPython does (zip asks the rows first, then
   the mask; a generator that raises StopIteration is finished for good); materialize() /
   comprehensions / list() drain with [gdrain].  Operators that do not return a lazy frame reuse
   the operator definitions of Model/C03.v ([apply_op] on the materialised / consumed rows), so
   the theorems of Props/C03.v about them speak of the very functions evaluated here.
   No proofs in this file. *)
From Coq Require Import List ZArith Bool.
From Orso Require Import Base.PySlice Model.C03.
Import ListNotations.
Local Open Scope nat_scope.

Section Heap.
Variable V : Type.
Variable veqb : V -> V -> bool.
Variable dflt : V.
Variable Nm : Type.
Variable nmeqb : Nm -> Nm -> bool.

Local Notation row := (list V).

(* _rows: a list, a generator object, or (round 7) an eager sequence that is NOT a list - a tuple of
   rows handed to DataFrame(rows=...): re-iterable like a list, but only materialize() makes it the
   list that slicing, list +, append and the compiled collector need *)
Inductive rowsref := RL (l : list row) | RG (g : nat) | RT (l : list row).
Record hframe := mkH { hsch : schema Nm; hrows : rowsref }.

Inductive iter := ILst (rest : list row) | IGen (g : nat).

Inductive gstate :=
| GRows (pending : list row)
| GSelectNew (src : nat) (idx : list nat)
| GSelect (it : iter) (idx : list nat)
| GFilterNew (src : nat) (mask : list bool)
| GFilter (it : iter) (mask : list bool)
| GTakeNew (src : nat) (idx : list Z)
| GTake (it : iter) (idx : list Z) (i : Z)
| GDone.

Record hstate := mkHS { henv : list hframe; hheap : list gstate }.

(* iter(self._rows) *)
Definition iter_of (r : rowsref) : iter := match r with RL l => ILst l | RG g => IGen g | RT l => ILst l end.

(* when the generators of select() / filter() / take() bind their source's rows: [true] = when
   the method is called (a generator expression over self._rows: filter and take before 75a1e72,
   select under the round-2 seeded change), [false] = when first advanced (inner generator
   functions).  The code as it stands is [false]; the parameter exists so that the other reading
   can be stated and refuted (Props: C03_*_bound_at_creation_refuted). *)
Variable bind_early : bool.

(* one next() on generator g.  [fuel] bounds the depth of the call chain plus the number of
   rows a filter / take skips in one call. *)
Fixpoint gnext (fuel : nat) (env : list hframe) (h : list gstate) (g : nat) : list gstate * option row :=
  match fuel with
  | O => (h, None)
  | S f =>
    let inext (h : list gstate) (it : iter) : list gstate * iter * option row :=
      match it with
      | ILst [] => (h, it, None)
      | ILst (r :: t) => (h, ILst t, Some r)
      | IGen g' => let '(h', x) := gnext f env h g' in (h', it, x)
      end in
    match nth_error h g with
    | None | Some GDone => (h, None)
    | Some (GRows []) => (upd g GDone h, None)
    | Some (GRows (r :: p)) => (upd g (GRows p) h, Some r)
    | Some (GSelectNew src idx) =>
        (* for tup in self._rows: the attribute is looked up now *)
        let it := match nth_error env src with Some fr => iter_of (hrows fr) | None => ILst [] end in
        gnext f env (upd g (GSelect it idx) h) g
    | Some (GSelect it idx) =>
        let '(h1, it1, x) := inext h it in
        match x with
        | None => (upd g GDone h1, None)
        | Some r => (upd g (GSelect it1 idx) h1, Some (map (pick V dflt r) idx))
        end
    | Some (GFilterNew src mask) =>
        let it := match nth_error env src with Some fr => iter_of (hrows fr) | None => ILst [] end in
        gnext f env (upd g (GFilter it mask) h) g
    | Some (GTakeNew src idx) =>
        let it := match nth_error env src with Some fr => iter_of (hrows fr) | None => ILst [] end in
        gnext f env (upd g (GTake it idx 0%Z) h) g
    | Some (GFilter it mask) =>
        let '(h1, it1, x) := inext h it in           (* zip: the rows are asked first ... *)
        match x with
        | None => (upd g GDone h1, None)
        | Some r =>
            match mask with
            | [] => (upd g GDone h1, None)           (* ... then the mask: the row just taken is lost *)
            | m :: mask' =>
                if m then (upd g (GFilter it1 mask') h1, Some r)
                else gnext f env (upd g (GFilter it1 mask') h1) g
            end
        end
    | Some (GTake it idx i) =>
        let '(h1, it1, x) := inext h it in
        match x with
        | None => (upd g GDone h1, None)
        | Some r =>
            if zmem i idx then (upd g (GTake it1 idx (i + 1)%Z) h1, Some r)
            else gnext f env (upd g (GTake it1 idx (i + 1)%Z) h1) g
        end
    end
  end.

(* next() until StopIteration; [n] bounds the number of items *)
Fixpoint gdrain (n fuel : nat) (env : list hframe) (h : list gstate) (g : nat) : list gstate * list row :=
  match n with
  | O => (h, [])
  | S n' =>
      let '(h1, x) := gnext fuel env h g in
      match x with
      | None => (h1, [])
      | Some r => let '(h2, rs) := gdrain n' fuel env h1 g in (h2, r :: rs)
      end
  end.

(* enough fuel for any drain in this state: every row held anywhere, every mask entry, every
   object, twice *)
Definition gweight (s : gstate) : nat :=
  let iw it := match it with ILst l => length l | IGen _ => O end in
  match s with
  | GRows p => 2 + length p
  | GSelectNew _ _ => 2
  | GSelect it _ => 2 + iw it
  | GFilterNew _ m => 2 + length m
  | GFilter it m => 2 + iw it + length m
  | GTakeNew _ _ => 2
  | GTake it _ _ => 2 + iw it
  | GDone => 1
  end.

Definition fweight (f : hframe) : nat := match hrows f with RL l => 2 + length l | RG _ => 2 | RT l => 2 + length l end.

Definition hfuel (st : hstate) : nat :=
  4 + 2 * (fold_right (fun s a => gweight s + a) O (hheap st) + fold_right (fun f a => fweight f + a) O (henv st)).

Definition set_rows (i : nat) (r : rowsref) (env : list hframe) : list hframe :=
  match nth_error env i with
  | Some f => upd i (mkH (hsch f) r) env
  | None => env
  end.

(* iterating frame i's _rows to the end WITHOUT materialising (comprehensions in query /
   distinct, "yield from self._rows"): a list is read, a generator is spent and stays there *)
Definition hconsume (st : hstate) (i : nat) : hstate * list row :=
  match nth_error (henv st) i with
  | None => (st, [])
  | Some f =>
      match hrows f with
      | RL l => (st, l)
      | RG g => let '(h1, rows) := gdrain (hfuel st) (hfuel st) (henv st) (hheap st) g in
                (mkHS (henv st) h1, rows)
      | RT l => (st, l)                          (* a tuple is read like a list and stays a tuple *)
      end
  end.

(* materialize(): if not isinstance(self._rows, list): self._rows = list(self._rows) *)
Definition hmat (st : hstate) (i : nat) : hstate * list row :=
  match nth_error (henv st) i with
  | None => (st, [])
  | Some f =>
      match hrows f with
      | RL l => (st, l)
      | RG g => let '(h1, rows) := gdrain (hfuel st) (hfuel st) (henv st) (hheap st) g in
                (mkHS (set_rows i (RL rows) (henv st)) h1, rows)
      | RT l => (mkHS (set_rows i (RL l) (henv st)) (hheap st), l)     (* list(tuple): from now on a list *)
      end
  end.

(* frame i after materialize() found a tuple of rows l there: the same schema over the LIST l *)
Definition now_list (st : hstate) (i : nat) (sc : schema Nm) (l : list row) : hstate :=
  mkHS (upd i (mkH sc (RL l)) (henv st)) (hheap st).

(* ---------------------------------------------------------------------- *)
(* step language: one call on one frame object of the environment          *)
(* ---------------------------------------------------------------------- *)
Inductive hop :=
| HOp (o : op V Nm)      (* an operator of Model/C03.v; the result frame(s) join the environment UNLISTED *)
| HList                  (* list(df) *)
| HMat.                  (* df.materialize() *)

Record hstepd := mkHStep { h_src : nat; h_op : hop }.

Inductive hout :=
| HNew (ns : list (list Nm))       (* column_names of every frame the call returned *)
| HVal (v : outv V Nm).            (* a value, the rows of a listing, or the exception raised *)

Definition consumes (o : op V Nm) : bool :=
  match o with Query _ | Distinct | Iterate => true | _ => false end.

(* operators that look at the rows of the frame they are called on when they are called
   (everything except the three that return a lazily backed frame, and + which has two sources) *)
Definition observes (o : op V Nm) : bool :=
  match o with Filter _ | Take _ | Select _ | AddF _ _ => false | _ => true end.

(* ... and leave it list-backed *)
Definition materialises (o : op V Nm) : bool := observes o && negb (consumes o).

(* the three calls that return a lazily backed frame, on a plain list of rows: the new frame's
   schema and rows (None: select of a column that does not exist) *)
Definition lazy_result (sc : schema Nm) (o : op V Nm) (l : list row) : option (schema Nm * list row) :=
  match o with
  | Filter m => Some (sc, spec_filter V m l)
  | Take idx => Some (sc, spec_take V idx l)
  | Select attrs => match spec_select V dflt Nm nmeqb attrs (names sc) l with
                    | Ok rows => Some (mkS Untyped attrs, rows)
                    | Raise _ => None
                    end
  | _ => None
  end.

Definition add_frames (st : hstate) (fs : list hframe) : hstate * hout :=
  (mkHS (henv st ++ fs) (hheap st), HNew (map (fun f => names (hsch f)) fs)).

Definition eager_frame (f : frame V Nm) : hframe := mkH (sch f) (RL (rows_of V (back f))).

(* what an operator of Model/C03.v returned when applied to list-backed rows *)
Definition interpret (st : hstate) (r : rout V Nm) : hstate * hout :=
  match r with
  | RFrame x => match rb x with
                | RList l => add_frames st [mkH (rsch x) (RL l)]
                | _ => (st, HVal (ORaise TypeError))
                end
  | RFrames fs => add_frames st (map eager_frame fs)
  | RVal v => (st, HVal v)
  end.

Definition new_lazy (st : hstate) (sc : schema Nm) (gs : gstate) : hstate * hout :=
  (mkHS (henv st ++ [mkH sc (RG (length (hheap st)))]) (hheap st ++ [gs]), HNew [names sc]).

Definition hstep (st : hstate) (s : hstepd) : hstate * hout :=
  let i := Nat.modulo (h_src s) (length (henv st)) in
  match nth_error (henv st) i with
  | None => (st, HVal (ORaise TypeError))
  | Some fr =>
      match h_op s with
      | HList => let '(st1, l) := hmat st i in (st1, HVal (ORows l))
      | HMat => let '(st1, _) := hmat st i in (st1, HNew [])
      | HOp (Filter m) => new_lazy st (hsch fr) (if bind_early then GFilter (iter_of (hrows fr)) m else GFilterNew i m)
      | HOp (Take idx) => new_lazy st (hsch fr) (if bind_early then GTake (iter_of (hrows fr)) idx 0%Z else GTakeNew i idx)
      | HOp (Select attrs) =>
          match index_loop Nm nmeqb (names (hsch fr)) attrs [] with
          | Raise e => (st, HVal (ORaise e))
          | Ok idx => new_lazy st (mkS Untyped attrs)
                        (if bind_early then GSelect (iter_of (hrows fr)) idx else GSelectNew i idx)
          end
      | HOp (AddF other _) =>
          let j := Nat.modulo other (length (henv st)) in
          match nth_error (henv st) j with
          | None => (st, HVal (ORaise TypeError))
          | Some fr2 =>
              if negb (schema_eqb Nm nmeqb (hsch fr) (hsch fr2)) then (st, HVal (ORaise ValueError))
              else
                let '(st1, _) := hmat st i in
                let '(st2, l2) := hmat st1 j in
                let '(_, l1) := hmat st2 i in
                match code_add V Nm nmeqb (mkF (hsch fr) (Eager l1)) (mkF (hsch fr2) (Eager l2)) with
                | (_, _, Ok x) => interpret st2 (RFrame x)
                | (_, _, Raise e) => (st2, HVal (ORaise e))
                end
          end
      | HOp o =>
          let '(st1, rows) := if consumes o then hconsume st i else hmat st i in
          interpret st1 (snd (apply_op V veqb dflt Nm nmeqb o (mkF (hsch fr) (Eager rows))))
      end
  end.

Fixpoint hrun (st : hstate) (prog : list hstepd) : hstate * list hout :=
  match prog with
  | [] => (st, [])
  | s :: r => let '(st1, o) := hstep st s in
              let '(st2, os) := hrun st1 r in (st2, o :: os)
  end.

(* the frames a case starts from: list-backed, or backed by a plain generator of the rows *)
Inductive ikind := KList | KGen | KTuple.
Record hinit := mkHI { i_sch : schema Nm; i_rows : list row; i_kind : ikind }.

(* DataFrame(rows=tuple(rows)): "self._rows = rows or []" - an EMPTY tuple is replaced by a list there *)
Definition tuple_rows (l : list row) : rowsref := match l with [] => RL [] | _ => RT l end.

Fixpoint hstart (fs : list hinit) (st : hstate) : hstate :=
  match fs with
  | [] => st
  | f :: r =>
      hstart r (match i_kind f with
                | KGen => mkHS (henv st ++ [mkH (i_sch f) (RG (length (hheap st)))]) (hheap st ++ [GRows (i_rows f)])
                | KList => mkHS (henv st ++ [mkH (i_sch f) (RL (i_rows f))]) (hheap st)
                | KTuple => mkHS (henv st ++ [mkH (i_sch f) (tuple_rows (i_rows f))]) (hheap st)
                end)
  end.

(* round 7: the same state / initial frames with every tuple of rows replaced by the LIST of those rows
   (used only to STATE that the container makes no difference: Props C03_tuple_backed_programs) *)
Definition listed (r : rowsref) : rowsref := match r with RT l => RL l | x => x end.
Definition listed_frame (f : hframe) : hframe := mkH (hsch f) (listed (hrows f)).
Definition listed_st (st : hstate) : hstate := mkHS (map listed_frame (henv st)) (hheap st).
Definition as_list_init (f : hinit) : hinit :=
  mkHI (i_sch f) (i_rows f) (match i_kind f with KTuple => KList | k => k end).

Definition hout_eqb (a b : hout) : bool :=
  match a, b with
  | HNew x, HNew y => list_eqb (names_eqb Nm nmeqb) x y
  | HVal x, HVal y => outv_eqb V veqb Nm nmeqb x y
  | _, _ => false
  end.

End Heap.

Arguments RL {V}. Arguments RG {V}. Arguments RT {V}.
Arguments mkH {V Nm}. Arguments hsch {V Nm}. Arguments hrows {V Nm}.
Arguments ILst {V}. Arguments IGen {V}.
Arguments GRows {V}. Arguments GSelectNew {V}. Arguments GSelect {V}. Arguments GFilter {V}.
Arguments GTake {V}. Arguments GDone {V}. Arguments GFilterNew {V}. Arguments GTakeNew {V}.
Arguments mkHS {V Nm}. Arguments henv {V Nm}. Arguments hheap {V Nm}.
Arguments HOp {V Nm}. Arguments HList {V Nm}. Arguments HMat {V Nm}.
Arguments mkHStep {V Nm}. Arguments h_src {V Nm}. Arguments h_op {V Nm}.
Arguments HNew {V Nm}. Arguments HVal {V Nm}.
Arguments listed {V}. Arguments listed_frame {V Nm}. Arguments listed_st {V Nm}. Arguments as_list_init {V Nm}.
Arguments mkHI {V Nm}. Arguments i_sch {V Nm}. Arguments i_rows {V Nm}. Arguments i_kind {V Nm}. Arguments tuple_rows {V}.

(* ====================================================================== *)
(* Instance used by the correspondence (values integers, names numbers)    *)
(* ====================================================================== *)
Definition zhstep := hstepd Z N.
Definition zhout := hout Z N.
Definition zhcase := (list (hinit Z N) * list zhstep * list zhout)%type.

Definition c03h_run (early : bool) (c : zhcase) : list zhout :=
  let '(fs, prog, _) := c in
  snd (hrun Z zveq 0%Z N N.eqb early (hstart Z N fs (mkHS [] [])) prog).

Definition c03h_show (c : zhcase) : list zhout := c03h_run false c.

Definition c03h_check (c : zhcase) : bool :=
  let '(_, _, seen) := c in
  list_eqb (hout_eqb Z Z.eqb N N.eqb) (c03h_run false c) seen.

(* ====================================================================== *)
(* Round 3: the CALLER's objects.  A session also owns a pool of argument  *)
(* objects (Python lists: column names / positions, masks, index lists);   *)
(* a call may be handed one of them - the SAME object again and again -    *)
(* and frames can be appended to in place (DataFrame.append), which shows  *)
(* whether two frames share one row container.                             *)
(* ====================================================================== *)
Section Args.
Variable V : Type.
Variable veqb : V -> V -> bool.
Variable dflt : V.
Variable Nm : Type.
Variable nmeqb : Nm -> Nm -> bool.
Variable bind_early : bool.

(* collect(): "else: columns = list(columns)" - a list argument is copied before the in-place
   name -> position rewrite.  [true] = the code as it stands; [false] = the rewrite runs on the
   caller's own list (stated so that it can be refuted: Props C03_collect_rewrites_callers_list_refuted) *)
Variable copy_cols : bool.

Local Notation row := (list V).

Inductive aitem := AName (n : Nm) | AInt (z : Z) | ABool (b : bool).
Definition argobj := list aitem.

Record astate := mkAS { a_h : hstate V Nm; a_pool : list argobj }.

(* how each method reads the items of a list it is handed *)
Definition as_colref (x : aitem) : colref Nm :=
  match x with AName n => CName n | AInt z => CIdx z | ABool b => CIdx (if b then 1 else 0)%Z end.   (* isinstance(True, int) *)
Definition as_name (x : aitem) : option Nm := match x with AName n => Some n | _ => None end.
Definition truthy (x : aitem) : bool :=
  match x with AName _ => true | AInt z => negb (z =? 0)%Z | ABool b => b end.
Definition as_indexes (v : argobj) : list Z :=
  flat_map (fun x => match x with AInt z => [z] | ABool b => [(if b then 1 else 0)%Z] | AName _ => [] end) v.

(* collect(): column_indicies = columns; for i, c in enumerate(columns): if not isinstance(c, int):
   column_indicies[i] = self.column_names.index(c)   - the list as it is left (by a ValueError too) *)
Fixpoint rewrite_cols (src_names : list Nm) (v : argobj) : argobj * bool :=
  match v with
  | [] => ([], true)
  | AName n :: r =>
      match index_of Nm nmeqb n src_names with
      | None => (v, false)
      | Some p => let '(r', ok) := rewrite_cols src_names r in (AInt (Z.of_nat p) :: r', ok)
      end
  | x :: r => let '(r', ok) := rewrite_cols src_names r in (x :: r', ok)
  end.

Inductive aop :=
| APlain (o : hop V Nm)                       (* the argument is built for this call (as in rounds 1-2) *)
| ACollect (a : nat) (limit : option Z)       (* df.collect(pool[a], limit) *)
| AGetItem (a : nat)                          (* df[pool[a]] *)
| ASelect (a : nat)                           (* df.select(pool[a]) *)
| AFilter (a : nat)                           (* df.filter(pool[a]) *)
| ATake (a : nat)                             (* df.take(pool[a]) *)
| AAppend (r : row)                           (* df.append(r): self._rows.append(...) in place *)
| APeek (a : nat).                            (* look at pool[a] *)

Record astepd := mkAStep { a_src : nat; a_op : aop }.

Inductive aout := AOut (o : hout V Nm) | AArg (v : argobj).

Definition pool_at (st : astate) (a : nat) : nat := Nat.modulo a (length (a_pool st)).
Definition pool_get (st : astate) (a : nat) : argobj := nth (pool_at st a) (a_pool st) [].

Definition via_hstep (st : astate) (src : nat) (o : hop V Nm) : astate * aout :=
  let '(h1, x) := hstep V veqb dflt Nm nmeqb bind_early (a_h st) (mkHStep src o) in
  (mkAS h1 (a_pool st), AOut x).

(* the pool after collect() was handed object a by frame fr *)
Definition pool_after_collect (st : astate) (src a : nat) : list argobj :=
  if copy_cols then a_pool st
  else match nth_error (henv (a_h st)) (Nat.modulo src (length (henv (a_h st)))) with
       | Some fr => upd (pool_at st a) (fst (rewrite_cols (names (hsch fr)) (pool_get st a))) (a_pool st)
       | None => a_pool st
       end.

Definition astep (st : astate) (s : astepd) : astate * aout :=
  let env := henv (a_h st) in
  let i := Nat.modulo (a_src s) (length env) in
  match a_op s with
  | APlain o => via_hstep st (a_src s) o
  | APeek a => (st, AArg (pool_get st a))
  | ACollect a lim =>
      let '(st1, x) := via_hstep st (a_src s) (HOp (Collect (map as_colref (pool_get st a)) lim)) in
      (mkAS (a_h st1) (pool_after_collect st (a_src s) a), x)
  | AGetItem a =>
      let '(st1, x) := via_hstep st (a_src s) (HOp (GetItem (map as_colref (pool_get st a)))) in
      (mkAS (a_h st1) (pool_after_collect st (a_src s) a), x)
  | ASelect a =>
      (* source_names.index(attribute): an item that is not a string is not a column name *)
      match all_some (map as_name (pool_get st a)) with
      | Some attrs => via_hstep st (a_src s) (HOp (Select attrs))
      | None => (st, AOut (HVal (ORaise (match nth_error env i with Some _ => ValueError | None => TypeError end))))
      end
  | AFilter a => via_hstep st (a_src s) (HOp (Filter (map truthy (pool_get st a))))
  | ATake a => via_hstep st (a_src s) (HOp (Take (as_indexes (pool_get st a))))
  | AAppend r =>
      match nth_error env i with
      | None => (st, AOut (HVal (ORaise TypeError)))
      | Some fr =>
          match kind (hsch fr), hrows fr with
          | Typed _, _ => (st, AOut (HVal (ORaise TypeError)))      (* RelationSchema.validate: a tuple is not a dictionary *)
          | Untyped, RG _ => (st, AOut (HVal (ORaise TypeError)))   (* a generator has no append (AttributeError) *)
          | Untyped, RT _ => (st, AOut (HVal (ORaise TypeError)))   (* nor has a tuple *)
          | Untyped, RL l =>
              (mkAS (mkHS (set_rows V Nm i (RL (l ++ [r])) env) (hheap (a_h st))) (a_pool st), AOut (HNew []))
          end
      end
  end.

Fixpoint arun (st : astate) (prog : list astepd) : astate * list aout :=
  match prog with
  | [] => (st, [])
  | s :: r => let '(st1, o) := astep st s in
              let '(st2, os) := arun st1 r in (st2, o :: os)
  end.

Definition aitem_eqb (a b : aitem) : bool :=
  match a, b with
  | AName x, AName y => nmeqb x y
  | AInt x, AInt y => Z.eqb x y
  | ABool x, ABool y => Bool.eqb x y
  | _, _ => false
  end.

Definition aout_eqb (a b : aout) : bool :=
  match a, b with
  | AOut x, AOut y => hout_eqb V veqb Nm nmeqb x y
  | AArg x, AArg y => list_eqb aitem_eqb x y
  | _, _ => false
  end.

End Args.

Arguments AName {Nm}. Arguments AInt {Nm}. Arguments ABool {Nm}.
Arguments mkAS {V Nm}. Arguments a_h {V Nm}. Arguments a_pool {V Nm}.
Arguments APlain {V Nm}. Arguments ACollect {V Nm}. Arguments AGetItem {V Nm}. Arguments ASelect {V Nm}.
Arguments AFilter {V Nm}. Arguments ATake {V Nm}. Arguments AAppend {V Nm}. Arguments APeek {V Nm}.
Arguments mkAStep {V Nm}. Arguments a_src {V Nm}. Arguments a_op {V Nm}.
Arguments AOut {V Nm}. Arguments AArg {V Nm}.

Definition zastep := astepd Z N.
Definition zaout := aout Z N.
Definition zacase := (list (hinit Z N) * list (argobj N) * list zastep * list zaout)%type.

Definition c03a_run (copy : bool) (c : zacase) : list zaout :=
  let '(fs, pool, prog, _) := c in
  snd (arun Z zveq 0%Z N N.eqb false copy (mkAS (hstart Z N fs (mkHS [] [])) pool) prog).

Definition c03a_show (c : zacase) : list zaout := c03a_run true c.

Definition c03a_check (c : zacase) : bool :=
  let '(_, _, _, seen) := c in
  list_eqb (aout_eqb Z Z.eqb N N.eqb) (c03a_run true c) seen.
