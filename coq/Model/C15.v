(* C15 - executable model of the column profilers (orso/profiler/profiler.py).
   No proofs here: this file must keep running when a proof breaks.

   Source map (line numbers of /repo/orso/profiler/profiler.py):
     string_to_int64              28-41     [string_to_int64], [utf8], [pad_prefix], [be_int]
     find_mfvs                    58-78     [counter], [sort_desc], [most_common]
     get_kvm_hashes               81-102    [kmv_of]  (the [size] smallest hashes of the distinct values, sorted)
     get_ordered_and_transitions 105-118    [ot_step], [order_transitions]
     ColumnProfile.estimate_cardinality 140-153   [estimate_cardinality]
     ColumnProfile.__add__       170-213    [add]
     TableProfile.__add__        221-233    [add] on the one column both sides have
     TableProfile.from_dataframe 268-310    [profile_frame] (batches of BATCH_SIZE rows, += per batch)
     ListStructProfiler          322-325    [profile_plain]
     DefaultProfiler             328-331    [profile_default]
     BooleanProfiler             334-343    [profile_bool]
     NumericProfiler             346-375    [profile_ord] with [with_order = true]
     VarcharProfiler             378-393    [profile_text]
     DateProfiler                396-417    [profile_ord] with [with_order = false]; the conversion of its cells
                                            (numpy.array(..., dtype="datetime64[s]"): an offset-aware datetime is
                                            taken at its UTC instant, floored to the second) is [xvalue]
     NumericProfiler / get_kvm_hashes on equal values that print differently (0.0 / -0.0): [profile_x]
                                            (the sketch de-duplicates by ==, so per VALUE, and hashes the text of
                                            the first-seen form)
   and of /repo/orso/dataframe.py:
     DataFrame.append            136-143    [FAppend] in [fstep]: the row goes to the end of the frame's rows
     DataFrame.profile           338-342    [FProfile] in [fstep]: from_dataframe of the rows the frame holds NOW
                                            (the frame has no other state the profile could depend on)

   A column is a [list (option A)] ([None] = null).  Numbers are exact fixed-point
   integers ([Z], value = z / scale; scale 1 for INTEGER and for instants given as epoch
   seconds, 10^6 for DOUBLE / DECIMAL), [int()] is truncation toward zero [Z.quot z scale].
   Text is a [list N] of Unicode code points, compared like Python [str] (code point
   lexicographic order).  External functions are parameters of the model:
     [hash]     xxh32(str(v).encode()).intdigest()
     [np_hist]  numpy.histogram(sample, bins=DISTOGRAM_BIN_COUNT) as (left edge, count) pairs
     [hist_merge] distogram.load/merge of two non-empty histograms (property C13; not modelled here). *)
From Coq Require Import List ZArith NArith Bool.
From Orso Require Import Gen.C15_Profiler.
Import ListNotations.
Open Scope Z_scope.

(* ---------- the profile record (ColumnProfile without name/type) ---------- *)
Record profile (V E : Type) := mkp {
  p_count : Z;
  p_missing : Z;
  p_maximum : option Z;
  p_minimum : option Z;
  p_order : option Z;
  p_transitions : Z;
  p_mfv : list (V * Z);            (* zip(most_frequent_values, most_frequent_counts) *)
  p_histogram : list (E * Z);
  p_kmv : list N
}.
Arguments mkp {V E}. Arguments p_count {V E}. Arguments p_missing {V E}. Arguments p_maximum {V E}.
Arguments p_minimum {V E}. Arguments p_order {V E}. Arguments p_transitions {V E}. Arguments p_mfv {V E}.
Arguments p_histogram {V E}. Arguments p_kmv {V E}.

(* ColumnProfile(name, type): the dataclass defaults *)
Definition empty_profile {V E} (cnt miss : Z) : profile V E :=
  mkp cnt miss None None None 0 [] [] [].

Definition nonnull {B : Type} (c : list (option B)) : list B :=
  flat_map (fun o => match o with Some x => [x] | None => [] end) c.

Definition is_none {B : Type} (o : option B) : bool := match o with None => true | Some _ => false end.

Definition zlen {B : Type} (l : list B) : Z := Z.of_nat (length l).

(* sorted(...) on hash values *)
Fixpoint insertN (x : N) (l : list N) : list N :=
  match l with
  | [] => [x]
  | y :: r => if (x <=? y)%N then x :: y :: r else y :: insertN x r
  end.
Definition sortN (l : list N) : list N := fold_right insertN [] l.

(* sorted(set(l)) keeps one copy of each value *)
Fixpoint dedupN (l : list N) : list N :=
  match l with
  | [] => []
  | x :: r => if existsb (N.eqb x) r then dedupN r else x :: dedupN r
  end.

Definition opt_z_eqb (a b : option Z) : bool :=
  match a, b with
  | None, None => true
  | Some x, Some y => x =? y
  | _, _ => false
  end.

(* [m for m in (a, b) if m is not None]; min(...) if non-empty else None *)
Definition opt_min (a b : option Z) : option Z :=
  match a, b with
  | Some x, Some y => Some (Z.min x y)
  | Some x, None => Some x
  | None, Some y => Some y
  | None, None => None
  end.
Definition opt_max (a b : option Z) : option Z :=
  match a, b with
  | Some x, Some y => Some (Z.max x y)
  | Some x, None => Some x
  | None, Some y => Some y
  | None, None => None
  end.

Definition is_nil {B : Type} (l : list B) : bool := match l with [] => true | _ => false end.

Section Values.
Variable A : Type.                     (* the values of the column *)
Variable leb : A -> A -> bool.         (* Python a <= b *)
Variable eqb : A -> A -> bool.         (* Python a == b *)
Variable enc : A -> Z.                 (* int(x) for numbers, string_to_int64(x) for text *)
Variable hash : A -> N.
Variable E : Type.                     (* histogram edges (binary64 in the implementation) *)
Variable np_hist : list A -> list (E * Z).
Variable hist_merge : list (E * Z) -> list (E * Z) -> list (E * Z).

Definition ltb (a b : A) : bool := negb (leb b a).      (* a < b on a total order *)

(* min(data) / max(data): the first least / greatest element *)
Definition min_of (x : A) (xs : list A) : A := fold_left (fun m y => if ltb y m then y else m) xs x.
Definition max_of (x : A) (xs : list A) : A := fold_left (fun m y => if ltb m y then y else m) xs x.

(* Counter(data): value -> occurrences, keys in first-seen order *)
Fixpoint bump (x : A) (l : list (A * Z)) : list (A * Z) :=
  match l with
  | [] => [(x, 1)]
  | (y, n) :: r => if eqb x y then (y, n + 1) :: r else (y, n) :: bump x r
  end.
Definition counter (d : list A) : list (A * Z) := fold_left (fun acc x => bump x acc) d [].

(* Counter.most_common(n) == sorted(items, key=count, reverse=True)[:n]: a stable sort by
   descending count of the first-seen order *)
Fixpoint insert_desc (p : A * Z) (l : list (A * Z)) : list (A * Z) :=
  match l with
  | [] => [p]
  | q :: r => if snd p <? snd q then q :: insert_desc p r else p :: q :: r
  end.
Definition sort_desc (l : list (A * Z)) : list (A * Z) := fold_right insert_desc [] l.
Definition most_common (n : nat) (d : list A) : list (A * Z) := firstn n (sort_desc (counter d)).

(* list(set(data)): the distinct values (the model fixes first-seen order; the result of
   get_kvm_hashes does not depend on the order) *)
Definition distinct (d : list A) : list A := map fst (counter d).

(* get_kvm_hashes(data, size) *)
Definition kmv_of (size : nat) (d : list A) : list N := firstn size (sortN (map hash (distinct d))).

(* get_ordered_and_transitions: one iteration of the loop body, state (ordered, transitions, last_value) *)
Definition ot_step (st : option Z * Z * A) (v : A) : option Z * Z * A :=
  let '(ord, tr, last) := st in
  if negb (eqb v last) then
    (match ord with
     | None => Some (if ltb v last then -1 else 1)
     | Some o => if (ltb last v && (o =? -1)) || (ltb v last && (o =? 1)) then Some 0 else Some o
     end, tr + 1, v)
  else (ord, tr, v).
Definition order_transitions (x : A) (xs : list A) : option Z * Z :=
  fst (fold_left ot_step xs (None, 0, x)).

(* The shared shape of NumericProfiler / DateProfiler / VarcharProfiler.
   cnt  = len(column_data) before nulls are dropped
   dk   = the non-null values the sketch is computed from
   d    = the non-null values everything else is computed from (text: cut to 64 characters) *)
Definition profile_core (with_hist with_order : bool) (cnt : Z) (dk d : list A) : profile A E :=
  let miss := cnt - zlen d in
  match d with
  | [] => empty_profile cnt miss
  | x :: xs =>
      let ot := if with_order then order_transitions x xs else (None, 0) in
      mkp cnt miss
          (Some (enc (max_of x xs)))
          (Some (enc (min_of x xs)))
          (fst ot) (snd ot)
          (most_common MOST_FREQUENT_VALUE_SIZE d)
          (if with_hist then filter (fun b => 0 <? snd b) (np_hist d) else [])
          (kmv_of KVM_SIZE dk)
  end.

(* NumericProfiler (with_order = true) and DateProfiler (with_order = false: it copies neither
   order nor transitions from the inner NumericProfiler) *)
Definition profile_ord (with_order : bool) (c : list (option A)) : profile A E :=
  profile_core true with_order (zlen c) (nonnull c) (nonnull c).

(* ColumnProfile.__add__.  [eqbV] compares listed most-frequent values. *)
Definition add_mfv (a b : list (A * Z)) : list (A * Z) :=
  if is_nil a || is_nil b then []
  else flat_map (fun p => match find (fun q => eqb (fst q) (fst p)) b with
                          | Some q => [(fst p, snd p + snd q)]
                          | None => []
                          end) a.

Definition add (p q : profile A E) : profile A E :=
  mkp (p_count p + p_count q)
      (p_missing p + p_missing q)
      (opt_max (p_maximum p) (p_maximum q))
      (opt_min (p_minimum p) (p_minimum q))
      (if opt_z_eqb (p_order p) (p_order q) then Some 0 else p_order p)
      (p_transitions p + (p_transitions q + 1))
      (add_mfv (p_mfv p) (p_mfv q))
      (if is_nil (p_histogram p) || is_nil (p_histogram q) then []
       else if Nat.ltb (length (p_histogram p)) (length (p_histogram q))
            then hist_merge (p_histogram q) (p_histogram p)
            else hist_merge (p_histogram p) (p_histogram q))
      (if is_nil (p_kmv p) || is_nil (p_kmv q) then p_kmv p
       else firstn KVM_SIZE (sortN (dedupN (p_kmv p ++ p_kmv q)))).

(* ColumnProfile.estimate_cardinality: exact while the sketch is not full; the estimate taken
   from a full sketch is binary64 arithmetic and is not modelled (None). *)
Definition estimate_cardinality (p : profile A E) : option Z :=
  match p_kmv p with
  | [] => Some 0
  | _ => if Nat.ltb (length (p_kmv p)) KVM_SIZE then Some (zlen (p_kmv p)) else None
  end.

(* DataFrame.to_batches(n): rows[i : i + n] for i in range(0, rowcount, n) *)
Fixpoint chunks {X : Type} (fuel n : nat) (l : list X) : list (list X) :=
  match fuel with
  | O => []
  | S f => match l with
           | [] => []
           | _ => firstn n l :: chunks f n (skipn n l)
           end
  end.

(* TableProfile.from_dataframe for one column: profile every batch, += in batch order.
   None: the frame has no rows, so the column never enters the table profile. *)
Definition profile_frame {X : Type} (prof : list X -> profile A E) (c : list X) : option (profile A E) :=
  match map prof (chunks (length c) (Z.to_nat BATCH_SIZE) c) with
  | [] => None
  | p :: ps => Some (fold_left add ps p)
  end.

End Values.

Arguments ltb {A}. Arguments min_of {A}. Arguments max_of {A}. Arguments bump {A}. Arguments counter {A}.
Arguments insert_desc {A}. Arguments sort_desc {A}. Arguments most_common {A}. Arguments distinct {A}.
Arguments kmv_of {A}. Arguments ot_step {A}. Arguments order_transitions {A}. Arguments profile_core {A}.
Arguments profile_ord {A}. Arguments add_mfv {A}. Arguments add {A}. Arguments estimate_cardinality {A E}.
Arguments profile_frame {A} eqb E hist_merge {X} prof c.

(* ---------- a frame over time: DataFrame.append / DataFrame.profile ---------- *)
(* The state of a DataFrame, as far as profiling goes, is the list of its rows and nothing else.
   [FAppend x] is DataFrame.append (self._rows.append(row)); [FProfile] is the .profile property,
   which reads the rows the frame holds at that moment.  [frun] runs a program of such operations
   on one frame object and returns what each .profile read returned, in order. *)
Inductive fop (X : Type) : Type := FAppend (x : X) | FProfile.
Arguments FAppend {X}. Arguments FProfile {X}.

Section Session.
Variables X P : Type.
Variable profile_of : list X -> P.      (* TableProfile.from_dataframe(...).column(c) of a frame holding these rows *)

Definition fstep (rows : list X) (op : fop X) : list X * list P :=
  match op with
  | FAppend x => (rows ++ [x], [])
  | FProfile => (rows, [profile_of rows])
  end.

Fixpoint frun (rows : list X) (ops : list (fop X)) : list P :=
  match ops with
  | [] => []
  | op :: r => snd (fstep rows op) ++ frun (fst (fstep rows op)) r
  end.
End Session.
Arguments fstep {X P}. Arguments frun {X P}.

(* the rows a program appends *)
Definition appended {X} (ops : list (fop X)) : list X :=
  flat_map (fun op => match op with FAppend x => [x] | FProfile => [] end) ops.
Definition reads_in {X} (ops : list (fop X)) : nat :=
  length (filter (fun op => match op with FProfile => true | _ => false end) ops).

(* The session the harness runs on ONE frame object that already holds the first [pos] rows of the
   column: for every read position k in [reads] (non-decreasing, pos <= k <= rows of the column)
   append rows up to k and read .profile; at the end append the remaining rows and read .profile.
   [rest] = the rows not yet in the frame. *)
Fixpoint session_ops {X} (pos : nat) (reads : list nat) (rest : list X) : list (fop X) :=
  match reads with
  | [] => map FAppend rest ++ [FProfile]
  | k :: r => map FAppend (firstn (k - pos) rest) ++ FProfile :: session_ops k r (skipn (k - pos) rest)
  end.

(* read positions are non-decreasing from [pos] and stay within the column *)
Fixpoint reads_ok (pos : nat) (reads : list nat) (n : nat) : Prop :=
  match reads with
  | [] => (pos <= n)%nat
  | k :: r => (pos <= k)%nat /\ reads_ok k r n
  end.

(* ---------- profile objects in the caller's hands (round 6) ----------
   A store of profile objects.  [PAdd i j] is obj_i + obj_j (ColumnProfile.__add__ /
   TableProfile.__add__): it creates a NEW object and leaves both operands as they are;
   [PCopy i] is copy.copy / copy.deepcopy / a pickle round trip: an equal, independent object;
   [PRead i] reads object i.  [prun] returns what the reads returned. *)
Inductive pop : Type := PAdd (i j : nat) | PCopy (i : nat) | PRead (i : nat).

Section Objects.
Variable P : Type.
Variable addf : P -> P -> P.
Variable dflt : P.
Definition pstep (store : list P) (op : pop) : list P * list P :=
  match op with
  | PAdd i j => (store ++ [addf (nth i store dflt) (nth j store dflt)], [])
  | PCopy i => (store ++ [nth i store dflt], [])
  | PRead i => (store, [nth i store dflt])
  end.
Fixpoint prun (store : list P) (ops : list pop) : list P :=
  match ops with
  | [] => []
  | op :: r => snd (pstep store op) ++ prun (fst (pstep store op)) r
  end.
Fixpoint pfinal (store : list P) (ops : list pop) : list P :=
  match ops with
  | [] => store
  | op :: r => pfinal (fst (pstep store op)) r
  end.
End Objects.
Arguments pstep {P}. Arguments prun {P}. Arguments pfinal {P}.

(* ---------- a frame with two columns (round 6) ----------
   Rows are pairs; the frame's OWN schema names the first and the second field.  collect(name)
   looks the name up in that schema (column_names.index(name)) and takes that field of every row;
   the table profile maps a name to the profile of what collect returns for it. *)
Definition collect2 {X} (names : N * N) (rows : list (X * X)) (nm : N) : option (list X) :=
  if (nm =? fst names)%N then Some (map fst rows)
  else if (nm =? snd names)%N then Some (map snd rows) else None.
Definition tprofile2 {X P} (profile_of : list X -> P) (names : N * N) (rows : list (X * X)) (nm : N) : option P :=
  option_map profile_of (collect2 names rows nm).

(* ---------- numbers ---------- *)
(* int(x) of the fixed-point number z / scale: truncation toward zero *)
Definition trunc_z (scale z : Z) : Z := Z.quot z scale.

Definition profile_num {E} (scale : Z) (hash : Z -> N) (np_hist : list Z -> list (E * Z))
           (with_order : bool) (c : list (option Z)) : profile Z E :=
  profile_ord Z.leb Z.eqb (trunc_z scale) hash E np_hist with_order c.

(* ---------- cells as Python holds them: wall-clock readings with a UTC offset, values with a form ----------
   A cell is (raw, shift, form).  Its VALUE - what the profiler computes with after its own
   conversion - is floor((raw - shift) / unit):
     numbers     raw = the fixed-point integer, shift = 0, unit = 1;  form 1 = negative zero (-0.0,
                 Decimal('-0')), which == 0.0 but prints '-0.0'
     instants    raw = the wall-clock reading in microseconds since 1970-01-01T00:00:00, shift = the
                 UTC offset of the datetime in microseconds (0 for a naive datetime, which numpy takes
                 as UTC), unit = 10^6 (datetime64[s] floors to the second)
   Python compares and counts the converted values with ==, which ignores the form; str() - what the
   sketch hashes - does not.  set(data) keeps the first-seen of equal elements. *)
Definition xcell : Type := (Z * Z * N)%type.
Definition xvalue (unit : Z) (c : xcell) : Z := let '(raw, shift, _) := c in (raw - shift) / unit.
Definition xform (c : xcell) : N := snd c.
Definition xkey (unit : Z) (c : xcell) : Z * N := (xvalue unit c, xform c).
Definition xeqb (unit : Z) (a b : xcell) : bool := xvalue unit a =? xvalue unit b.
Definition xvalues (unit : Z) (c : list (option xcell)) : list (option Z) := map (option_map (xvalue unit)) c.

(* NumericProfiler / DateProfiler on such cells: every statistic is computed from the values.
   Counter(data) and set(data) keep the FIRST-SEEN of equal elements, and what is listed / hashed
   is the text of that element: a listed frequent value and a sketch entry are per value, but
   carry the form of its first occurrence ('-0' when -0.0 came before 0.0). *)
Definition xkeys (unit : Z) (c : list (option xcell)) : list (option (Z * N)) := map (option_map (xkey unit)) c.
Definition keqb (a b : Z * N) : bool := fst a =? fst b.       (* == on the converted values: the form does not count *)

(* the cells are converted once ([xkeys]: value and form of every cell), as the profiler does *)
Definition profile_x {E} (scale unit : Z) (hashF : Z * N -> N) (np_hist : list Z -> list (E * Z))
           (with_order : bool) (c : list (option xcell)) : profile (Z * N) E :=
  let kc := xkeys unit c in
  let p := profile_num scale (fun _ => 0%N) np_hist with_order (map (option_map fst) kc) in
  let keys := nonnull kc in
  mkp (p_count p) (p_missing p) (p_maximum p) (p_minimum p) (p_order p) (p_transitions p)
      (most_common keqb MOST_FREQUENT_VALUE_SIZE keys)
      (p_histogram p)
      (kmv_of keqb hashF KVM_SIZE keys).

(* ---------- text ---------- *)
(* Python str comparison: lexicographic on code points; the same function orders byte strings *)
Fixpoint lex_leb (a b : list N) : bool :=
  match a, b with
  | [], _ => true
  | _ :: _, [] => false
  | x :: r, y :: s => if (x <? y)%N then true else if (x =? y)%N then lex_leb r s else false
  end.

Fixpoint text_eqb (a b : list N) : bool :=
  match a, b with
  | [], [] => true
  | x :: r, y :: s => (x =? y)%N && text_eqb r s
  | _, _ => false
  end.

(* str.encode("utf-8") of one code point *)
Definition utf8_cp (c : N) : list N :=
  (if c <? 128 then [c]
   else if c <? 2048 then [192 + c / 64; 128 + c mod 64]
   else if c <? 65536 then [224 + c / 4096; 128 + (c / 64) mod 64; 128 + c mod 64]
   else [240 + c / 262144; 128 + (c / 4096) mod 64; 128 + (c / 64) mod 64; 128 + c mod 64])%N.
Definition utf8 (s : list N) : list N := flat_map utf8_cp s.

(* bytes[:n].ljust(n, b"\x00") *)
Definition pad_prefix (n : nat) (bs : list N) : list N := firstn n (bs ++ repeat 0%N n).
(* int.from_bytes(bs, "big") *)
Definition be_int (bs : list N) : Z := fold_left (fun acc b => acc * 256 + Z.of_N b) bs 0.

Definition bytes_to_int64 (bs : list N) : Z :=
  let v := be_int (pad_prefix SIXTY_FOUR_BITS bs) in
  if v <=? MAX_INT64 then v else MAX_INT64.
Definition string_to_int64 (s : list N) : Z := bytes_to_int64 (utf8 s).

(* col[:SIXTY_FOUR_BYTES] - 64 characters, despite the name *)
Definition clip (s : list N) : list N := firstn SIXTY_FOUR_BYTES s.

(* VarcharProfiler: the sketch sees the whole strings, everything else their first 64 characters *)
Definition profile_text {E} (hash : list N -> N) (c : list (option (list N))) : profile (list N) E :=
  profile_core lex_leb text_eqb string_to_int64 hash E (fun _ => []) false true
               (zlen c) (nonnull c) (map clip (nonnull c)).

(* ---------- the profilers without extremes ---------- *)
(* BooleanProfiler *)
Definition count_bool (b : bool) (d : list bool) : Z := zlen (filter (Bool.eqb b) d).
Definition profile_bool {E} (c : list (option bool)) : profile bool E :=
  let cnt := zlen c in
  let d := nonnull c in
  let miss := cnt - zlen d in
  match d with
  | [] => empty_profile cnt miss
  | _ => mkp cnt miss None None None 0 [(true, count_bool true d); (false, count_bool false d)] [] []
  end.

(* ListStructProfiler: cells are null or not *)
Definition profile_plain {V E B} (c : list (option B)) : profile V E :=
  empty_profile (zlen c) (zlen (filter is_none c)).

(* DefaultProfiler: val is None or val != val (NaN) *)
Inductive ucell := UNone | UNaN | UVal.
Definition ucell_missing (u : ucell) : bool := match u with UVal => false | _ => true end.
Definition profile_default {V E} (c : list ucell) : profile V E :=
  empty_profile (zlen c) (zlen (filter ucell_missing c)).

(* ---------- comparison functions used by the correspondence files ---------- *)
Definition opt_eqb {B} (e : B -> B -> bool) (a b : option B) : bool :=
  match a, b with
  | None, None => true
  | Some x, Some y => e x y
  | _, _ => false
  end.
Fixpoint list_eqb {B} (e : B -> B -> bool) (a b : list B) : bool :=
  match a, b with
  | [], [] => true
  | x :: r, y :: s => e x y && list_eqb e r s
  | _, _ => false
  end.
Definition pair_eqb {B C} (e1 : B -> B -> bool) (e2 : C -> C -> bool) (a b : B * C) : bool :=
  e1 (fst a) (fst b) && e2 (snd a) (snd b).

(* whole profile, histogram edges as binary64 bit patterns *)
Definition profile_eqb {V} (ev : V -> V -> bool) (a b : profile V N) : bool :=
  (p_count a =? p_count b) && (p_missing a =? p_missing b) &&
  opt_eqb Z.eqb (p_maximum a) (p_maximum b) && opt_eqb Z.eqb (p_minimum a) (p_minimum b) &&
  opt_eqb Z.eqb (p_order a) (p_order b) && (p_transitions a =? p_transitions b) &&
  list_eqb (pair_eqb ev Z.eqb) (p_mfv a) (p_mfv b) &&
  list_eqb (pair_eqb N.eqb Z.eqb) (p_histogram a) (p_histogram b) &&
  list_eqb N.eqb (p_kmv a) (p_kmv b).

(* a summed profile: the merged histogram belongs to the distogram (C13); only whether it is
   empty is compared here *)
Definition sum_eqb {V} (ev : V -> V -> bool) (a b : profile V N) : bool :=
  (p_count a =? p_count b) && (p_missing a =? p_missing b) &&
  opt_eqb Z.eqb (p_maximum a) (p_maximum b) && opt_eqb Z.eqb (p_minimum a) (p_minimum b) &&
  opt_eqb Z.eqb (p_order a) (p_order b) && (p_transitions a =? p_transitions b) &&
  list_eqb (pair_eqb ev Z.eqb) (p_mfv a) (p_mfv b) &&
  Bool.eqb (is_nil (p_histogram a)) (is_nil (p_histogram b)) &&
  list_eqb N.eqb (p_kmv a) (p_kmv b).

(* the four additive fields *)
Definition quad {V E} (p : profile V E) : Z * Z * option Z * option Z :=
  (p_count p, p_missing p, p_minimum p, p_maximum p).
Definition quad_eqb (a b : Z * Z * option Z * option Z) : bool :=
  let '(c1, m1, lo1, hi1) := a in
  let '(c2, m2, lo2, hi2) := b in
  (c1 =? c2) && (m1 =? m2) && opt_eqb Z.eqb lo1 lo2 && opt_eqb Z.eqb hi1 hi2.

(* oracle tables handed over by the harness *)
Fixpoint assoc {K W} (e : K -> K -> bool) (k : K) (l : list (K * W)) (dflt : W) : W :=
  match l with
  | [] => dflt
  | (k', w) :: r => if e k k' then w else assoc e k r dflt
  end.

Definition dummy_merge (a b : list (N * Z)) : list (N * Z) := [(0%N, 1)].

Definition expand {B} (rep : nat) (l : list B) : list B := concat (repeat l rep).

(* every way of cutting [c] in two non-empty batches: the four additive fields of prof(a) + prof(b) *)
Definition cut_quads {X V E} (prof : list X -> profile V E) (addf : profile V E -> profile V E -> profile V E)
           (c : list X) : list (Z * Z * option Z * option Z) :=
  map (fun k => quad (addf (prof (firstn k c)) (prof (skipn k c)))) (seq 1 (length c - 1)).

(* Shape of a case, for each stream:
     column, repeat count, oracle tables, designated cut, observed profile of the frame
     (DataFrame.profile), observed sum at the designated cut (TableProfile.__add__), observed
     additive fields of the sum at every cut, observed estimate_cardinality. *)
Record obs (V : Type) := mko {
  o_whole : profile V N;
  o_cut : option (nat * profile V N);
  o_quads : list (nat * (Z * Z * option Z * option Z));   (* run-length encoded, in cut order *)
  o_estimate : Z;
  (* the session on one frame object: (rows in the frame, what .profile returned then - None: no
     column profile) for every read before the last *)
  o_session : list (N * option (profile V N));   (* row counts as N: frames above the batch size *)
  (* the last read, when the frame holds the whole column; None = the harness found it identical,
     field by field, to [o_whole] (the profile of a frame built with all rows at once) *)
  o_final : option (profile V N);
  (* after profile(a) + profile(b) at the designated cut: the left and the right operand read again, and
     the later sums (the same operands added again, copies of them added) that the harness did not
     find identical to the first sum *)
  o_after : option (profile V N * profile V N * list (profile V N));
  (* the frame (c, d) holding (column, column reversed) and its mirror named (d, c), profiled one after
     the other: (mirror?, name 0 = c / 1 = d, observed column profile; None = identical to [o_whole]) *)
  o_pair : list (bool * N * option (profile V N))
}.
Arguments mko {V}. Arguments o_whole {V}. Arguments o_cut {V}. Arguments o_quads {V}. Arguments o_estimate {V}.
Arguments o_session {V}. Arguments o_final {V}. Arguments o_after {V}. Arguments o_pair {V}.

(* the operands of a sum are still the profiles of their batches after the addition (and after
   further additions); adding them again, or adding copies of them, gives the same sum *)
Definition after_check {X V} (ev : V -> V -> bool) (prof : list X -> profile V N)
           (addf : profile V N -> profile V N -> profile V N) (c : list X) (o : obs V) : bool :=
  match o_after o, o_cut o with
  | Some (l, r, sums), Some (k, _) =>
      let a := prof (firstn k c) in
      let b := prof (skipn k c) in
      match prun addf (empty_profile 0 0) [a; b]
                 [PAdd 0 1; PRead 0; PRead 1; PAdd 0 1; PRead 3; PCopy 0; PCopy 1; PAdd 4 5; PRead 6] with
      | [a'; b'; s2; s3] =>
          sum_eqb ev a' l && sum_eqb ev b' r && forallb (fun s => sum_eqb ev s2 s && sum_eqb ev s3 s) sums
      | _ => false
      end
  | Some _, None => false
  | None, _ => true
  end.

(* each column profile of the two-column frames is the profile of the column the frame's own schema
   puts under that name *)
Definition pair_check {X V} (ev : V -> V -> bool) (frame : list X -> option (profile V N)) (c : list X) (o : obs V) : bool :=
  forallb (fun e : bool * N * option (profile V N) =>
             let '(mirror, nm, p) := e in
             let names := if mirror then (1%N, 0%N) else (0%N, 1%N) in
             match tprofile2 frame names (combine c (rev c)) nm with
             | Some (Some w) => sum_eqb ev w (match p with Some q => q | None => o_whole o end)
             | _ => false
             end) (o_pair o).

(* profile / append / profile ... on one frame object, replayed in the model: every read before
   the last agrees with the observed one (histogram: empty or not, as for sums - the harness has
   numpy's bins for the whole column only), the last read agrees with the observed one in full. *)
Definition session_check {X V} (ev : V -> V -> bool) (big : bool)
           (frame : list X -> option (profile V N)) (c : list X) (o : obs V) : bool :=
  let reads := map (fun r => N.to_nat (fst r)) (o_session o) in
  let k0 := hd (length c) reads in
  let got := frun frame (firstn k0 c) (session_ops k0 reads (skipn k0 c)) in
  list_eqb (opt_eqb (sum_eqb ev)) (removelast got) (map snd (o_session o)) &&
  opt_eqb (if big then sum_eqb ev else profile_eqb ev) (last got None)
          (Some (match o_final o with Some g => g | None => o_whole o end)).

Definition check_common {X V} (ev : V -> V -> bool) (big : bool) (prof : list X -> profile V N)
           (addf : profile V N -> profile V N -> profile V N)
           (frame : list X -> option (profile V N)) (c : list X) (o : obs V) : bool :=
  match frame c with
  | None => false
  | Some w =>
      (* a frame above the batch size is a sum of batch profiles: its histogram is the distogram's *)
      (if big then sum_eqb ev w (o_whole o) else profile_eqb ev w (o_whole o)) &&
      match estimate_cardinality w with Some e => e =? o_estimate o | None => true end &&
      match o_cut o with
      | None => true
      | Some (k, s) => sum_eqb ev (addf (prof (firstn k c)) (prof (skipn k c))) s
      end &&
      (if big then true
       else list_eqb quad_eqb (cut_quads prof addf c) (flat_map (fun r => repeat (snd r) (fst r)) (o_quads o))) &&
      session_check ev big frame c o && after_check ev prof addf c o && pair_check ev frame c o
  end.

(* what the model's frame returns at each read of the observed session *)
Definition session_show {X V} (frame : list X -> option (profile V N)) (c : list X) (o : obs V) :=
  let reads := map (fun r => N.to_nat (fst r)) (o_session o) in
  let k0 := hd (length c) reads in
  frun frame (firstn k0 c) (session_ops k0 reads (skipn k0 c)).

Definition hist_ok {X} (sample : list X) (h : list (N * Z)) : bool :=
  is_nil sample || Nat.eqb (length h) DISTOGRAM_BIN_COUNT.

(* numbers and instants.  [hist] is numpy.histogram of the frame's non-null sample, edges given
   by bin number (the harness identifies the observed edges with numpy's by their 64 bits); any
   other sample (the batches of a cut, where only emptiness of the histogram is compared) gets one
   bin holding the whole mass. *)
Definition ord_case : Type :=
  bool * Z * list (option Z) * nat * list (Z * N) * list (N * Z) * obs Z.

Definition ord_parts (k : ord_case) :=
  let '(with_order, scale, c0, rep, hashes, hist, o) := k in
  let big := negb (Nat.eqb rep 1) in
  let c := expand rep c0 in
  let hash := fun v => assoc Z.eqb v hashes 0%N in
  let whole := nonnull c in
  let np_hist := fun d => if negb big && list_eqb Z.eqb d whole then hist
                          else match d with [] => [] | _ => [(0%N, zlen d)] end in
  let prof := profile_num scale hash np_hist with_order in
  let addf := add Z.eqb N dummy_merge in
  (big, c, prof, addf, np_hist, o).

Definition c15_check_ord (k : ord_case) : bool :=
  let '(big, c, prof, addf, np_hist, o) := ord_parts k in
  (if big then true else hist_ok (nonnull c) (np_hist (nonnull c))) &&
  check_common Z.eqb big prof addf (profile_frame Z.eqb N dummy_merge prof) c o.

Definition c15_show_ord (k : ord_case) :=
  let '(big, c, prof, addf, np_hist, o) := ord_parts k in
  (profile_frame Z.eqb N dummy_merge prof c,
   match o_cut o with Some (n, _) => Some (addf (prof (firstn n c)) (prof (skipn n c))) | None => None end,
   if big then [] else cut_quads prof addf c,
   session_show (profile_frame Z.eqb N dummy_merge prof) c o).

(* numbers and instants given as cells (raw, shift, form); the hash table is keyed by (value, form) *)
Definition ordx_case : Type :=
  bool * Z * Z * list (option xcell) * nat * list (Z * N * N) * list (N * Z) * obs (Z * N).

Definition zn_eqb (a b : Z * N) : bool := (fst a =? fst b) && (snd a =? snd b)%N.

Definition ordx_parts (k : ordx_case) :=
  let '(with_order, scale, unit, c0, rep, hashes, hist, o) := k in
  let big := negb (Nat.eqb rep 1) in
  let c := expand rep c0 in
  let hashF := fun v => assoc zn_eqb v hashes 0%N in
  let whole := nonnull (xvalues unit c) in
  let np_hist := fun d => if negb big && list_eqb Z.eqb d whole then hist
                          else match d with [] => [] | _ => [(0%N, zlen d)] end in
  let prof := profile_x scale unit hashF np_hist with_order in
  let addf := add zn_eqb N dummy_merge in      (* __add__ matches listed values by their text: value and form *)
  (big, c, prof, addf, np_hist, whole, o).

Definition c15_check_ordx (k : ordx_case) : bool :=
  let '(big, c, prof, addf, np_hist, whole, o) := ordx_parts k in
  (if big then true else hist_ok whole (np_hist whole)) &&
  check_common zn_eqb big prof addf (profile_frame zn_eqb N dummy_merge prof) c o.

Definition c15_show_ordx (k : ordx_case) :=
  let '(big, c, prof, addf, np_hist, whole, o) := ordx_parts k in
  (profile_frame zn_eqb N dummy_merge prof c,
   match o_cut o with Some (n, _) => Some (addf (prof (firstn n c)) (prof (skipn n c))) | None => None end,
   if big then [] else cut_quads prof addf c,
   session_show (profile_frame zn_eqb N dummy_merge prof) c o).

(* text *)
Definition text_case : Type :=
  list (option (list N)) * nat * list (list N * N) * obs (list N).

Definition text_parts (k : text_case) :=
  let '(c0, rep, hashes, o) := k in
  let c := expand rep c0 in
  let hash := fun v => assoc text_eqb v hashes 0%N in
  let prof := @profile_text N hash in
  let addf := add text_eqb N dummy_merge in
  (negb (Nat.eqb rep 1), c, prof, addf, o).

Definition c15_check_text (k : text_case) : bool :=
  let '(big, c, prof, addf, o) := text_parts k in
  check_common text_eqb big prof addf (profile_frame text_eqb N dummy_merge prof) c o.

Definition c15_show_text (k : text_case) :=
  let '(big, c, prof, addf, o) := text_parts k in
  (profile_frame text_eqb N dummy_merge prof c,
   match o_cut o with Some (n, _) => Some (addf (prof (firstn n c)) (prof (skipn n c))) | None => None end,
   if big then [] else cut_quads prof addf c,
   session_show (profile_frame text_eqb N dummy_merge prof) c o).

(* booleans *)
Definition bool_case : Type := list (option bool) * nat * obs bool.
Definition c15_check_bool (k : bool_case) : bool :=
  let '(c0, rep, o) := k in
  let c := expand rep c0 in
  let addf := add Bool.eqb N dummy_merge in
  check_common Bool.eqb (negb (Nat.eqb rep 1)) (@profile_bool N) addf (profile_frame Bool.eqb N dummy_merge (@profile_bool N)) c o.
Definition c15_show_bool (k : bool_case) :=
  let '(c0, rep, o) := k in
  let c := expand rep c0 in
  (profile_frame Bool.eqb N dummy_merge (@profile_bool N) c,
   if Nat.eqb rep 1 then cut_quads (@profile_bool N) (add Bool.eqb N dummy_merge) c else [],
   session_show (profile_frame Bool.eqb N dummy_merge (@profile_bool N)) c o).

(* ARRAY / STRUCT (cells null or not) and untyped columns (cells None / NaN / a value);
   the listed values are of no type: unit *)
Definition unit_eqb (a b : unit) : bool := true.
Definition plain_case : Type := bool * list ucell * nat * obs unit.
Definition plain_prof (untyped : bool) (c : list ucell) : profile unit N :=
  if untyped then profile_default c
  else profile_plain (map (fun u => match u with UNone => None | _ => Some tt end) c).
Definition c15_check_plain (k : plain_case) : bool :=
  let '(untyped, c0, rep, o) := k in
  let c := expand rep c0 in
  let addf := add unit_eqb N dummy_merge in
  check_common unit_eqb (negb (Nat.eqb rep 1)) (plain_prof untyped) addf
               (profile_frame unit_eqb N dummy_merge (plain_prof untyped)) c o.
Definition c15_show_plain (k : plain_case) :=
  let '(untyped, c0, rep, o) := k in
  let c := expand rep c0 in
  (profile_frame unit_eqb N dummy_merge (plain_prof untyped) c,
   if Nat.eqb rep 1 then cut_quads (plain_prof untyped) (add unit_eqb N dummy_merge) c else [],
   session_show (profile_frame unit_eqb N dummy_merge (plain_prof untyped)) c o).
