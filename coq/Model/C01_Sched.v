(* C01 - schedules: Row.as_bytes executed by several threads at once.
     orso/row.py  Row.as_bytes (lines 149-177) as a sequence of atomic steps; a thread switch can happen
     between any two of them.  The property must hold for every interleaving.
   A machine is a step function over (shared module-level state, the frame of the running thread); a
   schedule is the list of thread ids in the order in which they are given one step.  No proofs here. *)
From Coq Require Import List NArith ZArith Bool.
From Orso Require Import Gen.C01_RowFmt Model.C01.
Import ListNotations.
Open Scope N_scope.

(* ---------------------------------------------------------------------------------- *)
(* the interleaving machine                                                           *)
(* ---------------------------------------------------------------------------------- *)
(* threads: thread id -> frame.  A finished thread ignores further turns. *)
Fixpoint run {Sh Loc : Type} (step : Sh -> Loc -> Sh * Loc) (fin : Loc -> bool)
             (sched : list nat) (sh : Sh) (th : nat -> Loc) : Sh * (nat -> Loc) :=
  match sched with
  | [] => (sh, th)
  | i :: s =>
      let l := th i in
      if fin l then run step fin s sh th
      else let (sh', l') := step sh l in
           run step fin s sh' (fun j => if Nat.eqb j i then l' else th j)
  end.

(* how many turns thread i gets *)
Fixpoint turns (i : nat) (sched : list nat) : nat :=
  match sched with
  | [] => O
  | j :: s => if Nat.eqb j i then S (turns i s) else turns i s
  end.

(* ---------------------------------------------------------------------------------- *)
(* Row.as_bytes, statement by statement                                               *)
(* ---------------------------------------------------------------------------------- *)
Inductive enc_pc :=
| EStart                                           (* frame created: self is the row *)
| EPacked (payload : bytes)                        (* record_bytes = packb(tuple(self), ...) *)
| ESized (payload : bytes) (n : N)                 (* record_size = len(record_bytes) *)
| EStamped (payload : bytes) (n : N) (ts : N)      (* timestamp = time.time_ns() *)
| EChecked (payload : bytes) (n : N) (ts : N)      (* if record_size > MAXIMUM_RECORD_SIZE: raise DataError *)
| EDone (r : result bytes).                        (* return HEADER_PREFIX + size + timestamp + record_bytes / raised *)

(* a frame: the clock reading this thread will get, the row, the program point with its locals *)
Record enc_frame := mkFrame { ef_ts : N; ef_row : list mval; ef_pc : enc_pc }.

Definition enc_next (ts : N) (row : list mval) (pc : enc_pc) : enc_pc :=
  match pc with
  | EStart =>
      if negb (wfb (MArr row) && (cdepth (MArr row) <=? enc_container_limit))
      then EDone (Raise TypeError)
      else EPacked (pack (MArr row))
  | EPacked p => ESized p (len p)
  | ESized p n => EStamped p n ts
  | EStamped p n t => if size_ok (Z.of_N n) then EChecked p n t else EDone (Raise DataError)
  | EChecked p n t => EDone (Ok (row_HEADER_PREFIX ++ be 4 n ++ be 8 t ++ p))
  | EDone r => EDone r
  end.

(* the unchanged as_bytes has no module-level state to read or write: the shared component is passed through *)
Definition enc_local (f : enc_frame) : enc_frame :=
  mkFrame (ef_ts f) (ef_row f) (enc_next (ef_ts f) (ef_row f) (ef_pc f)).

Definition enc_step {Sh : Type} (sh : Sh) (f : enc_frame) : Sh * enc_frame := (sh, enc_local f).

Definition enc_fin (f : enc_frame) : bool := match ef_pc f with EDone _ => true | _ => false end.

Definition enc_steps : nat := 5.          (* the longest path EStart -> EDone *)

Definition enc_start (inp : nat -> N * list mval) : nat -> enc_frame :=
  fun i => mkFrame (fst (inp i)) (snd (inp i)) EStart.

(* what thread i returned (or raised), if it has finished *)
Definition enc_result (th : nat -> enc_frame) (i : nat) : option (result bytes) :=
  match ef_pc (th i) with EDone r => Some r | _ => None end.

(* ---------------------------------------------------------------------------------- *)
(* the variant the machine must be able to tell apart: one module-level header buffer *)
(* filled in place (struct.pack_into) and copied on the next line                     *)
(* ---------------------------------------------------------------------------------- *)
Inductive shv_pc :=
| VStart
| VPacked (payload : bytes)
| VChecked (payload : bytes)
| VStamped (payload : bytes)                       (* _HEADER_FIELDS.pack_into(_header, 2, record_size, time.time_ns()) *)
| VDone (r : result bytes).                        (* return bytes(_header) + record_bytes *)

Record shv_frame := mkVFrame { vf_ts : N; vf_row : list mval; vf_pc : shv_pc }.

Definition shv_step (hdr : bytes) (f : shv_frame) : bytes * shv_frame :=
  let mk := mkVFrame (vf_ts f) (vf_row f) in
  match vf_pc f with
  | VStart =>
      if negb (wfb (MArr (vf_row f)) && (cdepth (MArr (vf_row f)) <=? enc_container_limit))
      then (hdr, mk (VDone (Raise TypeError)))
      else (hdr, mk (VPacked (pack (MArr (vf_row f)))))
  | VPacked p => if size_ok (Z.of_N (len p)) then (hdr, mk (VChecked p)) else (hdr, mk (VDone (Raise DataError)))
  | VChecked p => (row_HEADER_PREFIX ++ be 4 (len p) ++ be 8 (vf_ts f), mk (VStamped p))
  | VStamped p => (hdr, mk (VDone (Ok (hdr ++ p))))
  | VDone r => (hdr, mk (VDone r))
  end.

Definition shv_fin (f : shv_frame) : bool := match vf_pc f with VDone _ => true | _ => false end.

Definition shv_start (inp : nat -> N * list mval) : nat -> shv_frame :=
  fun i => mkVFrame (fst (inp i)) (snd (inp i)) VStart.

Definition shv_result (th : nat -> shv_frame) (i : nat) : option (result bytes) :=
  match vf_pc (th i) with VDone r => Some r | _ => None end.

(* ---------------------------------------------------------------------------------- *)
(* schedules the harness forces, and the comparison used by the correspondence        *)
(* ---------------------------------------------------------------------------------- *)
(* thread 0 is given k steps, thread 1 runs from start to finish, thread 0 continues *)
Definition sched_single (k : nat) : list nat :=
  repeat 0%nat k ++ repeat 1%nat enc_steps ++ repeat 0%nat (enc_steps - k).

(* before every step of thread 0 a fresh thread (1, 2, ...) runs from start to finish *)
Definition sched_every : list nat :=
  flat_map (fun j => repeat (S j) enc_steps ++ [0%nat]) (seq 0 enc_steps).

Definition sched_family : list (list nat) := map sched_single (seq 0 (S enc_steps)) ++ [sched_every].

(* one observation: what as_bytes returned (or raised) and what from_bytes made of the record *)
Definition sched_obs := (enc_obs * outcome)%type.

Definition obs_matches (row : list mval) (m : option (result bytes)) (o : sched_obs) : bool :=
  let dec := resolve (OOk (map OVal row)) (snd o) in
  match m, fst o with
  | Some (Ok r), EBytes r' => bytes_eqb r r' && outcome_matches (decode_row r') dec
  | Some (Ok r), EHash n h => (len r =? n) && (digest r =? h) && outcome_matches (decode_row r) dec
  | Some (Raise e), ERaise e' => exn_eqb e e'
  | _, _ => false
  end.

(* a schedule case: thread 0 encodes (tsA, rowA) and is preempted, the other threads encode (tsB, rowB);
   obsA / obsB list every distinct thing the harness saw thread 0 / the preempting threads return over
   all the forced preemption points (one element each when the schedule does not matter) *)
Definition sched_case := (N * list mval * (N * list mval) * list sched_obs * list sched_obs)%type.

Definition c01_check_sched (c : sched_case) : bool :=
  let '(tsA, rowA, (tsB, rowB), obsA, obsB) := c in
  let inp := fun i : nat => match i with O => (tsA, rowA) | _ => (tsB, rowB) end in
  negb (match obsA with [] => true | _ => false end) &&
  forallb (fun sched =>
             let th := snd (run (@enc_step unit) enc_fin sched tt (enc_start inp)) in
             forallb (obs_matches rowA (enc_result th 0%nat)) obsA &&
             forallb (fun j => forallb (obs_matches rowB (enc_result th j)) obsB)
                     (filter (fun j => Nat.ltb 0 (turns j sched)) (seq 1 enc_steps)))
          sched_family.

Definition c01_show_sched (c : sched_case) :=
  let '(tsA, rowA, (tsB, rowB), obsA, obsB) := c in
  let inp := fun i : nat => match i with O => (tsA, rowA) | _ => (tsB, rowB) end in
  map (fun sched =>
         let th := snd (run (@enc_step unit) enc_fin sched tt (enc_start inp)) in
         (enc_result th 0%nat, enc_result th 1%nat)) sched_family.
