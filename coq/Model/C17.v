(* C17 - executable model of RelationSchema union / lookup / removal / iteration (also as an open iterator)
   (orso/schema.py: RelationSchema.__iter__ 531-533, __add__ 535-562, find_column 569-588,
   all_column_names 590-602, column_names 604-607, column 609-623, pop_column 625-639;
   FlatColumn.all_names 290-295, FlatColumn.identity 144).
   No proofs here: this file must keep running when a proof breaks.

   Everything is parametric in the identity type I, the text type T (column / schema names,
   aliases, lookup keys) and a payload type P that stands for "which FlatColumn object this
   is" (the harness numbers the objects), with the comparisons [ieqb], [teqb] (Python ==)
   and the case normalisation [lower] (str.lower) as parameters.  The correspondence
   instantiates I = T = list N (code points), P = N. *)
From Coq Require Import List ZArith NArith Bool.
Import ListNotations.

Inductive exn := IndexError.
Inductive result (A : Type) := Ok (a : A) | Raise (e : exn).
Arguments Ok {A}. Arguments Raise {A}.

Section Schema.
Variables I T P : Type.
Variable ieqb : I -> I -> bool.
Variable teqb : T -> T -> bool.
Variable lower : T -> T.
Variable peqb : P -> P -> bool.          (* "is the same column object" (harness tags); used by the in-place mutations only *)

(* FlatColumn: only the fields the property is about.  aliases may be None. *)
Record col := mkcol { ctag : P; cid : I; cname : T; caliases : option (list T) }.
(* RelationSchema: name, aliases, columns (a mutable Python list -> value semantics here) *)
Record schema := mksch { sname : T; saliases : list T; scols : list col }.

Definition mem_i (x : I) (l : list I) : bool := existsb (ieqb x) l.    (* x in l *)
Definition mem_t (x : T) (l : list T) : bool := existsb (teqb x) l.

(* FlatColumn.all_names: aliases + [name], or [name] when aliases is None *)
Definition all_names (c : col) : list T :=
  match caliases c with
  | Some a => a ++ [cname c]
  | None => [cname c]
  end.

(* __add__: new_columns = self.columns[:]; seen = [identities of self];
   for column in other.columns: if identity not in seen: seen.append(..); new_columns.append(column) *)
Fixpoint add_loop (seen : list I) (acc : list col) (l : list col) : list col :=
  match l with
  | [] => acc
  | c :: r => if mem_i (cid c) seen then add_loop seen acc r
              else add_loop (seen ++ [cid c]) (acc ++ [c]) r
  end.

Definition add (s1 s2 : schema) : schema :=
  mksch (sname s1) (saliases s1) (add_loop (map cid (scols s1)) (scols s1) (scols s2)).

(* does column c answer to key?  (the test inside find_column's loop) *)
Definition bears (ci : bool) (key : T) (c : col) : bool :=
  if ci then mem_t (lower key) (map lower (all_names c))
  else mem_t key (all_names c).

(* find_column: first column (in list order) that bears the key, else None *)
Definition find_column (ci : bool) (key : T) (s : schema) : option col :=
  find (bears ci key) (scols s).

(* all_column_names: yield from column.all_names for each column *)
Definition all_column_names (s : schema) : list T := flat_map all_names (scols s).
(* column_names, and __iter__ which iterates over the same list *)
Definition column_names (s : schema) : list T := map cname (scols s).
Definition iter_names (s : schema) : list T := map cname (scols s).

(* column(i) with an int: self.columns[i] - Python indexing, negative from the end, IndexError outside *)
Definition column_at (i : Z) (s : schema) : result col :=
  let n := Z.of_nat (length (scols s)) in
  let j := if (i <? 0)%Z then (i + n)%Z else i in
  if (j <? 0)%Z then Raise IndexError
  else match nth_error (scols s) (Z.to_nat j) with
       | Some c => Ok c
       | None => Raise IndexError
       end.
(* column(i) with a str: find_column(i) (case sensitive) *)
Definition column_by_name (key : T) (s : schema) : option col := find_column false key s.

(* pop_column: for idx, column in enumerate(columns): if column.name == n: return columns.pop(idx) *)
Fixpoint first_named (n : T) (l : list col) (idx : nat) : option nat :=
  match l with
  | [] => None
  | c :: r => if teqb (cname c) n then Some idx else first_named n r (S idx)
  end.

Definition pop_column (n : T) (s : schema) : option col * schema :=
  match first_named n (scols s) 0 with
  | Some i => (nth_error (scols s) i,
               mksch (sname s) (saliases s) (firstn i (scols s) ++ skipn (S i) (scols s)))
  | None => (None, s)
  end.

(* ---- histories over a store of schemas (the harness keeps a Python list of RelationSchema
        objects; an addition appends its result) ---- *)
Inductive op :=
| OAdd (i j : nat)                       (* store.append(store[i] + store[j]) *)
| OFind (i : nat) (key : T) (ci : bool)  (* store[i].find_column(key, ci) *)
| OColAt (i : nat) (z : Z)               (* store[i].column(z) *)
| OColName (i : nat) (key : T)           (* store[i].column(key) *)
| OPop (i : nat) (n : T)                 (* store[i].pop_column(n) *)
| OAllNames (i : nat)
| ONames (i : nat)
| OIter (i : nat).

Inductive out :=
| XNew (name : T) (aliases : list T)     (* name and aliases of the schema just created *)
| XCol (c : option P)                    (* which column object came back *)
| XNames (l : list T)
| XRaise                                 (* IndexError *)
| XBad                                   (* history refers to a schema / iterator that does not exist *)
| XOpened                                (* iter(schema) returned an iterator (nothing consumed yet) *)
| XItem (n : T)                          (* next(it) returned n *)
| XStop                                  (* next(it) raised StopIteration *)
| XCols (l : list (option P))            (* a whole lookup table: which column object each key found *)
| XDone.                                 (* an in-place mutation by the caller went through *)

Definition store := list schema.

Fixpoint set_nth (st : store) (i : nat) (s : schema) : store :=
  match st, i with
  | [], _ => []
  | _ :: r, O => s :: r
  | x :: r, S k => x :: set_nth r k s
  end.

Definition with_schema (st : store) (i : nat) (f : schema -> store * out) : store * out :=
  match nth_error st i with
  | Some s => f s
  | None => (st, XBad)
  end.

Definition step (st : store) (o : op) : store * out :=
  match o with
  | OAdd i j =>
      match nth_error st i, nth_error st j with
      | Some a, Some b => let r := add a b in (st ++ [r], XNew (sname r) (saliases r))
      | _, _ => (st, XBad)
      end
  | OFind i key ci => with_schema st i (fun s => (st, XCol (option_map ctag (find_column ci key s))))
  | OColAt i z => with_schema st i (fun s =>
        (st, match column_at z s with Ok c => XCol (Some (ctag c)) | Raise _ => XRaise end))
  | OColName i key => with_schema st i (fun s => (st, XCol (option_map ctag (column_by_name key s))))
  | OPop i n => with_schema st i (fun s =>
        let '(c, s') := pop_column n s in (set_nth st i s', XCol (option_map ctag c)))
  | OAllNames i => with_schema st i (fun s => (st, XNames (all_column_names s)))
  | ONames i => with_schema st i (fun s => (st, XNames (column_names s)))
  | OIter i => with_schema st i (fun s => (st, XNames (iter_names s)))
  end.

(* which column objects each schema of the store lists, in order *)
Definition tags_of (st : store) : list (list P) := map (fun s => map ctag (scols s)) st.

(* after every call: what it returned and the column lists of ALL schemas *)
Fixpoint run (st : store) (ops : list op) : store * list (out * list (list P)) :=
  match ops with
  | [] => (st, [])
  | o :: r => let '(st1, x) := step st o in
              let '(st2, xs) := run st1 r in (st2, (x, tags_of st1) :: xs)
  end.

(* ---- open iterators (round 2): `it = iter(schema)` is kept by the caller and advanced with
        next(it) BETWEEN other calls, in particular between removals on the same schema.
        __iter__ (531-533) is `iter([col.name for col in self.columns])`: a list iterator over a
        list of names built when iter() is called, so the iterator's state is the list of names it
        has not yielded yet and no later call on the schema can reach it.  The harness keeps the
        iterators it opened in a Python list, in opening order. ---- *)
Inductive hop :=
| HOp (o : op)                           (* one of the calls above *)
| HOpen (i : nat)                        (* iters.append(iter(store[i])) *)
| HNext (k : nat)                        (* next(iters[k]) *)
(* round 3: sessions on the SAME objects.  A whole lookup table in one call, and the in-place
   mutations a caller can make between two uses of a schema: of a column object (seen by every schema
   that lists that object) and of a schema's column list. *)
| HTable (i : nat) (ci : bool) (keys : list T)   (* [store[i].find_column(k, ci) for k in keys] *)
| HRename (i q : nat) (n : T)                    (* store[i].columns[q].name = n *)
| HSetAliases (i q : nat) (al : option (list T)) (* store[i].columns[q].aliases = al *)
| HInsertFrom (i p j q : nat)                    (* store[i].columns.insert(p, store[j].columns[q]) *)
| HDelAt (i p : nat)                             (* del store[i].columns[p] *)
(* round 7: the union taken through the augmented-assignment operator: `acc = store[i]; acc += store[j];
   store.append(acc)` (also operator.iadd).  RelationSchema defines no __iadd__, so Python evaluates
   `acc = acc + store[j]`; the SPECIFICATION of the step is the non-mutating union in any case: the object
   store[i] is still referenced (by the store, by a DataFrame) and the sum modifies neither operand. *)
| HIAdd (i j : nat).

Definition iters := list (list T).       (* per open iterator: the names still to be yielded *)

(* a column OBJECT is known by its tag: mutating it changes every occurrence, in every schema *)
Definition set_name (n : T) (c : col) : col := mkcol (ctag c) (cid c) n (caliases c).
Definition set_aliases (al : option (list T)) (c : col) : col := mkcol (ctag c) (cid c) (cname c) al.
Definition upd_col (tag : P) (f : col -> col) (s : schema) : schema :=
  mksch (sname s) (saliases s) (map (fun c => if peqb (ctag c) tag then f c else c) (scols s)).
(* list.insert(p, c) for p >= 0 (p beyond the end appends); del l[p] *)
Definition insert_at (p : nat) (c : col) (s : schema) : schema :=
  mksch (sname s) (saliases s) (firstn p (scols s) ++ c :: skipn p (scols s)).
Definition del_at (p : nat) (s : schema) : schema :=
  mksch (sname s) (saliases s) (firstn p (scols s) ++ skipn (S p) (scols s)).
Definition lookup_table (ci : bool) (keys : list T) (s : schema) : list (option P) :=
  map (fun k => option_map ctag (find_column ci k s)) keys.
(* store[i].columns[q] for q >= 0: XBad when the history names no such schema, IndexError past the end *)
Definition with_col (st : store) (its : iters) (i q : nat) (f : col -> (store * iters) * out)
  : (store * iters) * out :=
  match nth_error st i with
  | None => ((st, its), XBad)
  | Some s => match nth_error (scols s) q with
              | None => ((st, its), XRaise)
              | Some c => f c
              end
  end.

Fixpoint set_it (its : iters) (k : nat) (l : list T) : iters :=
  match its, k with
  | [], _ => []
  | _ :: r, O => l :: r
  | x :: r, S k' => x :: set_it r k' l
  end.

Definition hstep (sti : store * iters) (h : hop) : (store * iters) * out :=
  let '(st, its) := sti in
  match h with
  | HOp o => let '(st', x) := step st o in ((st', its), x)
  | HOpen i =>
      match nth_error st i with
      | Some s => ((st, its ++ [iter_names s]), XOpened)
      | None => ((st, its), XBad)
      end
  | HNext k =>
      match nth_error its k with
      | Some (n :: r) => ((st, set_it its k r), XItem n)
      | Some [] => ((st, its), XStop)          (* exhausted: StopIteration, now and ever after *)
      | None => ((st, its), XBad)
      end
  | HTable i ci keys =>
      match nth_error st i with
      | Some s => ((st, its), XCols (lookup_table ci keys s))
      | None => ((st, its), XBad)
      end
  | HRename i q n => with_col st its i q (fun c => ((map (upd_col (ctag c) (set_name n)) st, its), XDone))
  | HSetAliases i q al => with_col st its i q (fun c => ((map (upd_col (ctag c) (set_aliases al)) st, its), XDone))
  | HInsertFrom i p j q =>
      match nth_error st i with
      | None => ((st, its), XBad)
      | Some s => with_col st its j q (fun c => ((set_nth st i (insert_at p c s), its), XDone))
      end
  | HDelAt i p =>
      match nth_error st i with
      | None => ((st, its), XBad)
      | Some s => if Nat.ltb p (length (scols s)) then ((set_nth st i (del_at p s), its), XDone)
                  else ((st, its), XRaise)
      end
  | HIAdd i j => let '(st', x) := step st (OAdd i j) in ((st', its), x)
  end.

(* after every call: what it returned and the column lists of ALL schemas *)
Fixpoint hrun (sti : store * iters) (hops : list hop) : (store * iters) * list (out * list (list P)) :=
  match hops with
  | [] => (sti, [])
  | h :: r => let '(sti1, x) := hstep sti h in
              let '(sti2, xs) := hrun sti1 r in (sti2, (x, tags_of (fst sti1)) :: xs)
  end.

(* the loop `for n in schema: if pred(n): schema.pop_column(n)` as a function of the schema: the names
   are those the iterator was opened on (see Proofs/C17_Iter.v: an open iterator yields exactly them) *)
Definition drop_loop (pred : T -> bool) (s : schema) : schema :=
  fold_left (fun s' n => if pred n then snd (pop_column n s') else s') (iter_names s) s.

End Schema.

Arguments mkcol {I T P}. Arguments ctag {I T P}. Arguments cid {I T P}. Arguments cname {I T P}.
Arguments caliases {I T P}.
Arguments mksch {I T P}. Arguments sname {I T P}. Arguments saliases {I T P}. Arguments scols {I T P}.
Arguments mem_i {I}. Arguments mem_t {T}. Arguments all_names {I T P}.
Arguments add_loop {I T P}. Arguments add {I T P}. Arguments bears {I T P}.
Arguments find_column {I T P}. Arguments all_column_names {I T P}. Arguments column_names {I T P}.
Arguments iter_names {I T P}. Arguments column_at {I T P}. Arguments column_by_name {I T P}.
Arguments first_named {I T P}. Arguments pop_column {I T P}.
Arguments OAdd {T}. Arguments OFind {T}. Arguments OColAt {T}. Arguments OColName {T}.
Arguments OPop {T}. Arguments OAllNames {T}. Arguments ONames {T}. Arguments OIter {T}.
Arguments XNew {T P}. Arguments XCol {T P}. Arguments XNames {T P}. Arguments XRaise {T P}. Arguments XBad {T P}.
Arguments XOpened {T P}. Arguments XItem {T P}. Arguments XStop {T P}. Arguments XCols {T P}. Arguments XDone {T P}.
Arguments HOp {T}. Arguments HOpen {T}. Arguments HNext {T}. Arguments HTable {T}. Arguments HRename {T}.
Arguments HSetAliases {T}. Arguments HInsertFrom {T}. Arguments HDelAt {T}. Arguments HIAdd {T}.
Arguments set_name {I T P}. Arguments set_aliases {I T P}. Arguments upd_col {I T P}. Arguments insert_at {I T P}.
Arguments del_at {I T P}. Arguments lookup_table {I T P}. Arguments with_col {I T P}.
Arguments set_it {T}. Arguments hstep {I T P}. Arguments hrun {I T P}. Arguments drop_loop {I T P}.
Arguments set_nth {I T P}. Arguments step {I T P}. Arguments run {I T P}. Arguments tags_of {I T P}.
Arguments with_schema {I T P}.

(* ---- concrete instance used by the correspondence: text = list of code points ---- *)
Definition text := list N.

Fixpoint text_eqb (a b : text) : bool :=
  match a, b with
  | [], [] => true
  | x :: r, y :: s => N.eqb x y && text_eqb r s
  | _, _ => false
  end.

(* str.lower on ASCII text *)
Definition ascii_lower_cp (c : N) : N := if (N.leb 65 c && N.leb c 90)%bool then (c + 32)%N else c.
Definition ascii_lower (s : text) : text := map ascii_lower_cp s.

(* str.lower as observed: ASCII rule, overridden by a table (string -> str.lower(string)) that the
   harness fills, from the running interpreter, for exactly those strings of the case on which
   Python's Unicode lower() differs from the ASCII rule *)
Fixpoint assoc_text (k : text) (tbl : list (text * text)) : option text :=
  match tbl with
  | [] => None
  | (a, b) :: r => if text_eqb a k then Some b else assoc_text k r
  end.
Definition lower_of (tbl : list (text * text)) (s : text) : text :=
  match assoc_text s tbl with Some v => v | None => ascii_lower s end.

Definition ccol := col text text N.
Definition cschema := schema text text N.
Definition cout := out text N.

Fixpoint list_eqb {A : Type} (e : A -> A -> bool) (a b : list A) : bool :=
  match a, b with
  | [], [] => true
  | x :: r, y :: s => e x y && list_eqb e r s
  | _, _ => false
  end.

Definition opt_eqb {A : Type} (e : A -> A -> bool) (a b : option A) : bool :=
  match a, b with
  | None, None => true
  | Some x, Some y => e x y
  | _, _ => false
  end.

Definition out_eqb (a b : cout) : bool :=
  match a, b with
  | XNew n1 a1, XNew n2 a2 => text_eqb n1 n2 && list_eqb text_eqb a1 a2
  | XCol c1, XCol c2 => opt_eqb N.eqb c1 c2
  | XNames l1, XNames l2 => list_eqb text_eqb l1 l2
  | XRaise, XRaise => true
  | XOpened, XOpened => true
  | XItem n1, XItem n2 => text_eqb n1 n2
  | XStop, XStop => true
  | XCols l1, XCols l2 => list_eqb (opt_eqb N.eqb) l1 l2
  | XDone, XDone => true
  | _, _ => false                      (* XBad never equals an observation *)
  end.

Definition stepobs_eqb (a b : cout * list (list N)) : bool :=
  out_eqb (fst a) (fst b) && list_eqb (list_eqb N.eqb) (snd a) (snd b).

(* per-call comparison.  The harness observes the column tags of ALL schemas after EVERY call; to keep the
   case terms small it writes None when they are exactly what it observed after the previous call (before
   the first call: the initial schemas of the case), so [e] below is always the observed list. *)
Fixpoint steps_eqb (prev : list (list N)) (xs : list (cout * list (list N)))
                   (obs : list (cout * option (list (list N)))) : bool :=
  match xs, obs with
  | [], [] => true
  | x :: xr, (y, ot) :: orr =>
      let e := match ot with Some u => u | None => prev end in
      stepobs_eqb x (y, e) && steps_eqb e xr orr
  | _, _ => false
  end.

(* a schema as the harness prints it: name, aliases, indices into the column pool *)
Definition build_schema (pool : list ccol) (d : text * list text * list nat) : cschema :=
  let '(n, al, ix) := d in
  mksch n al (flat_map (fun k => match nth_error pool k with Some c => [c] | None => [] end) ix).

Definition snapshot (s : cschema) : text * list text * list N :=
  (sname s, saliases s, map ctag (scols s)).

Definition snap_eqb (a b : text * list text * list N) : bool :=
  let '(n1, a1, t1) := a in
  let '(n2, a2, t2) := b in
  text_eqb n1 n2 && list_eqb text_eqb a1 a2 && list_eqb N.eqb t1 t2.

Definition final_eqb (st : list cschema) (fin : list (text * list text * list N)) : bool :=
  list_eqb snap_eqb (map snapshot st) fin.

(* a case: (lower() table, column pool, initial schemas, history,
            per-call observations, final snapshot of every schema) *)
Definition c17_case : Type :=
  list (text * text) * list ccol * list (text * list text * list nat) * list (hop text)
  * list (cout * option (list (list N))) * list (text * list text * list N).

Definition c17_run (c : c17_case) :=
  let '(tbl, pool, schemas, ops, obs, fin) := c in
  let '(sti, xs) := hrun text_eqb text_eqb (lower_of tbl) N.eqb (map (build_schema pool) schemas, []) ops in
  (fst sti, xs).

Definition c17_check (c : c17_case) : bool :=
  let '(tbl, pool, schemas, ops, obs, fin) := c in
  let '(st, xs) := c17_run c in
  steps_eqb (tags_of (map (build_schema pool) schemas)) xs obs && final_eqb st fin.

Definition c17_show (c : c17_case) :=
  let '(st, xs) := c17_run c in
  (xs, map snapshot st).
