(* C01 - sessions on row OBJECTS (round 7).
   A Row is a tuple, but the lists / maps it holds can still be changed by whoever holds them, and the
   object carries lazily filled state (orso/row.py: _cached_byte_size, set by nbytes() - which
   DataFrame.append calls for every row it is given; as_map is a cached_property).
   The model: a heap of row objects (class, current values, cached size); steps create an object
   (directly, or through DataFrame.append which sizes it), size it, read it, change a container it holds
   in place, and serialise + decode it.  Serialising is [encode_row_cls] of the CURRENT values: it neither
   reads nor writes the cached state.  No proofs here. *)
From Coq Require Import List NArith ZArith Bool.
From Orso Require Import Gen.C01_RowFmt Model.C01.
Import ListNotations.
Open Scope N_scope.

(* ---- in-place updates of a container --------------------------------------------------------------- *)
Inductive uop :=
| UAppend (v : mval)              (* list.append(v) *)
| UPut (k : bytes) (v : mval)     (* dict[k] = v   (an existing key keeps its position) *)
| USetAt (i : nat) (v : mval)     (* list[i] = v *)
| UPop                            (* list.pop() / dict.popitem() *)
| UClear.                         (* .clear() *)

Fixpoint map_nth {A} (i : nat) (f : A -> A) (l : list A) : list A :=
  match l, i with
  | [], _ => []
  | x :: r, O => f x :: r
  | x :: r, S k => x :: map_nth k f r
  end.

(* an update that does not apply to the value found there (wrong kind, index out of range, pop of an empty
   container) changes nothing: the harness performs no call in that case *)
Definition upd_here (u : uop) (v : mval) : mval :=
  match u, v with
  | UAppend x, MArr l => MArr (l ++ [x])
  | UPut k x, MMap d => MMap (dict_set k x d)
  | USetAt i x, MArr l => MArr (map_nth i (fun _ => x) l)
  | UPop, MArr l => MArr (removelast l)
  | UPop, MMap d => MMap (removelast d)
  | UClear, MArr _ => MArr []
  | UClear, MMap _ => MMap []
  | _, _ => v
  end.

(* the container is reached from a cell by indices: into a list, or into the entries of a map (its values) *)
Fixpoint upd_at (path : list nat) (u : uop) (v : mval) : mval :=
  match path with
  | [] => upd_here u v
  | i :: p =>
      match v with
      | MArr l => MArr (map_nth i (upd_at p u) l)
      | MMap d => MMap (map_nth i (fun kv => (fst kv, upd_at p u (snd kv))) d)
      | _ => v
      end
  end.

(* ---- row objects ------------------------------------------------------------------------------------- *)
Record robj := mk_robj { r_cls : row_cls; r_vals : list mval; r_size : option N }.
Definition heap := list robj.

Inductive sop :=
| SNew (c : row_cls) (vals : list mval) (via_df : bool)
      (* cls(tuple(vals));  via_df: DataFrame(rows=[], schema=names).append({name: value..}) and the stored row
         is the object (append sizes it; if it raises, the harness falls back to the constructor) *)
| SSize (r : nat)                           (* rows[r].nbytes() *)
| SRead (r : nat) (what : N)                (* as_map / as_dict / as_json / values / keys / repr / == / hash / copy ..: no effect *)
| SUpd (r cell : nat) (path : list nat) (u : uop)      (* in-place change of a container held by rows[r] *)
| SEmit (r : nat) (ts : N).                 (* rows[r].as_bytes with the clock at ts, then type(rows[r]).from_bytes(record) *)

Inductive sres :=
| RNone
| RBirth (e : option exn)
| RSize (n : result N)
| REmit (vals : list mval) (enc : result bytes) (dec : option (result (list cell))).

Definition set_obj (h : heap) (r : nat) (o : robj) : heap := map_nth r (fun _ => o) h.

(* Row.nbytes():  if self._cached_byte_size is None: self._cached_byte_size = len(self.as_bytes)
   An instance of Row itself has no __dict__ (__slots__ = ()): the assignment raises AttributeError after
   as_bytes has run; classes made by create_class have one. *)
Definition size_step (o : robj) : robj * result N :=
  match r_size o with
  | Some n => (o, Ok n)
  | None =>
      match encode_row_cls (r_cls o) 0 (r_vals o) with
      | Raise e => (o, Raise e)
      | Ok rec =>
          match r_cls o with
          | Made _ _ => (mk_robj (r_cls o) (r_vals o) (Some (len rec)), Ok (len rec))
          | _ => (o, Raise OtherError)
          end
      end
  end.

Definition emit (o : robj) (ts : N) : sres :=
  let enc := encode_row_cls (r_cls o) ts (r_vals o) in
  REmit (r_vals o) enc (match enc with Ok rec => Some (from_bytes_cls (r_cls o) rec) | Raise _ => None end).

Definition sess_step (h : heap) (op : sop) : heap * sres :=
  match op with
  | SNew c vals via_df =>
      let o := mk_robj c vals None in
      if via_df then
        match size_step o with
        | (o', Ok _) => (h ++ [o'], RBirth None)
        | (_, Raise e) => (h ++ [o], RBirth (Some e))
        end
      else (h ++ [o], RBirth None)
  | SSize r =>
      match nth_error h r with
      | Some o => let '(o', n) := size_step o in (set_obj h r o', RSize n)
      | None => (h, RNone)
      end
  | SRead _ _ => (h, RNone)
  | SUpd r cell path u =>
      match nth_error h r with
      | Some o => (set_obj h r (mk_robj (r_cls o) (map_nth cell (upd_at path u) (r_vals o)) (r_size o)), RNone)
      | None => (h, RNone)
      end
  | SEmit r ts =>
      match nth_error h r with
      | Some o => (h, emit o ts)
      | None => (h, RNone)
      end
  end.

Fixpoint sess_run (h : heap) (ops : list sop) : heap * list sres :=
  match ops with
  | [] => (h, [])
  | op :: t => let '(h1, r) := sess_step h op in let '(h2, rs) := sess_run h1 t in (h2, r :: rs)
  end.

(* the values-only reading of a session: what each object holds now; no cached state at all *)
Definition vals_step (vs : list (list mval)) (op : sop) : list (list mval) :=
  match op with
  | SNew _ vals _ => vs ++ [vals]
  | SUpd r cell path u =>
      match nth_error vs r with
      | Some row => map_nth r (fun _ => map_nth cell (upd_at path u) row) vs
      | None => vs
      end
  | _ => vs
  end.

(* the variant the model must be able to tell apart: sizing keeps the packed record and as_bytes hands it back *)
Record robj_f := mk_f { f_vals : list mval; f_rec : option bytes }.
Definition frozen_size (o : robj_f) : robj_f :=
  match f_rec o with
  | Some _ => o
  | None => match encode_row 0 (f_vals o) with Ok rec => mk_f (f_vals o) (Some rec) | Raise _ => o end
  end.
Definition frozen_emit (o : robj_f) (ts : N) : result bytes :=
  match f_rec o with Some rec => Ok rec | None => encode_row ts (f_vals o) end.
Definition frozen_upd (o : robj_f) (cell : nat) (path : list nat) (u : uop) : robj_f :=
  mk_f (map_nth cell (upd_at path u) (f_vals o)) (f_rec o).

(* ---- what the harness saw, and the comparison ----------------------------------------------------------- *)
Inductive sobs :=
| ONone
| OBirth (e : option exn)
| OSize (n : result N)
| OEmit (e : enc_obs) (d : outcome).      (* d = OSame: decoded to the values the object holds now *)

Definition sobs_matches (r : sres) (o : sobs) : bool :=
  match r, o with
  | RNone, ONone => true
  | RBirth None, OBirth None => true
  | RBirth (Some e), OBirth (Some e') => exn_eqb e e'
  | RSize (Ok n), OSize (Ok n') => n =? n'
  | RSize (Raise e), OSize (Raise e') => exn_eqb e e'
  | REmit vals enc dec, OEmit e d =>
      enc_matches enc [] (Some e) &&
      match dec with
      | Some m => outcome_matches m (resolve (OOk (map OVal vals)) d)
      | None => true
      end
  | _, _ => false
  end.

Fixpoint sess_check (h : heap) (ops : list (sop * sobs)) : bool :=
  match ops with
  | [] => true
  | (op, ob) :: t => let '(h1, r) := sess_step h op in sobs_matches r ob && sess_check h1 t
  end.

Definition sess_case := list (sop * sobs).
Definition c01_check_sess (c : sess_case) : bool := sess_check [] c.
Definition c01_show_sess (c : sess_case) :=
  map (fun r => match r with
                | REmit _ enc dec => REmit [] enc dec
                | x => x
                end) (snd (sess_run [] (map fst c))).
