(* binary64 instance of the distogram model, evaluated by the VM on primitive floats and
   compared bit-for-bit with the implementation.  Validated, not verified: the theorems are
   about the exact instance (Model/C13_Q.v) and, for order / bounds / mass, about any
   arithmetic at all (Proofs/C13.v). *)
From Coq Require Import ZArith List Bool PrimFloat Uint63 FloatOps SpecFloat.
From Orso Require Import Model.C13.
Import ListNotations.

Definition F_ofZ (z : Z) : float :=
  match z with
  | Z0 => 0%float
  | Zpos _ => PrimFloat.of_uint63 (Uint63.of_Z z)
  | Zneg p => PrimFloat.opp (PrimFloat.of_uint63 (Uint63.of_Z (Zpos p)))
  end.

(* int(x) for a finite float: truncation toward zero *)
Definition F_trunc (x : float) : Z :=
  match Prim2SF x with
  | S754_finite sg m e =>
      let mag := match e with
                 | Z0 => Zpos m
                 | Zpos _ => (Zpos m * 2 ^ e)%Z
                 | Zneg _ => (Zpos m / 2 ^ (- e))%Z
                 end in
      if sg then (- mag)%Z else mag
  | _ => 0%Z
  end.

Definition FA : arith float :=
  mkArith float PrimFloat.add PrimFloat.sub PrimFloat.mul PrimFloat.div F_ofZ
          PrimFloat.ltb PrimFloat.leb PrimFloat.eqb F_trunc.

(* bit-level comparison: the implementation's floats arrive as (sign, mantissa, exponent)
   triples produced from float.hex(); here we compare through Prim2SF, which is injective
   on non-NaN values and distinguishes -0.0 from 0.0 *)
Definition sf_eqb (a b : spec_float) : bool :=
  match a, b with
  | S754_zero s1, S754_zero s2 => Bool.eqb s1 s2
  | S754_infinity s1, S754_infinity s2 => Bool.eqb s1 s2
  | S754_nan, S754_nan => true
  | S754_finite s1 m1 e1, S754_finite s2 m2 e2 => Bool.eqb s1 s2 && Pos.eqb m1 m2 && Z.eqb e1 e2
  | _, _ => false
  end.
Definition f_eqb (a b : float) : bool := sf_eqb (Prim2SF a) (Prim2SF b).
Definition fopt_eqb (a b : option float) : bool :=
  match a, b with Some x, Some y => f_eqb x y | None, None => true | _, _ => false end.
Fixpoint flist_eqb (a b : list float) : bool :=
  match a, b with [], [] => true | x :: r, y :: s => f_eqb x y && flist_eqb r s | _, _ => false end.
Fixpoint fbins_eqb (a b : list (float * Z)) : bool :=
  match a, b with
  | [], [] => true
  | (x, f) :: r, (y, g) :: s => f_eqb x y && Z.eqb f g && fbins_eqb r s
  | _, _ => false
  end.
Definition fext_eqb (a b : @ext float) : bool :=
  match a, b with
  | Inf, Inf => true
  | Fin x, Fin y => f_eqb x y
  | Inf, Fin y => f_eqb y infinity
  | Fin x, Inf => f_eqb x infinity
  end.

Definition fobs := (list (float * Z) * option float * option float * option (list float * @ext float))%type.
Definition fst_eqb (s : @st float) (o : fobs) : bool :=
  let '(b, mn, mx, c) := o in
  fbins_eqb (bins s) b && fopt_eqb (hmin s) mn && fopt_eqb (hmax s) mx &&
  match diffs s, c with
  | None, None => true
  | Some d, Some (d', m') => flist_eqb d d' && fext_eqb (min_diff s) m'
  | _, _ => false
  end.

(* ---- correspondence: programs and the implementation's observations ---- *)
Inductive fo := FoState (o : fobs) | FoNone | FoNum (x : float) | FoRaise.

Definition f_obs_eqb (m : @obs float) (o : fo) : bool :=
  match m, o with
  | BState s, FoState o => fst_eqb s o
  | BAns ANone, FoNone => true
  | BAns (AInt z), FoNum x => f_eqb (F_ofZ z) x
  | BAns (ANum y), FoNum x => f_eqb y x
  | BAns AErr, FoRaise => true
  | BRaise, FoRaise => true
  | _, _ => false
  end.
Fixpoint f_all2 (a : list (@obs float)) (b : list fo) : bool :=
  match a, b with [], [] => true | x :: r, y :: s => f_obs_eqb x y && f_all2 r s | _, _ => false end.
Definition c13_check_f (c : list (@op float) * list fo) : bool :=
  f_all2 (run_prog FA [] (fst c)) (snd c).
Definition c13_show_f (c : list (@op float) * list fo) := run_prog FA [] (fst c).
