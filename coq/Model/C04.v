(* C04 - executable model of the DataFrame cursor (orso/dataframe.py: __init__ line
   "self._cursor = iter(self._rows or [])", fetchone / fetchmany / fetchall, append,
   materialize).  No proofs here: this file must keep running when a proof breaks.

   A frame is either eager (a Python list; the cursor is a list iterator, i.e. a
   position in that list) or lazy (a one-shot generator which is *also* the cursor:
   whatever the cursor yields is gone, and materialising the frame drains the
   generator and so exhausts the cursor). *)
From Coq Require Import List ZArith Bool.
Import ListNotations.

Section Cursor.
Variable A : Type.

Record st := mk {
  rows : list A;        (* eager: the stored rows.  lazy: what the generator has yet to yield *)
  lazy : bool;
  cur  : option nat;    (* eager: rows already delivered by the cursor; None once append ran *)
  asz  : Z              (* DataFrame.arraysize *)
}.

Inductive op :=
| FetchOne
| FetchMany (k : option Z)       (* None = size omitted -> arraysize *)
| FetchAll
| SetArraysize (n : Z)
| ObservePure                    (* column_names / columncount / arraysize: touch nothing *)
| ObserveMat                     (* rowcount, len, shape, collect, iteration, slice, arrow, display, str *)
| Append (r : A)                 (* append of an entry the frame accepts *)
| AppendBad (r : A).             (* append of an entry that makes append raise: schema validation rejects it,
                                    the row factory cannot build a row from it, or Row.nbytes() cannot size
                                    it (integer wider than 64 bits, non-string dict key, record over 16Mb).
                                    [r] is the row that would have been stored. *)

Inductive out :=
| ORow (r : option A)            (* fetchone *)
| ORows (l : list A)             (* fetchmany / fetchall *)
| OUnit                          (* observers, arraysize *)
| ORaise                         (* the (fetch) call raised *)
| OAppend (ok : bool) (n : option nat).
                                 (* an append call: did it return normally, and the length of the row store
                                    right afterwards (None while the store is a generator and has no length) *)

Definition init_eager (l : list A) : st := mk l false (Some 0) 100.
Definition init_lazy (l : list A) : st := mk l true (Some 0) 100.

Definition fetch_size (s : st) (k : option Z) : nat :=
  Z.to_nat (match k with Some z => z | None => asz s end).   (* range(n) is empty for n <= 0 *)

Definition step (s : st) (o : op) : st * out :=
  match o with
  | SetArraysize n => (mk (rows s) (lazy s) (cur s) n, OUnit)
  | ObservePure => (s, OUnit)
  | ObserveMat =>
      if lazy s
      then (* list(generator): the cursor is that generator, now spent *)
           (mk (rows s) false (match cur s with Some _ => Some (length (rows s)) | None => None end) (asz s), OUnit)
      else (s, OUnit)
  | Append r =>
      if lazy s then (s, OAppend false None)   (* generator has no append; raised before the cursor is dropped *)
      else (mk (rows s ++ [r]) false None (asz s), OAppend true (Some (length (rows s ++ [r]))))
  | AppendBad r =>
      (* every statement of DataFrame.append that can raise (validate, row factory, nbytes) comes before
         the first one that changes the frame: nothing is stored and the cursor is left alone *)
      (s, OAppend false (if lazy s then None else Some (length (rows s))))
  | FetchOne =>
      match cur s with
      | None => (s, ORaise)
      | Some p =>
          if lazy s then
            match rows s with
            | [] => (s, ORow None)
            | r :: rest => (mk rest true (Some p) (asz s), ORow (Some r))
            end
          else
            match nth_error (rows s) p with
            | None => (s, ORow None)
            | Some r => (mk (rows s) false (Some (S p)) (asz s), ORow (Some r))
            end
      end
  | FetchMany k =>
      match cur s with
      | None => (s, ORaise)
      | Some p =>
          let n := fetch_size s k in
          if lazy s then
            (mk (skipn n (rows s)) true (Some p) (asz s), ORows (firstn n (rows s)))
          else
            let got := firstn n (skipn p (rows s)) in
            (mk (rows s) false (Some (p + length got)) (asz s), ORows got)
      end
  | FetchAll =>
      match cur s with
      | None => (s, ORaise)
      | Some p =>
          if lazy s then (mk [] true (Some p) (asz s), ORows (rows s))
          else (mk (rows s) false (Some (length (rows s))) (asz s), ORows (skipn p (rows s)))
      end
  end.

Fixpoint run (s : st) (ops : list op) : st * list out :=
  match ops with
  | [] => (s, [])
  | o :: r => let '(s1, x) := step s o in
              let '(s2, xs) := run s1 r in (s2, x :: xs)
  end.

(* everything the fetch calls delivered, in call order *)
Definition delivered (x : out) : list A :=
  match x with
  | ORow (Some r) => [r]
  | ORows l => l
  | _ => []
  end.

Definition fetched (xs : list out) : list A := flat_map delivered xs.

(* is_append: an append that stored its row (a failed append is not one) *)
Definition is_append (o : op) : bool := match o with Append _ => true | _ => false end.
Definition appended_of (o : op) : list A := match o with Append r => [r] | _ => [] end.
(* the rows a history stored, in call order *)
Definition appended (ops : list op) : list A := flat_map appended_of ops.
Definition is_fetch (o : op) : bool :=
  match o with FetchOne | FetchMany _ | FetchAll => true | _ => false end.
Definition is_mat (o : op) : bool := match o with ObserveMat => true | _ => false end.

End Cursor.

Arguments mk {A}. Arguments rows {A}. Arguments lazy {A}. Arguments cur {A}. Arguments asz {A}.
Arguments FetchOne {A}. Arguments FetchMany {A}. Arguments FetchAll {A}.
Arguments SetArraysize {A}. Arguments ObservePure {A}. Arguments ObserveMat {A}. Arguments Append {A}.
Arguments AppendBad {A}. Arguments OAppend {A}. Arguments appended_of {A}. Arguments appended {A}.
Arguments ORow {A}. Arguments ORows {A}. Arguments OUnit {A}. Arguments ORaise {A}.
Arguments init_eager {A}. Arguments init_lazy {A}. Arguments step {A}. Arguments run {A}.
Arguments fetched {A}. Arguments delivered {A}. Arguments is_append {A}. Arguments is_fetch {A}.
Arguments is_mat {A}. Arguments fetch_size {A}.

(* ---- comparison used by the correspondence files (rows are identified by integers) ---- *)
Definition out_eqb (a b : out Z) : bool :=
  match a, b with
  | ORow None, ORow None => true
  | ORow (Some x), ORow (Some y) => Z.eqb x y
  | ORows l1, ORows l2 => if list_eq_dec Z.eq_dec l1 l2 then true else false
  | OUnit, OUnit => true
  | ORaise, ORaise => true
  | OAppend k1 n1, OAppend k2 n2 =>
      Bool.eqb k1 k2 &&
      match n1, n2 with
      | None, None => true
      | Some x, Some y => Nat.eqb x y
      | _, _ => false
      end
  | _, _ => false
  end.

Fixpoint outs_eqb (a b : list (out Z)) : bool :=
  match a, b with
  | [], [] => true
  | x :: r, y :: s => out_eqb x y && outs_eqb r s
  | _, _ => false
  end.

(* a case: (lazy?, initial rows, history, outputs observed on the implementation) *)
Definition c04_check (c : bool * list Z * list (op Z) * list (out Z)) : bool :=
  let '(lz, l, ops, obs) := c in
  outs_eqb (snd (run (if lz then init_lazy l else init_eager l) ops)) obs.

Definition c04_show (c : bool * list Z * list (op Z) * list (out Z)) : list (out Z) :=
  let '(lz, l, ops, obs) := c in
  snd (run (if lz then init_lazy l else init_eager l) ops).
