(* C04 - executable model of the DataFrame cursor (orso/dataframe.py: __init__ line
   "self._cursor = iter(self._rows or [])", fetchone / fetchmany / fetchall, append,
   materialize).  No proofs here: this file must keep running when a proof breaks.

   A frame is either eager (a Python list; the cursor is a list iterator, i.e. a
   position in that list) or lazy (a one-shot generator which is *also* the cursor:
   whatever the cursor yields is gone, and materialising the frame drains the
   generator and so exhausts the cursor). *)
From Coq Require Import List ZArith Bool.
Import ListNotations.

Section Cursor.
Variable A : Type.

Record st := mk {
  rows : list A;        (* eager: the stored rows.  lazy: what the generator has yet to yield *)
  lazy : bool;
  cur  : option nat;    (* eager: rows already delivered by the cursor; None once append ran *)
  asz  : Z              (* DataFrame.arraysize *)
}.

(* Python's  l[o : o + k]  as DataFrame.slice(offset, length) computes it (dataframe.py slice):
   a negative offset counts from the end (clamped at 0); length None -> to the end; length 0 -> nothing;
   otherwise the stop index o + k, which Python again counts from the end when it is negative. *)
Definition py_slice (l : list A) (off : Z) (len : option Z) : list A :=
  let n := Z.of_nat (length l) in
  let o := if (off <? 0)%Z then Z.max 0 (n + off) else off in
  match len with
  | None => skipn (Z.to_nat o) l
  | Some k =>
      if (k =? 0)%Z then []
      else let stop := (o + k)%Z in
           let stop' := if (stop <? 0)%Z then Z.max 0 (n + stop) else stop in
           firstn (Z.to_nat (stop' - o)) (skipn (Z.to_nat o) l)
  end.

(* what a read-only observer reports about the frame: how many rows / which rows *)
Inductive view :=
| VCount                                   (* rowcount, len, shape *)
| VRows (off : Z) (len : option Z).        (* the rows of slice(off, len): collect / iteration / arrow /
                                              markdown(limit) / head / tail / slice / row(i) / query / distinct *)

Inductive op :=
| FetchOne
| FetchMany (k : option Z)       (* None = size omitted -> arraysize *)
| FetchAll
| SetArraysize (n : Z)
| ObservePure                    (* column_names / columncount / arraysize: touch nothing *)
| ObserveMat                     (* rowcount, len, shape, collect, iteration, slice, arrow, display, str *)
| ObserveView (v : view)         (* the same observers, with what they report: it depends on the row store only *)
| Append (r : A)                 (* append of an entry the frame accepts *)
| AppendBad (r : A).             (* append of an entry that makes append raise: schema validation rejects it,
                                    the row factory cannot build a row from it, or Row.nbytes() cannot size
                                    it (integer wider than 64 bits, non-string dict key, record over 16Mb).
                                    [r] is the row that would have been stored. *)

Inductive out :=
| ORow (r : option A)            (* fetchone *)
| ORows (l : list A)             (* fetchmany / fetchall *)
| OUnit                          (* observers, arraysize *)
| ORaise                         (* the (fetch) call raised *)
| OCount (n : nat)               (* a counting observer *)
| OSeen (l : list A)             (* the rows an observer showed (NOT a delivery of the cursor) *)
| OAppend (ok : bool) (n : option nat).
                                 (* an append call: did it return normally, and the length of the row store
                                    right afterwards (None while the store is a generator and has no length) *)

Definition init_eager (l : list A) : st := mk l false (Some 0) 100.
Definition init_lazy (l : list A) : st := mk l true (Some 0) 100.

Definition fetch_size (s : st) (k : option Z) : nat :=
  Z.to_nat (match k with Some z => z | None => asz s end).   (* range(n) is empty for n <= 0 *)

Definition view_out (v : view) (l : list A) : out :=
  match v with
  | VCount => OCount (length l)
  | VRows off len => OSeen (py_slice l off len)
  end.

(* materialize(): list(generator) - the cursor is that generator, now spent *)
Definition materialized (s : st) : st :=
  if lazy s
  then mk (rows s) false (match cur s with Some _ => Some (length (rows s)) | None => None end) (asz s)
  else s.

Definition step (s : st) (o : op) : st * out :=
  match o with
  | ObserveView v => (materialized s, view_out v (rows s))
  | SetArraysize n => (mk (rows s) (lazy s) (cur s) n, OUnit)
  | ObservePure => (s, OUnit)
  | ObserveMat => (materialized s, OUnit)
  | Append r =>
      if lazy s then (s, OAppend false None)   (* generator has no append; raised before the cursor is dropped *)
      else (mk (rows s ++ [r]) false None (asz s), OAppend true (Some (length (rows s ++ [r]))))
  | AppendBad r =>
      (* every statement of DataFrame.append that can raise (validate, row factory, nbytes) comes before
         the first one that changes the frame: nothing is stored and the cursor is left alone *)
      (s, OAppend false (if lazy s then None else Some (length (rows s))))
  | FetchOne =>
      match cur s with
      | None => (s, ORaise)
      | Some p =>
          if lazy s then
            match rows s with
            | [] => (s, ORow None)
            | r :: rest => (mk rest true (Some p) (asz s), ORow (Some r))
            end
          else
            match nth_error (rows s) p with
            | None => (s, ORow None)
            | Some r => (mk (rows s) false (Some (S p)) (asz s), ORow (Some r))
            end
      end
  | FetchMany k =>
      match cur s with
      | None => (s, ORaise)
      | Some p =>
          let n := fetch_size s k in
          if lazy s then
            (mk (skipn n (rows s)) true (Some p) (asz s), ORows (firstn n (rows s)))
          else
            let got := firstn n (skipn p (rows s)) in
            (mk (rows s) false (Some (p + length got)) (asz s), ORows got)
      end
  | FetchAll =>
      match cur s with
      | None => (s, ORaise)
      | Some p =>
          if lazy s then (mk [] true (Some p) (asz s), ORows (rows s))
          else (mk (rows s) false (Some (length (rows s))) (asz s), ORows (skipn p (rows s)))
      end
  end.

Fixpoint run (s : st) (ops : list op) : st * list out :=
  match ops with
  | [] => (s, [])
  | o :: r => let '(s1, x) := step s o in
              let '(s2, xs) := run s1 r in (s2, x :: xs)
  end.

(* everything the fetch calls delivered, in call order *)
Definition delivered (x : out) : list A :=
  match x with
  | ORow (Some r) => [r]
  | ORows l => l
  | _ => []
  end.

Definition fetched (xs : list out) : list A := flat_map delivered xs.

(* is_append: an append that stored its row (a failed append is not one) *)
Definition is_append (o : op) : bool := match o with Append _ => true | _ => false end.
Definition appended_of (o : op) : list A := match o with Append r => [r] | _ => [] end.
(* the rows a history stored, in call order *)
Definition appended (ops : list op) : list A := flat_map appended_of ops.
Definition is_fetch (o : op) : bool :=
  match o with FetchOne | FetchMany _ | FetchAll => true | _ => false end.
Definition is_mat (o : op) : bool := match o with ObserveMat | ObserveView _ => true | _ => false end.

(* ---------- sessions over several frames: object identity made explicit ----------
   A heap of frames; frame i of the heap is a DataFrame object.  [On i o] calls o on frame i;
   [Derive i d] calls a frame-returning observer (slice / head / tail / query / distinct) on
   frame i and keeps the returned object as a NEW frame at the end of the heap: it owns its row
   list and its cursor (DataFrame(rows=<new list>, schema=...) -> iter(new list)). *)
Inductive dop :=
| DSlice (off : Z) (len : option Z)        (* slice(off, len); head(n) = slice(0, n); tail(n) = slice(-n, n) *)
| DQuery (p : A -> bool).                  (* query(p); distinct() on distinct rows is DQuery (fun _ => true) *)

Inductive sop :=
| On (i : nat) (o : op)
| Derive (i : nat) (d : dop).

Inductive sout :=
| SOut (x : out)
| SDerived (l : list A)                    (* the rows of the frame handed back *)
| SBad.                                    (* no such frame *)

Definition derive_rows (d : dop) (l : list A) : list A :=
  match d with
  | DSlice off len => py_slice l off len
  | DQuery p => filter p l
  end.

(* what the call does to the frame it is called on: slice materialises; query/distinct iterate the
   row store directly (a generator-backed source is drained and stays a - now empty - generator) *)
Definition src_after (d : dop) (s : st) : st :=
  match d with
  | DSlice _ _ => materialized s
  | DQuery _ => if lazy s then mk [] true (cur s) (asz s) else s
  end.

Fixpoint update (h : list st) (i : nat) (s : st) : list st :=
  match h, i with
  | [], _ => []
  | _ :: t, O => s :: t
  | x :: t, S i' => x :: update t i' s
  end.

Definition sstep (h : list st) (o : sop) : list st * sout :=
  match o with
  | On i o =>
      match nth_error h i with
      | Some s => let '(s', x) := step s o in (update h i s', SOut x)
      | None => (h, SBad)
      end
  | Derive i d =>
      match nth_error h i with
      | Some s => let l := derive_rows d (rows s) in
                  (update h i (src_after d s) ++ [init_eager l], SDerived l)
      | None => (h, SBad)
      end
  end.

Fixpoint srun (h : list st) (ops : list sop) : list st * list sout :=
  match ops with
  | [] => (h, [])
  | o :: r => let '(h1, x) := sstep h o in
              let '(h2, xs) := srun h1 r in (h2, x :: xs)
  end.

(* the calls a session makes on frame j, and what they returned *)
Definition sel_op (j : nat) (o : sop) : list op :=
  match o with On i o => if Nat.eqb i j then [o] else [] | Derive _ _ => [] end.
Definition sel (j : nat) (ops : list sop) : list op := flat_map (sel_op j) ops.

Fixpoint outs_for (j : nat) (ops : list sop) (xs : list sout) : list out :=
  match ops, xs with
  | On i _ :: r, SOut x :: t => if Nat.eqb i j then x :: outs_for j r t else outs_for j r t
  | _ :: r, _ :: t => outs_for j r t
  | _, _ => []
  end.

End Cursor.

Arguments mk {A}. Arguments rows {A}. Arguments lazy {A}. Arguments cur {A}. Arguments asz {A}.
Arguments FetchOne {A}. Arguments FetchMany {A}. Arguments FetchAll {A}.
Arguments SetArraysize {A}. Arguments ObservePure {A}. Arguments ObserveMat {A}. Arguments Append {A}.
Arguments ObserveView {A}. Arguments OCount {A}. Arguments OSeen {A}. Arguments py_slice {A}.
Arguments view_out {A}. Arguments materialized {A}.
Arguments DSlice {A}. Arguments DQuery {A}. Arguments On {A}. Arguments Derive {A}.
Arguments SOut {A}. Arguments SDerived {A}. Arguments SBad {A}.
Arguments derive_rows {A}. Arguments src_after {A}. Arguments update {A}. Arguments sstep {A}. Arguments srun {A}.
Arguments sel_op {A}. Arguments sel {A}. Arguments outs_for {A}.
Arguments AppendBad {A}. Arguments OAppend {A}. Arguments appended_of {A}. Arguments appended {A}.
Arguments ORow {A}. Arguments ORows {A}. Arguments OUnit {A}. Arguments ORaise {A}.
Arguments init_eager {A}. Arguments init_lazy {A}. Arguments step {A}. Arguments run {A}.
Arguments fetched {A}. Arguments delivered {A}. Arguments is_append {A}. Arguments is_fetch {A}.
Arguments is_mat {A}. Arguments fetch_size {A}.

(* ---- a lazily backed frame fed by several tables (DataFrame.from_arrow: converters._RowsIterator) ----
   The row source walks a sequence of tables; __next__ hands out the next row of the current table and,
   when that table is used up, moves on to the next table THAT HAS A ROW - empty tables are skipped. *)
Section Chunked.
Variable A : Type.

Fixpoint cnext (cs : list (list A)) : option (A * list (list A)) :=
  match cs with
  | [] => None                                  (* no table left: StopIteration *)
  | [] :: t => cnext t                          (* this table has no (more) rows: try the next one *)
  | (r :: rest) :: t => Some (r, rest :: t)
  end.

(* everything the source yields, by calling cnext until it stops *)
Fixpoint cdrain (fuel : nat) (cs : list (list A)) : list A :=
  match fuel with
  | O => []
  | S k => match cnext cs with
           | None => []
           | Some (r, cs') => r :: cdrain k cs'
           end
  end.

Definition chunk_rows (cs : list (list A)) : list A := cdrain (S (length (concat cs))) cs.
Definition init_chunked (cs : list (list A)) : st A := init_lazy (chunk_rows cs).
End Chunked.
Arguments cnext {A}. Arguments cdrain {A}. Arguments chunk_rows {A}. Arguments init_chunked {A}.

(* ---- renaming rows: the same history on a frame whose rows are the images under f ---- *)
Section MapRows.
Variables A B : Type.
Variable f : A -> B.

Definition map_st (s : st A) : st B := mk (map f (rows s)) (lazy s) (cur s) (asz s).

Definition map_op (o : op A) : op B :=
  match o with
  | FetchOne => FetchOne
  | FetchMany k => FetchMany k
  | FetchAll => FetchAll
  | SetArraysize n => SetArraysize n
  | ObservePure => ObservePure
  | ObserveMat => ObserveMat
  | ObserveView v => ObserveView v
  | Append r => Append (f r)
  | AppendBad r => AppendBad (f r)
  end.

Definition map_out (x : out A) : out B :=
  match x with
  | ORow r => ORow (option_map f r)
  | ORows l => ORows (map f l)
  | OUnit => OUnit
  | ORaise => ORaise
  | OCount n => OCount n
  | OSeen l => OSeen (map f l)
  | OAppend ok n => OAppend ok n
  end.
End MapRows.
Arguments map_st {A B}. Arguments map_op {A B}. Arguments map_out {A B}.

(* ---- comparison used by the correspondence files (rows are identified by integers) ---- *)
Definition out_eqb (a b : out Z) : bool :=
  match a, b with
  | ORow None, ORow None => true
  | ORow (Some x), ORow (Some y) => Z.eqb x y
  | ORows l1, ORows l2 => if list_eq_dec Z.eq_dec l1 l2 then true else false
  | OUnit, OUnit => true
  | ORaise, ORaise => true
  | OCount x, OCount y => Nat.eqb x y
  | OSeen l1, OSeen l2 => if list_eq_dec Z.eq_dec l1 l2 then true else false
  | OAppend k1 n1, OAppend k2 n2 =>
      Bool.eqb k1 k2 &&
      match n1, n2 with
      | None, None => true
      | Some x, Some y => Nat.eqb x y
      | _, _ => false
      end
  | _, _ => false
  end.

Fixpoint outs_eqb (a b : list (out Z)) : bool :=
  match a, b with
  | [], [] => true
  | x :: r, y :: s => out_eqb x y && outs_eqb r s
  | _, _ => false
  end.

(* a case: (lazy?, initial rows, history, outputs observed on the implementation) *)
Definition c04_check (c : bool * list Z * list (op Z) * list (out Z)) : bool :=
  let '(lz, l, ops, obs) := c in
  outs_eqb (snd (run (if lz then init_lazy l else init_eager l) ops)) obs.

Definition c04_show (c : bool * list Z * list (op Z) * list (out Z)) : list (out Z) :=
  let '(lz, l, ops, obs) := c in
  snd (run (if lz then init_lazy l else init_eager l) ops).

(* ---- sessions: (lazy?, initial rows of frame 0, session, outputs observed on the implementation) ---- *)
Definition sout_eqb (a b : sout Z) : bool :=
  match a, b with
  | SOut x, SOut y => out_eqb x y
  | SDerived l1, SDerived l2 => if list_eq_dec Z.eq_dec l1 l2 then true else false
  | SBad, SBad => true
  | _, _ => false
  end.

Fixpoint souts_eqb (a b : list (sout Z)) : bool :=
  match a, b with
  | [], [] => true
  | x :: r, y :: s => sout_eqb x y && souts_eqb r s
  | _, _ => false
  end.

Definition c04_scheck (c : bool * list Z * list (sop Z) * list (sout Z)) : bool :=
  let '(lz, l, ops, obs) := c in
  souts_eqb (snd (srun [if lz then init_lazy l else init_eager l] ops)) obs.

Definition c04_sshow (c : bool * list Z * list (sop Z) * list (sout Z)) : list (sout Z) :=
  let '(lz, l, ops, obs) := c in
  snd (srun [if lz then init_lazy l else init_eager l] ops).

(* ---- frames fed by several tables: (tables, history, outputs observed on the implementation) ---- *)
Definition c04_ccheck (c : list (list Z) * list (op Z) * list (out Z)) : bool :=
  let '(cs, ops, obs) := c in outs_eqb (snd (run (init_chunked cs) ops)) obs.

Definition c04_cshow (c : list (list Z) * list (op Z) * list (out Z)) : list (out Z) :=
  let '(cs, ops, obs) := c in snd (run (init_chunked cs) ops).
