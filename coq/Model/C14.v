(* C14, round 7: sessions in which some calls are REJECTED (update with a count <= 0 raises
   ValueError, dump of an empty histogram raises, ...).  The history model is Model/C13.v's
   [exec] / [run_prog]; there a call that raises leaves the environment as it was.  What is added here:

   * [prune]: the history with its rejected calls deleted (decided by running the model);
   * [c14_check_s]: the correspondence check for sessions.  Beside the per-call observations of
     c13_check_f, a rejected call carries the state of its target histogram as the implementation
     left it AFTER the failed call; it must be, bit for bit, the model's state of that histogram
     (which Proofs/C14_Reject.v shows is the state BEFORE the call). *)
From Coq Require Import List ZArith Floats.
From Orso Require Import Model.C13 Model.C13_F.
Import ListNotations.

Section Prune.
Context {T : Type}.
Variable A : arith T.

Definition is_raise (x : @obs T) : bool := match x with BRaise => true | _ => false end.

Fixpoint prune (e : @env T) (p : list (@op T)) : list (@op T) :=
  match p with
  | [] => []
  | o :: r => let '(e', x) := exec A e o in
              if is_raise x then prune e' r else o :: prune e' r
  end.
End Prune.

(* an observation of a session: a plain one (as in C13), or "the call on histogram k raised and this is
   what histogram k looks like afterwards" (None: there is no such histogram) *)
Inductive so := SPlain (o : fo) | SRejected (k : nat) (after : option fobs).

Definition s_obs_eqb (e' : @env float) (m : @obs float) (o : so) : bool :=
  match o with
  | SPlain y => f_obs_eqb m y
  | SRejected k after =>
      is_raise m &&
      match get e' k, after with
      | Some s, Some a => fst_eqb s a
      | None, None => true
      | _, _ => false
      end
  end.

Fixpoint s_run (e : @env float) (p : list (@op float)) (os : list so) : bool :=
  match p, os with
  | [], [] => true
  | o :: r, x :: s => let '(e', b) := exec FA e o in s_obs_eqb e' b x && s_run e' r s
  | _, _ => false
  end.

Definition c14_check_s (c : list (@op float) * list so) : bool := s_run [] (fst c) (snd c).
Definition c14_show_s (c : list (@op float) * list so) := run_prog FA [] (fst c).
