(* C13 / C14 - executable model of orso/profiler/distogram/__init__.py, written ONCE over an
   abstract arithmetic [arith T] and instantiated with exact rationals (Model/C13_Q.v: the
   instance the theorems are about, also run against the real code with exact Fractions)
   and with binary64 (Model/C13_F.v: compared bit-for-bit with the real code).

   Every place where the Python can raise (list.index miss, min([]), list index out of
   range, count <= 0) returns None here, so "the call completes" is part of what is proved.
   No proofs in this file. *)
From Coq Require Import List ZArith Bool.
Import ListNotations.

Record arith (T : Type) := mkArith {
  add : T -> T -> T;  sub : T -> T -> T;  mul : T -> T -> T;  div : T -> T -> T;
  ofZ : Z -> T;                      (* int -> number, as Python does when mixing int and float *)
  ltb : T -> T -> bool;  leb : T -> T -> bool;  eqb : T -> T -> bool;
  trunc : T -> Z                     (* int(x): truncation toward zero *)
}.
Arguments add {T}. Arguments sub {T}. Arguments mul {T}. Arguments div {T}. Arguments ofZ {T}.
Arguments ltb {T}. Arguments leb {T}. Arguments eqb {T}. Arguments trunc {T}.

(* ---- small list library with Python's failure modes ---- *)
Fixpoint set_at {A} (i : nat) (x : A) (l : list A) : list A :=
  match i, l with O, _ :: t => x :: t | S j, h :: t => h :: set_at j x t | _, [] => [] end.
Fixpoint remove_at {A} (i : nat) (l : list A) : list A :=
  match i, l with O, _ :: t => t | S j, h :: t => h :: remove_at j t | _, [] => [] end.
Fixpoint insert_at {A} (i : nat) (x : A) (l : list A) : list A :=      (* list.insert clamps *)
  match i, l with O, _ => x :: l | S j, h :: t => h :: insert_at j x t | S _, [] => [x] end.

Definition bind {A B} (o : option A) (f : A -> option B) : option B :=
  match o with Some x => f x | None => None end.
Notation "'do' x <- a ; b" := (bind a (fun x => b)) (at level 200, x name, a at level 100, b at level 200).
Notation "'do' ' p <- a ; b" := (bind a (fun x => let 'p := x in b)) (at level 200, p pattern, a at level 100, b at level 200).
Notation "'do' '_' <- a ; b" := (bind a (fun _ => b)) (at level 200, a at level 100, b at level 200).

Section Disto.
Context {T : Type}.
Variable A : arith T.

Local Notation bin := (T * Z)%type.

(* min_diff is None in a fresh histogram, +inf after load() of fewer than two bins *)
Inductive ext := Inf | Fin (x : T).
Definition lt_ext (x : T) (m : ext) : bool := match m with Inf => true | Fin y => ltb A x y end.
Definition eq_ext (x : T) (m : ext) : bool := match m with Inf => false | Fin y => eqb A x y end.

Record st := mkst {
  bins : list bin;            (* sorted (centre, count) pairs *)
  hmin : option T;  hmax : option T;
  diffs : option (list T);    (* cached gaps between adjacent centres, None until first needed *)
  min_diff : ext;             (* cached minimum of diffs; meaningful only when diffs is Some *)
  cap : nat                   (* _bin_count *)
}.
Definition with_bins (s : st) b := mkst b (hmin s) (hmax s) (diffs s) (min_diff s) (cap s).
Definition with_cache (s : st) d m := mkst (bins s) (hmin s) (hmax s) d m (cap s).
Definition empty (c : nat) : st := mkst [] None None None Inf c.

(* Python min(a, b) = b if b < a else a ;  max(a, b) = b if b > a else a *)
Definition pmin (a b : T) : T := if ltb A b a then b else a.
Definition pmax (a b : T) : T := if ltb A a b then b else a.
(* Python min(list): first minimal element; ValueError on [] *)
Fixpoint lmin_from (m : T) (l : list T) : T :=
  match l with [] => m | x :: t => lmin_from (if ltb A x m then x else m) t end.
Definition lmin (l : list T) : option T := match l with [] => None | x :: t => Some (lmin_from x t) end.
(* list.index with ==; ValueError when absent *)
Fixpoint index_of (x : T) (l : list T) : option nat :=
  match l with [] => None | y :: t => if eqb A y x then Some O else option_map S (index_of x t) end.

Fixpoint gaps (b : list bin) : list T :=
  match b with
  | (v1, _) :: (((v2, _) :: _) as t) => sub A v2 v1 :: gaps t
  | _ => []
  end.

Definition centroid (v1 : T) (f1 : Z) (v2 : T) (f2 : Z) : T :=
  div A (add A (mul A v1 (ofZ A f1)) (mul A v2 (ofZ A f2))) (ofZ A (f1 + f2)%Z).

(* _update_diffs(h, i) *)
Definition update_diffs (s : st) (i : nat) : option st :=
  match diffs s with
  | None => Some s
  | Some d =>
      let n := length (bins s) in
      do '(d, md, upd) <-
        (if Nat.ltb 0 i then
           do x <- nth_error d (i - 1);
           do bi <- nth_error (bins s) i;
           do bj <- nth_error (bins s) (i - 1);
           let g := sub A (fst bi) (fst bj) in
           Some (set_at (i - 1) g d, (if lt_ext g (min_diff s) then Fin g else min_diff s), eq_ext x (min_diff s))
         else Some (d, min_diff s, false));
      do '(d, md, upd) <-
        (if Nat.ltb (S i) n then
           do x <- nth_error d i;
           do bi <- nth_error (bins s) i;
           do bk <- nth_error (bins s) (S i);
           let g := sub A (fst bk) (fst bi) in
           Some (set_at i g d, (if lt_ext g md then Fin g else md), upd || eq_ext x md)
         else Some (d, md, upd));
      if upd then do m <- lmin d; Some (with_cache s (Some d) (Fin m))
      else Some (with_cache s (Some d) md)
  end.

(* index of the pair to merge when no cache exists: min over (i, gap) by gap, first minimal *)
Fixpoint argmin_from (bi : nat) (bm : T) (i : nat) (l : list T) : nat :=
  match l with [] => bi | x :: t => if ltb A x bm then argmin_from i x (S i) t else argmin_from bi bm (S i) t end.
Definition argmin (l : list T) : option nat :=
  match l with [] => None | x :: t => Some (argmin_from O x 1 t) end.

(* one iteration of the body of _trim's while loop *)
Definition trim_step (s : st) : option st :=
  do i <- match diffs s with
          | Some d => match min_diff s with Fin m => index_of m d | Inf => None end
          | None => argmin (gaps (bins s))
          end;
  do '(v1, f1) <- nth_error (bins s) i;
  do '(v2, f2) <- nth_error (bins s) (S i);
  (* rounding must not carry the merged centre outside the two it replaces *)
  let c := pmin (pmax (centroid v1 f1 v2 f2) v1) v2 in
  let b' := set_at i (c, (f1 + f2)%Z) (remove_at (S i) (bins s)) in
  match diffs s with
  | None => Some (with_bins s b')
  | Some d =>
      do _ <- nth_error d i;                                (* h.diffs.pop(i) *)
      do s2 <- update_diffs (mkst b' (hmin s) (hmax s) (Some (remove_at i d)) (min_diff s) (cap s)) i;
      do d2 <- diffs s2;
      do m <- lmin d2;                                     (* h.min_diff = min(h.diffs) *)
      Some (with_cache s2 (Some d2) (Fin m))
  end.

Fixpoint trim (fuel : nat) (s : st) : option st :=
  if Nat.leb (length (bins s)) (cap s) then Some s
  else match fuel with
       | O => None                                         (* out of fuel: never with fuel = length bins *)
       | S k => do s' <- trim_step s; trim k s'
       end.

(* bisect_left(h.bins, (value, 1)): tuples compare lexicographically *)
Fixpoint bisect_left (b : list bin) (v : T) : nat :=
  match b with
  | [] => O
  | (x, f) :: t => if ltb A x v || (eqb A x v && Z.ltb f 1) then S (bisect_left t v) else O
  end.

(* where the new value goes: (index, "index is -1") - 0 when value <= first centre, the last
   position ("-1") when value >= last centre, bisect_left otherwise *)
Definition locate (b : list bin) (v : T) : nat * bool :=
  match b with
  | [] => (O, false)
  | (v0, _) :: _ =>
      if leb A v v0 then (O, false)
      else match nth_error b (length b - 1) with
           | Some (vl, _) => if leb A vl v then ((length b - 1)%nat, true) else (bisect_left b v, false)
           | None => (O, false)
           end
  end.

(* _search_in_place_index fills the gap cache on first use (_compute_diffs) *)
Definition ensure_cache (s : st) : option st :=
  match diffs s with
  | Some _ => Some s
  | None => let g := gaps (bins s) in do m <- lmin g; Some (with_cache s (Some g) (Fin m))
  end.

(* _search_in_place_index + the caller's "in_place_index > 0" test: Some ib = merge the new
   value into bin ib without inserting *)
Definition choose_in_place (s1 : st) (v : T) (pos : nat) : option (option nat) :=
  do '(vp, _) <- nth_error (bins s1) (pos - 1);
  do '(vq, _) <- nth_error (bins s1) pos;
  let d1 := sub A v vp in let d2 := sub A vq v in
  let '(ib, d) := if ltb A d1 d2 then ((pos - 1)%nat, d1) else (pos, d2) in
  Some (if lt_ext d (min_diff s1) && Nat.ltb 0 ib then Some ib else None).

(* _trim_in_place *)
Definition in_place (s1 : st) (v : T) (c : Z) (ib : nat) : option st :=
  do '(cv, cf) <- nth_error (bins s1) ib;
  let m := centroid cv cf v c in
  (* rounding must not carry the merged centre outside the two values it replaces *)
  let m := pmin (pmax m (pmin cv v)) (pmax cv v) in
  update_diffs (with_bins s1 (set_at ib (m, (cf + c)%Z) (bins s1))) ib.

(* append / insert the new bin, maintain the cache, widen the bounds, trim *)
Definition insert_path (s1 : st) (v : T) (c : Z) (pos : nat) (is_last : bool) : option st :=
  do s2 <-
    (if is_last then
       do '(vl, _) <- nth_error (bins s1) (length (bins s1) - 1);
       let g := sub A v vl in
       Some (mkst (bins s1 ++ [(v, c)]) (hmin s1) (hmax s1)
                  (option_map (fun d => d ++ [g]) (diffs s1))
                  (match diffs s1 with Some _ => (if lt_ext g (min_diff s1) then Fin g else min_diff s1) | None => min_diff s1 end)
                  (cap s1))
     else
       update_diffs (mkst (insert_at pos (v, c) (bins s1)) (hmin s1) (hmax s1)
                          (option_map (insert_at pos (ofZ A 0)) (diffs s1)) (min_diff s1) (cap s1)) pos);
  let mn := match hmin s2 with None => Some v | Some m => if ltb A v m then Some v else Some m end in
  let mx := match hmax s2 with None => Some v | Some m => if ltb A m v then Some v else Some m end in
  let s3 := mkst (bins s2) mn mx (diffs s2) (min_diff s2) (cap s2) in
  trim (length (bins s3)) s3.

(* everything after the exact-hit test *)
Definition update_miss (s : st) (v : T) (c : Z) (pos : nat) (is_last : bool) : option st :=
  let try_in_place := negb is_last && Nat.ltb 0 pos && Nat.leb (cap s) (length (bins s)) in
  do s1 <- (if try_in_place then ensure_cache s else Some s);
  do inplace <- (if try_in_place then choose_in_place s1 v pos else Some None);
  match inplace with
  | Some ib => in_place s1 v c ib
  | None => insert_path s1 v c pos is_last
  end.

(* update(h, value, count) *)
Definition update (s : st) (v : T) (c : Z) : option st :=
  if Z.leb c 0 then None else
  let '(pos, is_last) := locate (bins s) v in
  match nth_error (bins s) pos with
  | Some (vi, fi) =>
      if eqb A vi v then Some (with_bins s (set_at pos (vi, (fi + c)%Z) (bins s)))
      else update_miss s v c pos is_last
  | None => update_miss s v c pos is_last
  end.

(* merge(h1, h2): every bin of h2 is fed to update on h1 *)
Fixpoint feed (s : st) (l : list bin) : option st :=
  match l with [] => Some s | (v, c) :: t => do s' <- update s v c; feed s' t end.
Definition merge (s1 s2 : st) : option st := feed s1 (bins s2).

Definition omin (a b : option T) : option T :=
  match a, b with Some x, Some y => Some (pmin x y) | _, _ => None end.      (* min(None, x) raises *)
Definition omax (a b : option T) : option T :=
  match a, b with Some x, Some y => Some (pmax x y) | _, _ => None end.

(* Distogram.__add__ : merge, then the bounds are set from the operands' bounds *)
Definition hadd (s1 s2 : st) : option st :=
  do s <- merge s1 s2;
  (* merge() mutated self, so "self.min" read here is already the merged histogram's bound *)
  do mn <- omin (hmin s) (hmin s2);
  do mx <- omax (hmax s) (hmax s2);
  Some (mkst (bins s) (Some mn) (Some mx) (diffs s) (min_diff s) (cap s)).

(* Distogram.bulkload: [pairs] is what numpy.unique / numpy.histogram produced (value or bin
   midpoint, count), in order; [dmin]/[dmax] are values.min() / values.max().  Zero counts are skipped. *)
Definition bulkload (s : st) (pairs : list bin) (dmin dmax : T) : option st :=
  match pairs with
  | [] => Some s                                           (* len(values) == 0 *)
  | _ =>
    do s' <- feed s (filter (fun p => Z.ltb 0 (snd p)) pairs);
    let mn := match hmin s' with None => dmin | Some m => pmin m dmin end in
    let mx := match hmin s' with None => dmax | Some _ => match hmax s' with Some m => pmax m dmax | None => dmax end end in
    Some (mkst (bins s') (Some mn) (Some mx) (diffs s') (min_diff s') (cap s'))
  end.

(* dump() / load(bins, min, max): load rebuilds the gap cache; the capacity is the default, or the
   number of bins given if that is larger *)
Definition load (default_cap : nat) (b : list bin) (mn mx : option T) : st :=
  let d := gaps b in
  mkst b mn mx (Some d) (match lmin d with Some m => Fin m | None => Inf end)
       (Nat.max default_cap (length b)).                    (* Distogram(max(BIN_COUNT, len(bins))) *)

Definition count (s : st) : Z := fold_right (fun b a => (snd b + a)%Z) 0%Z (bins s).

(* ------------------------------------------------------------------------------------ *)
(* C14: count_at and quantile                                                          *)

Fixpoint sum_counts (l : list bin) : Z := match l with [] => 0%Z | (_, f) :: t => (f + sum_counts t)%Z end.

Inductive answer := ANone | AInt (z : Z) | ANum (x : T) | AErr.

(* i = sum(value > v for v, _ in bins) - 1 *)
Fixpoint count_gt (v : T) (l : list bin) : nat :=
  match l with [] => O | (x, _) :: t => (if ltb A x v then 1 else 0) + count_gt v t end.

Definition two := ofZ A 2.

Definition count_at (s : st) (v : T) : answer :=
  match bins s, hmin s, hmax s with
  | [], _, _ => ANone
  | (v0, f0) :: _, Some mn, Some mx =>
      if ltb A v mn || ltb A mx v then ANone
      else if eqb A v mn then AInt 0
      else if eqb A v mx then AInt (count s)
      else
        match nth_error (bins s) (length (bins s) - 1) with
        | None => AErr
        | Some (vl, fl) =>
            if leb A v v0 then                                   (* left: ratio * v0 / 2 (sic) *)
              let ratio := div A (sub A v mn) (sub A v0 mn) in
              ANum (div A (mul A ratio v0) two)
            else if leb A vl v then                              (* right *)
              let ratio := div A (sub A v vl) (sub A mx vl) in
              let r := div A (mul A (add A (ofZ A 1) ratio) (ofZ A fl)) two in
              ANum (add A r (ofZ A (sum_counts (firstn (length (bins s) - 1) (bins s)))))
            else
              let i := (count_gt v (bins s) - 1)%nat in
              match nth_error (bins s) i, nth_error (bins s) (S i) with
              | Some (vi, fi), Some (vj, fj) =>
                  let mb := add A (ofZ A fi) (mul A (div A (ofZ A (fj - fi)) (sub A vj vi)) (sub A v vi)) in
                  let r := div A (mul A (div A (add A (ofZ A fi) mb) two) (sub A v vi)) (sub A vj vi) in
                  let r := add A r (ofZ A (sum_counts (firstn i (bins s)))) in
                  ANum (add A r (div A (ofZ A fi) two))
              | _, _ => AErr
              end
        end
  | _, _, _ => AErr
  end.

(* mids and their running sums, as accumulate() builds them *)
Fixpoint mids (l : list bin) : list T :=
  match l with
  | (_, fi) :: (((_, fj) :: _) as t) => div A (ofZ A (fi + fj)) two :: mids t
  | _ => []
  end.
(* first i with mb < running sum; also returns sum(mids[:i]) computed as Python's sum() does
   (start from the integer 0) *)
Fixpoint find_mid (mb : T) (acc : option T) (i : nat) (l : list T) : option (nat * T) :=
  match l with
  | [] => None                                               (* next() on an exhausted filter: StopIteration *)
  | m :: t =>
      let acc' := match acc with None => m | Some a => add A a m end in
      if ltb A mb acc' then Some (i, m) else find_mid mb (Some acc') (S i) t
  end.
Definition psum (l : list T) : T :=                              (* sum(list) = ((0 + x0) + x1) + ... *)
  fold_left (add A) l (ofZ A 0).

Definition quantile (s : st) (q : T) : answer :=
  match bins s, hmin s, hmax s with
  | [], _, _ => ANone
  | (v0, f0) :: _, Some mn, Some mx =>
      if negb (leb A (ofZ A 0) q && leb A q (ofZ A 1)) then ANone
      else
        match nth_error (bins s) (length (bins s) - 1) with
        | None => AErr
        | Some (vl, fl) =>
            let total := count s in
            let qc := trunc A (mul A (ofZ A total) q) in       (* int(total_count * value) *)
            let qcT := ofZ A qc in
            let half0 := div A (ofZ A f0) two in
            let halfl := div A (ofZ A fl) two in
            let r :=
              if leb A qcT half0 then
                let fr := div A qcT half0 in
                Some (add A mn (mul A fr (sub A v0 mn)))
              else if leb A (sub A (ofZ A total) halfl) qcT then
                let base := sub A qcT (sub A (ofZ A total) halfl) in
                let fr := div A base halfl in
                (* the last quantile is the maximum itself, whatever the rounding *)
                Some (if leb A (ofZ A 1) fr then mx else add A vl (mul A fr (sub A mx vl)))
              else
                let mb := sub A qcT half0 in
                let ms := mids (bins s) in
                match find_mid mb None O ms with
                | None => None
                | Some (i, mi) =>
                    match nth_error (bins s) i, nth_error (bins s) (S i) with
                    | Some (vi, _), Some (vj, _) =>
                        let fr := div A (sub A mb (psum (firstn i ms))) mi in
                        Some (add A vi (mul A fr (sub A vj vi)))
                    | _, _ => None
                    end
                end in
            match r with
            | None => AErr
            | Some x => ANum (pmin (pmax x mn) mx)              (* min(max(result, h.min), h.max) *)
            end
        end
  | _, _, _ => AErr
  end.

End Disto.

Arguments Inf {T}. Arguments Fin {T}. Arguments ANone {T}. Arguments AInt {T}. Arguments ANum {T}. Arguments AErr {T}.
Arguments mkst {T}. Arguments bins {T}. Arguments hmin {T}. Arguments hmax {T}. Arguments diffs {T}.
Arguments min_diff {T}. Arguments cap {T}. Arguments empty {T}.

(* ------------------------------------------------------------------------------------ *)
(* Histories: small programs over a few named histograms, run by the harness on the real
   code and by [run_prog] on the model.  One observation per operation. *)
Section Prog.
Context {T : Type}.
Variable A : arith T.

Inductive op :=
| ONew (k : nat) (c : nat)                       (* h_k = Distogram(c) *)
| OUpd (k : nat) (v : T) (c : Z)                 (* update(h_k, v, c) *)
| OMerge (k j : nat)                             (* merge(h_k, h_j) *)
| OAdd (k j : nat)                               (* h_k = h_k + h_j *)
| OBulk (k : nat) (pairs : list (T * Z)) (dmin dmax : T)   (* h_k.bulkload(values) *)
| OLoad (k : nat) (default_cap : nat)            (* h_k = load(dump(h_k)) *)
| OLoadB (k : nat) (default_cap : nat) (b : list (T * Z)) (mn mx : option T)   (* h_k = load(b, mn, mx) *)
| OCountAt (k : nat) (x : T)
| OQuantile (k : nat) (q : T).

Inductive obs :=
| BState (s : @st T)                             (* state of h_k after the call *)
| BAns (a : @answer T)
| BRaise.

Definition env := list (option (@st T)).
Definition get (e : env) (k : nat) : option (@st T) := match nth_error e k with Some (Some s) => Some s | _ => None end.
Fixpoint put (e : env) (k : nat) (s : @st T) : env :=
  match k, e with
  | O, _ :: t => Some s :: t
  | O, [] => [Some s]
  | S j, h :: t => h :: put t j s
  | S j, [] => None :: put [] j s
  end.

Definition exec (e : env) (o : op) : env * obs :=
  let upd k r := match r with Some s => (put e k s, BState s) | None => (e, BRaise) end in
  match o with
  | ONew k c => upd k (Some (empty c))
  | OUpd k v c => upd k (do s <- get e k; update A s v c)
  | OMerge k j => upd k (do s1 <- get e k; do s2 <- get e j; merge A s1 s2)
  | OAdd k j => upd k (do s1 <- get e k; do s2 <- get e j; hadd A s1 s2)
  | OBulk k p mn mx => upd k (do s <- get e k; bulkload A s p mn mx)
  | OLoad k dc => upd k (do s <- get e k;
                         match bins s with [] => None                     (* dump() of an empty histogram raises *)
                         | _ => Some (load A dc (bins s) (hmin s) (hmax s)) end)
  | OLoadB k dc b mn mx => upd k (Some (load A dc b mn mx))
  | OCountAt k x => (e, match get e k with Some s => BAns (count_at A s x) | None => BRaise end)
  | OQuantile k q => (e, match get e k with Some s => BAns (quantile A s q) | None => BRaise end)
  end.

Fixpoint run_prog (e : env) (p : list op) : list obs :=
  match p with
  | [] => []
  | o :: r => let '(e', x) := exec e o in x :: run_prog e' r
  end.
End Prog.

Arguments ONew {T}. Arguments OUpd {T}. Arguments OMerge {T}. Arguments OAdd {T}. Arguments OBulk {T}.
Arguments OLoad {T}. Arguments OLoadB {T}. Arguments OCountAt {T}. Arguments OQuantile {T}.
Arguments BState {T}. Arguments BAns {T}. Arguments BRaise {T}.
