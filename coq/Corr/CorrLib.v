(* Mismatch counter used by every generated correspondence file.
   [mismatches chk cases] is the list of (0-based) indices of the cases on
   which the boolean comparison [chk] fails; only that list is read back. *)
From Coq Require Import List NArith.
Import ListNotations.

Fixpoint mism_aux {A : Type} (chk : A -> bool) (l : list A) (i : N) : list N :=
  match l with
  | [] => []
  | x :: r => if chk x then mism_aux chk r (N.succ i)
              else i :: mism_aux chk r (N.succ i)
  end.

Definition mismatches {A : Type} (chk : A -> bool) (l : list A) : list N :=
  mism_aux chk l 0%N.
